"""Run Lean 4 on a lemma file: every named theorem must compile and depend on no sorryAx.
Each theorem counts as one obligation discharged by the `lean` back end."""
import os
import re
import subprocess
import time

VERIF = os.path.dirname(os.path.dirname(os.path.abspath(__file__)))


def lean_check(fname, theorems, timeout=900):
    def chk(ctx):
        path = os.path.join(VERIF, 'lean', fname)
        t0 = time.time()
        try:
            r = subprocess.run(['lean', path], capture_output=True, text=True, timeout=timeout, cwd=os.path.join(VERIF, 'lean'))
        except Exception as e:
            return [dict(name=f"lean/{fname}::{t}", ok=False, undecided=True, backend='lean', detail=f"lean could not run: {e}") for t in theorems]
        out = r.stdout + r.stderr
        res = []
        errs = [l for l in out.splitlines() if ': error' in l]
        for t in theorems:
            m = re.search(rf"'{re.escape(t)}' depends on axioms: \[(.*?)\]", out, re.S) or \
                re.search(rf"'{re.escape(t)}' does not depend on any axioms()", out)
            ok = r.returncode == 0 and not errs and m is not None and 'sorryAx' not in m.group(1)
            res.append(dict(name=f"lean/{fname}::{t}", ok=ok, backend='lean', time=time.time() - t0,
                            detail=(f"axioms: [{m.group(1)}]" if m else 'theorem not found in #print axioms output') +
                                   (f"; errors: {errs[:2]}" if errs else ''),
                            confirmed=False))
        return res
    chk.__name__ = f"lean:{fname}"
    return chk
