"""Contract registry (sidecar contracts keyed by qualified name of the real function)."""


class Loop:
    def __init__(self, invariant=(), variant=None, havoc=None, modifies=None, hints=(), exit_hints=()):
        self.invariant = list(invariant)
        self.variant = variant
        self.havoc = havoc or {}          # local name -> sort descriptor for the havocked value
        self.modifies = modifies          # callable(eng, st): havoc heap/ghost the loop may change
        self.hints = list(hints)          # sound axiom instances assumed at the loop head / body end
        self.exit_hints = list(exit_hints)


def loop(**kw):
    return Loop(**kw)


class Fn:
    def __init__(self, key, params=None, requires=(), ensures=(), ensures_exc=(), returns='opaque',
                 raises=None, modifies=None, loops=None, decreases=None, inline=False, externals=None,
                 setup=None, assumed_calls=None, post_hints=(), comps=None, self_cls=None,
                 verify=True, closure_of=None, pre_hints=(), at_every_point=None, notes='',
                 cases=None, sets=None, sets_exc=None, alloc_ret=None, idempotent_effects=False, ghost_at_call=None):
        self.ghost_at_call = ghost_at_call   # callable(eng, st, s, ret): ghost bookkeeping executed at call sites
        self.key = key
        self.params = params or {}
        self.requires = list(requires)
        self.ensures = list(ensures)
        self.ensures_exc = list(ensures_exc)
        self.returns = returns
        self.raises = raises             # None: may raise anything; []: never raises; list of class names
        self.modifies = modifies         # callable(eng, st, s): havoc at call sites
        self.loops = loops or {}
        self.decreases = decreases
        self.inline = inline
        self.externals = externals or {}
        self.setup = setup               # callable(eng, st): build objects / ghost state for verification
        self.assumed_calls = assumed_calls or {}
        self.post_hints = list(post_hints)
        self.pre_hints = list(pre_hints)
        self.comps = comps or {}
        self.self_cls = self_cls
        self.verify = verify             # False: contract only assumed at call sites (listed as assumption)
        self.closure_of = closure_of
        self.at_every_point = at_every_point   # callable(eng, st, s, where): obligations at each statement boundary
        self.notes = notes
        self.cases = cases               # list of (name, setup) alternative entry configurations (aliasing / None-ness)
        self.sets = sets                 # callable(s, ret) -> [(obj, field, value)]: exact post-values of heap fields
        self.sets_exc = sets_exc
        self.idempotent_effects = idempotent_effects   # effect summaries of callees are reflexive-transitive (see exprs.comprehension)
        self.alloc_ret = alloc_ret       # callable(eng, st, s) -> return value built with state access


class Registry:
    def __init__(self, prop):
        self.prop = prop
        self.fns = {}
        self.externals = {}        # dotted syntactic name -> model, shared by all functions of the module
        self.assumed_calls = {}    # dotted name -> returns sort (terminating, frame-neutral, may raise)
        self.pure_calls = set()    # assumed calls that are pure functions of their arguments (uninterpreted functions)
        self.assumptions = []      # free-text trusted base entries
        self.axioms = []           # (name, z3 Bool) global axioms (validated facts)
        self.replays = []          # obligation-name regex -> replay function
        self.extra_checks = []     # callables(ctx) -> list of (name, ok, detail) for non-SMT checks
        self.bounded = []          # bounded stand-ins descriptions
        self.not_under_contract = []
        self.class_hints = {}

    def fn(self, key, **kw):
        c = Fn(key, **kw)
        self.fns[key] = c
        return c
