"""Symbolic state, outcomes and obligations of the pyvc executor."""
import z3
from .values import *


class Raised:
    """marks an exceptional outcome of an expression"""
    def __init__(self, exc):
        self.exc = exc

    def __repr__(self): return f"Raised({self.exc})"


class State:
    def __init__(self):
        self.env = {}      # local variable -> V
        self.pc = []       # path condition: list of z3 Bool
        self.heap = {}     # oid -> {field: V}
        self.ghost = {}    # ghost cell -> V
        self.trail = []    # human-readable branch decisions (evidence / debugging)
        self.fresh_objs = set()   # oids allocated during this invocation

    def fork(self):
        n = State()
        n.env = dict(self.env)
        n.pc = list(self.pc)
        n.heap = {k: dict(v) for k, v in self.heap.items()}
        n.ghost = dict(self.ghost)
        n.trail = list(self.trail)
        n.fresh_objs = set(self.fresh_objs)
        return n

    def assume(self, c):
        c = c.t if isinstance(c, VBool) else c
        if isinstance(c, bool):
            c = z3.BoolVal(c)
        self.pc.append(c)
        return self

    def alloc(self, cls, fields=None, hint=None, fresh=True):
        o = VObj(cls, hint=hint)
        self.heap[o.oid] = dict(fields or {})
        if fresh:
            self.fresh_objs.add(o.oid)
        return o

    def field(self, obj, name):
        return self.heap[obj.oid][name]

    def setfield(self, obj, name, v):
        self.heap[obj.oid][name] = lift(v)


class Obligation:
    def __init__(self, name, hyps, goal, meta=None):
        self.name = name
        self.hyps = list(hyps)
        self.goal = goal
        self.meta = meta or {}
        self.result = None      # 'unsat' (discharged) | 'sat' | 'unknown'
        self.backend = None
        self.model = None
        self.time = 0.0

    def smt2(self):
        s = z3.Solver()
        s.add(*self.hyps)
        s.add(z3.Not(self.goal))
        return s.to_smt2()


class NS:
    """Namespace handed to contract lambdas: s.x = current value of x, s.x0 = entry value,
    s.st = current state, s.old = state at entry (or before the call, at call sites)."""
    def __init__(self, cur, entry, st, old, extra=None):
        object.__setattr__(self, '_cur', cur)
        object.__setattr__(self, '_entry', entry)
        object.__setattr__(self, 'st', st)
        object.__setattr__(self, 'old', old)
        object.__setattr__(self, '_extra', extra or {})

    def __getattr__(self, k):
        if k in self._extra:
            return self._extra[k]
        if k in self._cur:
            return self._cur[k]
        if k.endswith('0') and k[:-1] in self._entry:
            return self._entry[k[:-1]]
        raise AttributeError(f"contract refers to unknown variable {k!r}")

    def has(self, k):
        return k in self._cur

    def f(self, obj, name):
        return self.st.field(obj, name)

    def f0(self, obj, name):
        return self.old.field(obj, name)

    def g(self, name):
        return self.st.ghost[name]

    def g0(self, name):
        return self.old.ghost[name]
