"""Mutant / refactor battery (thorough tier and development self-check).

Each entry of mutants/<id>.json is {name, file, old, new, expect: "violation"|"quiet", count?}.  The edit is applied to
a scratch copy of /repo's klongpy package under a fresh mkdtemp (outside /repo and /verif), the check is run
against that copy (PYVC_REPO / PYVC_OUT), and the copy is removed immediately."""
import json
import os
import shutil
import subprocess
import sys
import tempfile
from concurrent.futures import ThreadPoolExecutor

VERIF = os.path.dirname(os.path.dirname(os.path.abspath(__file__)))
REPO = os.environ.get('PYVC_REPO', '/repo')


def run_one(prop, m, keep_output=False):
    d = tempfile.mkdtemp(prefix='pyvc_mut_')
    try:
        shutil.copytree(os.path.join(REPO, 'klongpy'), os.path.join(d, 'klongpy'), ignore=shutil.ignore_patterns('__pycache__'))
        p = os.path.join(d, m['file'])
        s = open(p).read()
        cnt = s.count(m['old'])
        if cnt == 0:
            return dict(name=m['name'], ok=False, why='pattern not found (mutant out of date)', rc=None)
        s = s.replace(m['old'], m['new'], m.get('count', 1))
        for extra in m.get('also', ()):           # further edits of the same file that belong to the same change
            if extra['old'] not in s:
                return dict(name=m['name'], ok=False, why='pattern of an `also` edit not found (mutant out of date)', rc=None)
            s = s.replace(extra['old'], extra['new'], 1)
        open(p, 'w').write(s)
        try:
            compile(s, p, 'exec')
        except SyntaxError as e:
            return dict(name=m['name'], ok=False, why=f'mutant does not compile: {e}', rc=None)
        out = os.path.join(d, 'out')
        os.makedirs(out)
        env = dict(os.environ, PYVC_REPO=d, PYVC_OUT=out, PYTHONWARNINGS='ignore')
        r = subprocess.run([sys.executable, '-m', 'pyvc.run', prop, '--tier', 'quick'], cwd=VERIF, env=env,
                           capture_output=True, text=True, timeout=1800)
        viol = [l for l in r.stdout.splitlines() if l.startswith('VIOLATION')]
        exp = m.get('expect', 'violation')
        if exp == 'violation':
            ok = r.returncode == 1 and viol
        elif exp == 'undecided-or-violation':      # the edit uses a construct outside the subset: never a pass
            ok = r.returncode in (1, 2)
        elif exp == 'undecided':                   # a harmless edit the structural test cannot recognise: exit 2, never a VIOLATION line
            ok = r.returncode == 2 and not viol
        else:
            ok = r.returncode == 0 and not viol
        return dict(name=m['name'], ok=bool(ok), rc=r.returncode, expect=exp, violations=len(viol),
                    first=(viol[0].replace(d, '<scratch>') if viol else ''),
                    confirmed=sum(1 for l in viol if 'no-failing-input-found' not in l),
                    tail=(r.stdout[-1500:] + '\n' + '\n'.join(l for l in r.stderr.splitlines() if 'Warning' not in l and l.strip() != '"""')[-1200:]).replace(d, '<scratch>')
                    if (keep_output or not ok) else '')
    finally:
        shutil.rmtree(d, ignore_errors=True)


def battery(prop, only=None, jobs=2, deadline=None):
    p = os.path.join(VERIF, 'mutants', f'{prop.lower()}.json')
    if not os.path.exists(p):
        return []
    ms = json.load(open(p))
    if only:
        ms = [m for m in ms if only in m['name']]
    import time as _t

    def one(m):
        if deadline is not None and _t.time() > deadline:
            return dict(name=m['name'], ok=True, skipped=True, rc=None, expect=m.get('expect', 'violation'), why='not run: time budget of the battery used up')
        return run_one(prop, m)
    with ThreadPoolExecutor(jobs) as ex:
        return list(ex.map(one, ms))


if __name__ == '__main__':
    prop = sys.argv[1]
    res = battery(prop, sys.argv[2] if len(sys.argv) > 2 else None)
    bad = 0
    for r in res:
        print(('ok   ' if r['ok'] else 'FAIL ') + f"{r['name']}: rc={r['rc']} expect={r.get('expect')} violations={r.get('violations')} "
              f"confirmed={r.get('confirmed')} {r.get('why', '')} {r.get('first', '')}")
        if not r['ok']:
            bad += 1
            print(r.get('tail', ''))
    sys.exit(1 if bad else 0)
