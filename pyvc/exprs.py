"""Expression evaluation (mixin of Engine).  ev(e, st) -> list of (state, value | Raised)."""
import ast
import z3
from .values import *
from .state import *


def _quantified(e, seen=None):
    seen = seen if seen is not None else set()
    if e.get_id() in seen:
        return False
    seen.add(e.get_id())
    if z3.is_quantifier(e):
        return True
    return any(_quantified(c, seen) for c in e.children())


def ident_eq(a, b):
    return a.keys() == b.keys() and all(a[k] is b[k] for k in a)


def same_store(s, t, env=True):
    """identical local/heap/ghost bindings (object identity of the symbolic values)"""
    if env and not ident_eq(s.env, t.env):
        return False
    if not ident_eq(s.ghost, t.ghost) or s.heap.keys() != t.heap.keys():
        return False
    return all(ident_eq(s.heap[k], t.heap[k]) for k in s.heap)


def dotted(e):
    if isinstance(e, ast.Name):
        return e.id
    if isinstance(e, ast.Attribute):
        b = dotted(e.value)
        return None if b is None else f"{b}.{e.attr}"
    return None


class ExprMixin:

    # ------------------------------------------------------------ plumbing
    def bind(self, outs, f):
        res = []
        for st, v in outs:
            if isinstance(v, Raised):
                res.append((st, v))
            else:
                res.extend(f(st, v))
        return res

    def ev_many(self, es, st):
        outs = [(st, [])]
        for e in es:
            nxt = []
            for s1, vals in outs:
                if isinstance(vals, Raised):
                    nxt.append((s1, vals))
                    continue
                for s2, v in self.ev(e, s1):
                    nxt.append((s2, v if isinstance(v, Raised) else vals + [v]))
            outs = nxt
        return outs

    def exc(self, st, cls, node=None, args=None):
        return (st, Raised(VExc(cls, args, site=getattr(node, 'lineno', None))))

    def maybe_raise(self, st, what, node=None):
        """fork an exceptional outcome for an operation on opaque operands"""
        if not self.opaque_ops_may_raise:
            return []
        s2 = st.fork()
        s2.trail.append(f"raise@{getattr(node, 'lineno', '?')}:{what}")
        return [self.exc(s2, '<any>', node)]

    def truth(self, v):
        v = lift(v)
        if isinstance(v, VBool):
            return v.t
        if isinstance(v, (VInt, VReal)):
            return v.t != 0
        if isinstance(v, VStr):
            return z3.Length(v.t) > 0
        if isinstance(v, VSeq):
            return z3.Length(v.t) > 0
        if isinstance(v, VNoneT):
            return z3.BoolVal(False)
        if isinstance(v, (VTuple, VList)):
            return z3.BoolVal(len(v.items) > 0)
        if isinstance(v, VOpaque):
            return z3.And(v.pred('truth').t, z3.Not(v.pred('isnone').t))
        if isinstance(v, VObj):
            t = self.hooks.get('truth:' + v.cls)
            if t:
                return t(self, v)
            if self.src.method(v.cls, '__len__')[0] or self.src.method(v.cls, '__bool__')[0]:
                raise Refuse(f"truth value of {v.cls} with __len__/__bool__")
            return z3.BoolVal(True)
        if isinstance(v, (VFunc, VExc)):
            return z3.BoolVal(True)          # functions and exception instances are truthy
        raise Refuse(f"truth of {v!r}")

    def feasible(self, st, extra=None):
        s = z3.Solver()
        s.set('timeout', self.feas_timeout_ms)
        s.add(*self.axioms_z3)
        s.add(*st.pc)
        if extra is not None:
            s.add(extra)
        self.stats['feasibility_queries'] += 1
        return s.check() != z3.unsat

    def branch(self, st, cond, label=''):
        """-> list of (state, bool) for the feasible sides of a z3 Bool"""
        _c = z3.simplify(cond)
        cond = cond if 'seq.nth_' in _c.sexpr() else _c       # keep terms cvc5 can read (seq.nth_i / seq.nth_u are z3-internal)
        if z3.is_true(cond):
            return [(st, True)]
        if z3.is_false(cond):
            return [(st, False)]
        outs = []
        if self.feasible(st, cond):
            a = st.fork()
            a.pc.append(cond)
            a.trail.append(f"{label}:T")
            outs.append((a, True))
        if self.feasible(st, z3.Not(cond)):
            b = st.fork()
            b.pc.append(z3.Not(cond))
            b.trail.append(f"{label}:F")
            outs.append((b, False))
        return outs

    # ------------------------------------------------------------ expressions
    def ev(self, e, st):
        m = getattr(self, 'ev_' + type(e).__name__, None)
        if m is None:
            raise Refuse(f"unsupported expression {type(e).__name__} at line {getattr(e, 'lineno', '?')}")
        return m(e, st)

    def ev_Constant(self, e, st):
        v = e.value
        if v is Ellipsis or isinstance(v, (bytes, complex)):
            return [(st, VOpaque(hint='const'))]
        return [(st, lift(v))]

    def ev_Name(self, e, st):
        if e.id in st.env:
            return [(st, st.env[e.id])]
        v = self.global_name(e.id, st)
        if v is None:
            raise Refuse(f"unknown name {e.id!r} at line {e.lineno} in {self.cur_key}")
        return [(st, v)]

    def ev_JoinedStr(self, e, st):
        parts = []
        for p in e.values:
            if isinstance(p, ast.Constant):
                parts.append(p.value)
            else:
                parts.append(p.value)
        # evaluate the formatted values (they may raise), result: uninterpreted string
        exprs = [p for p in parts if isinstance(p, ast.AST)]
        plain = all(isinstance(p, ast.Constant) or (p.conversion == -1 and p.format_spec is None) for p in e.values)

        def fin(st, vals):
            ok = plain and all(isinstance(v, (VStr, VOpaque, VU)) for v in vals)
            if ok:
                # {v} with no conversion / format spec is str(v): the string itself, or the uninterpreted str:obj(v)
                it = iter(vals)
                t = None
                for p in parts:
                    if isinstance(p, str):
                        piece = z3.StringVal(p)
                    else:
                        v = next(it)
                        piece = v.t if isinstance(v, VStr) else z3.Function('str:obj', Obj, z3.StringSort())(self.as_obj(v))
                    t = piece if t is None else z3.Concat(t, piece)
                return [(st, VStr(t if t is not None else z3.StringVal("")))]
            return [(st, VStr(z3.Const(fresh_name('fstr'), z3.StringSort())))]
        return self.bind(self.ev_many(exprs, st), fin)

    def ev_Tuple(self, e, st):
        return self.bind(self.ev_many(e.elts, st), lambda s, vs: [(s, VTuple(vs))])

    def ev_List(self, e, st):
        if any(isinstance(x, ast.Starred) for x in e.elts):
            def fin(s, vs):
                items = []
                for x, v in zip(e.elts, vs):
                    if isinstance(x, ast.Starred):
                        if not isinstance(v, (VList, VTuple)):
                            return [(s, VOpaque(hint='list'))]
                        items.extend(v.items)
                    else:
                        items.append(v)
                return [(s, VList(items))]
            return self.bind(self.ev_many([x.value if isinstance(x, ast.Starred) else x for x in e.elts], st), fin)
        return self.bind(self.ev_many(e.elts, st), lambda s, vs: [(s, VList(vs))])

    def ev_Dict(self, e, st):
        if not e.keys:
            mk = self.hooks.get('new_dict')
            return [(st, mk(self, st) if mk else VOpaque(hint='dict'))]
        return self.bind(self.ev_many([k for k in e.keys if k is not None] + e.values, st),
                         lambda s, vs: [(s, VOpaque(hint='dict'))])

    def ev_Set(self, e, st):
        return self.bind(self.ev_many(e.elts, st), lambda s, vs: [(s, VList(vs))])   # literal sets are only tested for membership

    def ev_UnaryOp(self, e, st):
        def f(s, v):
            hu = self.hooks.get('unaryop')
            if hu:
                r = hu(self, e.op, v, s, e)
                if r is not None:
                    return r
            if isinstance(e.op, ast.Not):
                return [(s, VBool(z3.Not(self.truth(v))))]
            if isinstance(e.op, ast.USub):
                if isinstance(v, (VInt, VReal)):
                    return [(s, -v)]
                if isinstance(v, VOpaque):
                    return [(s, VOpaque(hint='neg'))] + self.maybe_raise(s, 'neg', e)
            if isinstance(e.op, ast.UAdd) and isinstance(v, (VInt, VReal)):
                return [(s, v)]
            if isinstance(e.op, ast.Invert) and isinstance(v, VOpaque):
                return [(s, VOpaque(hint='inv'))] + self.maybe_raise(s, 'inv', e)
            raise Refuse(f"unary {type(e.op).__name__} on {v!r}")
        return self.bind(self.ev(e.operand, st), f)

    def ev_BoolOp(self, e, st):
        is_and = isinstance(e.op, ast.And)

        def go(st, vals_left, k):
            # evaluate e.values[k:] given nothing decided yet
            outs = []
            for s1, v in self.ev(e.values[k], st):
                if isinstance(v, Raised):
                    outs.append((s1, v))
                    continue
                if k == len(e.values) - 1:
                    outs.append((s1, v))
                    continue
                tv = self.truth(v)
                for s2, side in self.branch(s1, tv, f"boolop@{e.lineno}"):
                    if side == is_and:       # and: left true -> continue ; or: left false -> continue
                        outs.extend(go(s2, vals_left + [v], k + 1))
                    else:
                        outs.append((s2, v))
            return outs
        outs = go(st, [], 0)
        return self.merge_bool(st, outs)

    def merge_bool(self, st0, outs):
        """Merge outcomes that differ only by path condition and carry boolean values into one
        outcome with a disjunctive value, to keep the number of paths small.  Sound: the merged
        value is true exactly on the union of the paths where the individual value is true."""
        if len(outs) <= 1:
            return outs
        n0 = len(st0.pc)
        mergeable = []
        rest = []
        for s, v in outs:
            if (not isinstance(v, Raised) and isinstance(v, VBool) and same_store(s, st0)
                    and len(s.pc) >= n0 and all(a is b or a.eq(b) for a, b in zip(s.pc[:n0], st0.pc))):
                mergeable.append((s, v))
            else:
                rest.append((s, v))
        if len(mergeable) < 2:
            return outs
        # value = OR over paths (pathcond_i and value_i); the paths partition the cases that do not raise
        disj = []
        cover = []
        for s, v in mergeable:
            extra = s.pc[n0:]
            pcx = z3.And(*extra) if extra else z3.BoolVal(True)
            disj.append(z3.And(pcx, v.t))
            cover.append(pcx)
        ns = st0.fork()
        if rest:
            ns.pc.append(z3.Or(*cover))
        return [(ns, VBool(z3.simplify(z3.Or(*disj))))] + rest

    def ev_IfExp(self, e, st):
        outs = []
        for s1, c in self.ev(e.test, st):
            if isinstance(c, Raised):
                outs.append((s1, c))
                continue
            for s2, side in self.branch(s1, self.truth(c), f"ifexp@{e.lineno}"):
                outs.extend(self.ev(e.body if side else e.orelse, s2))
        return outs

    def ev_NamedExpr(self, e, st):
        def f(s, v):
            s.env[e.target.id] = v
            return [(s, v)]
        return self.bind(self.ev(e.value, st), f)

    def ev_Await(self, e, st):
        outs = self.ev(e.value, st)
        hook = self.hooks.get('await')
        if hook:
            res = []
            for s, v in outs:
                res.extend(hook(self, s, v, e))
            return res
        return outs

    def ev_Lambda(self, e, st):
        return self.make_closure(e, st, name=f"<lambda@{e.lineno}>")

    def make_closure(self, node, st, name):
        # default arguments are evaluated at definition time
        defaults = node.args.defaults
        kwdefaults = [d for d in node.args.kw_defaults if d is not None]
        def fin(s, vals):
            f = VFunc(name, node=node, closure=None, defaults=vals)
            f.closure = s.env     # captured by reference at definition: we snapshot lazily at call time
            f.def_key = self.cur_key
            return [(s, f)]
        return self.bind(self.ev_many(list(defaults) + kwdefaults, st), fin)

    # ---- arithmetic
    def ev_BinOp(self, e, st):
        def f(s, vs):
            return self.binop(e.op, vs[0], vs[1], s, e)
        return self.bind(self.ev_many([e.left, e.right], st), f)

    def binop(self, op, a, b, st, node):
        a, b = lift(a), lift(b)
        num = (VInt, VReal, VBool)
        if isinstance(a, num) and isinstance(b, num):
            if isinstance(op, ast.Add): return [(st, a + b)]
            if isinstance(op, ast.Sub): return [(st, a - b)]
            if isinstance(op, ast.Mult): return [(st, a * b)]
            if isinstance(op, (ast.FloorDiv, ast.Mod)) and not isinstance(a, VReal) and not isinstance(b, VReal):
                outs = []
                for s2, nz in self.branch(st, lift(b).t != 0 if not isinstance(b, VBool) else b.t, 'divzero'):
                    if nz and isinstance(a, VInt) and isinstance(b, VInt) and not z3.is_int_value(z3.simplify(b.t)):
                        # symbolic divisor: quotient and remainder by their defining property (exactly Python's floor
                        # division for either sign of the divisor) - gives the solver q*b as a term instead of an opaque div
                        q = z3.Const(fresh_name('quot'), z3.IntSort())
                        r = z3.Const(fresh_name('rem'), z3.IntSort())
                        s2.pc += [a.t == q * b.t + r, z3.Implies(b.t > 0, z3.And(r >= 0, r < b.t)), z3.Implies(b.t < 0, z3.And(r <= 0, r > b.t))]
                        outs.append((s2, VInt(q) if isinstance(op, ast.FloorDiv) else VInt(r)))
                    elif nz:
                        outs.append((s2, a // b if isinstance(op, ast.FloorDiv) else a % b))
                    else:
                        outs.append(self.exc(s2, 'ZeroDivisionError', node))
                return outs
            if isinstance(op, (ast.Mod, ast.FloorDiv)):
                # real modulo / floor division with ghost quotient: a = q*b + m, 0 <= m < b for b > 0 (floats as reals)
                ar = a.t if a.t.sort() == z3.RealSort() else z3.ToReal(a.t)
                br = b.t if b.t.sort() == z3.RealSort() else z3.ToReal(b.t)
                outs = []
                for s2, pos in self.branch(st, br > 0, 'realmod'):
                    if not pos:
                        for s3, zero in self.branch(s2, br == 0, 'realmod0'):
                            if zero:
                                outs.append(self.exc(s3, 'ZeroDivisionError', node))
                            else:
                                raise Refuse("real modulo by a negative divisor")
                        continue
                    m = z3.Const(fresh_name('mod'), z3.RealSort())
                    q = z3.Const(fresh_name('quot'), z3.IntSort())
                    s2.pc += [ar == z3.ToReal(q) * br + m, m >= 0, m < br]
                    s2.ghost['__lastmod'] = VTuple([VInt(q), VReal(m)])
                    outs.append((s2, VReal(m) if isinstance(op, ast.Mod) else VReal(z3.ToReal(q))))
                return outs
            if isinstance(op, ast.Div):
                ar = a.t if a.t.sort() == z3.RealSort() else z3.ToReal(a.t if not isinstance(a, VBool) else z3.If(a.t, 1, 0))
                br = b.t if b.t.sort() == z3.RealSort() else z3.ToReal(b.t if not isinstance(b, VBool) else z3.If(b.t, 1, 0))
                outs = []
                for s2, nz in self.branch(st, br != 0, 'divzero'):
                    outs.append((s2, VReal(ar / br)) if nz else self.exc(s2, 'ZeroDivisionError', node))
                return outs
            if isinstance(op, ast.Pow) and isinstance(a, VInt) and isinstance(b, VInt) and z3.is_int_value(a.t) and z3.is_int_value(b.t) \
                    and 0 <= b.t.as_long() <= 64:
                return [(st, lift(a.t.as_long() ** b.t.as_long()))]
            if isinstance(op, ast.Pow) and z3.is_int_value(b.t) and 0 <= b.t.as_long() <= 4 and isinstance(a, (VInt, VReal)):
                r = lift(1)
                for _ in range(b.t.as_long()):
                    r = r * a
                return [(st, r)]
        if isinstance(a, VStr) and isinstance(b, VStr) and isinstance(op, ast.Add):
            return [(st, VStr(z3.Concat(a.t, b.t)))]
        if isinstance(a, (VList, VTuple)) and type(a) is type(b) and isinstance(op, ast.Add):
            return [(st, type(a)(a.items + b.items))]
        if isinstance(a, VSeq) and isinstance(b, VSeq) and isinstance(op, ast.Add):
            return [(st, a + b)]
        h = self.hooks.get('binop')
        if h:
            r = h(self, op, a, b, st, node)
            if r is not None:
                return r
        if isinstance(a, VOpaque) or isinstance(b, VOpaque) or isinstance(a, VObj) or isinstance(b, VObj):
            return [(st, VOpaque(hint='binop'))] + self.maybe_raise(st, 'binop', node)
        if isinstance(op, ast.Mod) and isinstance(a, VStr):
            return [(st, VStr(z3.Const(fresh_name('fmt'), z3.StringSort())))] + self.maybe_raise(st, 'fmt', node)
        raise Refuse(f"binop {type(op).__name__} on {a!r}, {b!r} at line {node.lineno}")

    # ---- comparisons
    def ev_Compare(self, e, st):
        if len(e.ops) == 1:
            return self.bind(self.ev_many([e.left, e.comparators[0]], st),
                             lambda s, vs: self.compare(e.ops[0], vs[0], vs[1], s, e))
        # chain a < b < c: evaluate left to right with short circuit
        def f(s, vs):
            acc = None
            outs = [(s, VBool(True))]
            res = self.compare(e.ops[0], vs[0], vs[1], s, e)
            for k in range(1, len(e.ops)):
                nxt = []
                for s1, r in res:
                    if isinstance(r, Raised):
                        nxt.append((s1, r))
                        continue
                    for s2, r2 in self.compare(e.ops[k], vs[k], vs[k + 1], s1, e):
                        if isinstance(r2, Raised):
                            nxt.append((s2, r2))
                        else:
                            nxt.append((s2, VBool(z3.And(self.truth(r), self.truth(r2)))))
                res = nxt
            return res
        return self.bind(self.ev_many([e.left] + e.comparators, st), f)

    def compare(self, op, a, b, st, node):
        a, b = lift(a), lift(b)
        num = (VInt, VReal, VBool)
        if isinstance(op, (ast.Is, ast.IsNot)):
            # type(v) is C: an exact-type test.  Decided for values whose Python type the engine knows, an unconstrained predicate of v
            # (implying isinstance) for opaque values - both outcomes stay feasible
            ty, cls = None, None
            for x, y in ((a, b), (b, a)):
                if isinstance(x, VTuple) and len(x.items) == 2 and isinstance(x.items[0], str) and x.items[0] == 'typeof' and isinstance(y, VFunc) \
                        and isinstance(y.key, tuple) and y.key[0] in ('builtin', 'class'):
                    ty, cls = x.items[1], y.key[1]
            if ty is not None:
                known = {VInt: 'int', VReal: 'float', VBool: 'bool', VStr: 'str', VList: 'list', VTuple: 'tuple', VNoneT: 'NoneType'}.get(type(ty))
                if known is not None:
                    r = VBool(known == cls)
                elif isinstance(ty, VOpaque):
                    r = ty.pred('typeis:' + cls)
                    st.assume(z3.Implies(r.t, ty.pred('isinst:' + cls).t))
                elif isinstance(ty, VObj):
                    r = VBool(ty.cls == cls)
                else:
                    r = VBool(z3.Const(fresh_name('typeis'), z3.BoolSort()))
                return [(st, ~r if isinstance(op, ast.IsNot) else r)]
            r = same(a, b)
            return [(st, ~r if isinstance(op, ast.IsNot) else r)]
        if isinstance(op, (ast.In, ast.NotIn)):
            return self.contains(op, a, b, st, node)
        if isinstance(op, (ast.Eq, ast.NotEq)):
            h = self.hooks.get('eq')
            r = h(self, a, b, st) if h else None
            if r is None:
                if isinstance(a, (VTuple, VList)) and isinstance(b, (VTuple, VList)) and type(a) is type(b):
                    if len(a.items) != len(b.items):
                        r = VBool(False)
                    else:
                        parts = []
                        for x, y in zip(a.items, b.items):
                            (s_, rr), = self.compare(ast.Eq(), x, y, st, node)[:1]
                            parts.append(self.truth(rr))
                        r = VBool(z3.And(*parts) if parts else z3.BoolVal(True))
                elif isinstance(a, VOpaque) or isinstance(b, VOpaque):
                    r = (a == b) if isinstance(a, VOpaque) else (b == a)
                    # __eq__ of an arbitrary object may raise
                    neg = VBool(z3.Not(r.t)) if isinstance(op, ast.NotEq) else r
                    return [(st, neg)] + self.maybe_raise(st, 'eq', node)
                else:
                    r = a == b
                    if not isinstance(r, VBool):
                        r = VBool(bool(r))
            return [(st, ~r if isinstance(op, ast.NotEq) else r)]
        if isinstance(a, num) and isinstance(b, num):
            f = {ast.Lt: lambda: a < b, ast.LtE: lambda: a <= b, ast.Gt: lambda: a > b, ast.GtE: lambda: a >= b}[type(op)]
            return [(st, f())]
        if isinstance(a, VStr) and isinstance(b, VStr):
            f = {ast.Lt: lambda: a.t < b.t, ast.LtE: lambda: a.t <= b.t, ast.Gt: lambda: b.t < a.t, ast.GtE: lambda: b.t <= a.t}[type(op)]
            return [(st, VBool(f()))]
        if isinstance(a, VOpaque) or isinstance(b, VOpaque):
            return [(st, VBool(z3.Const(fresh_name('cmp'), z3.BoolSort())))] + self.maybe_raise(st, 'cmp', node)
        raise Refuse(f"compare {type(op).__name__} on {a!r}, {b!r} at line {node.lineno}")

    def contains(self, op, a, b, st, node):
        neg = isinstance(op, ast.NotIn)
        def out(r):
            return VBool(z3.Not(r)) if neg else VBool(r)
        if isinstance(b, (VList, VTuple)):
            parts = []
            for y in b.items:
                res = self.compare(ast.Eq(), a, y, st, node)
                parts.append(self.truth(res[0][1]))
            r = z3.Or(*parts) if parts else z3.BoolVal(False)
            return [(st, out(r))]
        if isinstance(b, VStr) and isinstance(a, VStr):
            return [(st, out(z3.Contains(b.t, a.t)))]
        h = self.hooks.get('contains')
        if h:
            r = h(self, a, b, st, node)
            if r is not None:
                return [(st, out(r))]
        if isinstance(b, (VOpaque, VObj)):
            r = z3.Function('p:in', Obj, Obj, z3.BoolSort())(self.as_obj(a), b.t)
            return [(st, out(r))] + self.maybe_raise(st, 'in', node)
        raise Refuse(f"`in` on {a!r}, {b!r} at line {node.lineno}")

    def as_obj(self, v):
        """inject any value into the Obj sort (for uninterpreted predicates over mixed values)"""
        v = lift(v)
        if isinstance(v, (VOpaque, VObj)):
            return v.t
        if isinstance(v, VNoneT):
            return z3.Const('None@obj', Obj)
        if isinstance(v, VU):
            return z3.Function('inj:' + v.t.sort().name(), v.t.sort(), Obj)(v.t)
        if isinstance(v, VSeq):
            return z3.Function('inj:seq', v.t.sort(), Obj)(v.t)
        if isinstance(v, (VInt, VBool)):
            t = v.t if isinstance(v, VInt) else z3.If(v.t, 1, 0)
            return z3.Function('inj:int', z3.IntSort(), Obj)(t)
        if isinstance(v, VStr):
            return z3.Function('inj:str', z3.StringSort(), Obj)(v.t)
        if isinstance(v, VReal):
            return z3.Function('inj:real', z3.RealSort(), Obj)(v.t)
        if isinstance(v, (VTuple, VList)):
            return z3.Const(fresh_name('tuple'), Obj)
        if isinstance(v, VFunc):
            if not hasattr(v, 't'):
                v.t = z3.Const(fresh_name('func'), Obj)
            return v.t
        raise Refuse(f"as_obj {v!r}")

    # ---- attribute / subscript
    def ev_Attribute(self, e, st):
        d = dotted(e)
        if d is not None and d.split('.')[0] not in st.env:
            v = self.global_attr(d, st)
            if v is not None:
                return [(st, v)]
        return self.bind(self.ev(e.value, st), lambda s, v: self.getattr(v, e.attr, s, e))

    def getattr(self, v, attr, st, node):
        if isinstance(v, VObj):
            flds = st.heap.get(v.oid, {})
            h = self.hooks.get('getattr:' + v.cls)
            if h:
                # the hook sees every attribute read (typestate / lock-discipline obligations); None = not handled
                r = h(self, v, attr, st, node)
                if r is not None:
                    return r
            if attr in flds:
                return [(st, flds[attr])]
            key, m = self.src.method(v.cls, attr)
            if m is not None:
                if any(isinstance(d, ast.Name) and d.id == 'property' for d in m.decorator_list):
                    return self.call_key(key, m, [v], {}, st, node)
                return [(st, VFunc(f"{v.cls}.{attr}", key=key, node=m, self_obj=v))]
            c = self.src.class_const(v.cls, attr)
            if c is not None:
                return [(st, self.class_const_value(v.cls, attr))]
            # a field some method of the class assigns (e.g. one added by a change) but the contract's object layout does not
            # name: an arbitrary value, fixed from the first read on (nothing is assumed about it)
            _, cnode = self.src.classes.get(v.cls, (None, None))
            if cnode is not None and any(isinstance(t, ast.Attribute) and t.attr == attr and isinstance(t.value, ast.Name) and t.value.id == 'self'
                                         and isinstance(t.ctx, ast.Store) for t in ast.walk(cnode)):
                if v.oid in st.heap:
                    st.heap[v.oid][attr] = VOpaque(hint=f"field:{attr}")
                    return [(st, st.heap[v.oid][attr])]
            raise Refuse(f"attribute {attr!r} of {v!r} not modelled (line {getattr(node, 'lineno', '?')}, {self.cur_key})")
        if isinstance(v, VOpaque):
            typed = getattr(self, 'class_typed_attrs', None)
            if typed and attr in typed and not self.method_position.get(id(node)):
                # opt-in: an attribute that only certain classes of the repository define exists on v iff v is an instance of one of
                # them (the isinstance facts of the path decide); otherwise the read raises AttributeError
                owners = [c for c, (_, cn) in self.src.classes.items()
                          if any(isinstance(t, ast.Attribute) and t.attr == attr and isinstance(t.value, ast.Name) and t.value.id == 'self'
                                 and isinstance(t.ctx, ast.Store) for t in ast.walk(cn))]
                if owners:
                    cond = z3.Or(*[v.pred('isinst:' + c).t for c in owners])
                    outs = []
                    for s2, has in self.branch(st, cond, f"hasattr-{attr}@{getattr(node, 'lineno', '?')}"):
                        if has:
                            outs.append((s2, VOpaque(z3.Function('attr:' + attr, Obj, Obj)(v.t))))
                        else:
                            outs.append(self.exc(s2, 'AttributeError', node))
                    return outs
            if attr in self.stable_opaque_attrs and not self.method_position.get(id(node)):
                # attribute of an object that the function under contract never writes: a function of the object
                return [(st, VOpaque(z3.Function('attr:' + attr, Obj, Obj)(v.t)))]
            if self.method_position.get(id(node)) and attr in self.opaque_methods:
                return [(st, VFunc(attr, key=('opaque_method',), self_obj=v))]
            return [(st, VOpaque(hint=attr))] + self.maybe_raise(st, 'getattr', node)
        if isinstance(v, VExc):
            return [(st, VOpaque(hint=attr))]
        if isinstance(v, (VStr, VList, VTuple, VSeq, VInt, VReal, VFunc)):
            return [(st, VFunc(f"<method {attr}>", self_obj=v, model=None, key=('builtin_method', attr)))]
        if isinstance(v, V) and 'method' in self.hooks:
            # contract-defined ghost collections: their methods are interpreted by the 'method' hook
            return [(st, VFunc(f"<method {attr}>", self_obj=v, model=None, key=('builtin_method', attr)))]
        raise Refuse(f"attribute {attr} of {v!r}")

    def class_const_value(self, cls, attr):
        k = (cls, attr)
        if k not in self._class_consts:
            self._class_consts[k] = VOpaque(hint=f"{cls}.{attr}")
        return self._class_consts[k]

    def ev_Subscript(self, e, st):
        if isinstance(e.slice, ast.Slice):
            parts = [e.value] + [x for x in (e.slice.lower, e.slice.upper, e.slice.step) if x is not None]
            def f(s, vs):
                it = iter(vs[1:])
                lo = next(it) if e.slice.lower is not None else None
                hi = next(it) if e.slice.upper is not None else None
                step = next(it) if e.slice.step is not None else None
                return self.slice(vs[0], lo, hi, step, s, e)
            return self.bind(self.ev_many(parts, st), f)
        return self.bind(self.ev_many([e.value, e.slice], st), lambda s, vs: self.index(vs[0], vs[1], s, e))

    def _clamp(self, idx, L, st=None):
        """Python's slice-bound normalisation.  When the path condition already decides which case applies the
        conditional is resolved here (an equivalent, smaller term: only implied cases are dropped)."""
        full = z3.If(idx < 0, z3.If(idx + L < 0, 0, idx + L), z3.If(idx > L, L, idx))
        if st is None or z3.is_int_value(z3.simplify(idx)):
            return full
        if self.known(st, idx >= 0, True):
            if self.known(st, idx <= L, True):
                return idx
            if self.known(st, idx > L, True):
                return L
            return z3.If(idx > L, L, idx)
        if self.known(st, idx < 0, True):
            if self.known(st, idx + L >= 0, True):
                return idx + L
            if self.known(st, idx + L < 0, True):
                return z3.IntVal(0)
            return z3.If(idx + L < 0, 0, idx + L)
        return full

    def slice(self, v, lo, hi, step, st, node):
        if step is not None:
            hs = self.hooks.get('slice_step')
            if hs:
                r = hs(self, v, lo, hi, step, st, node)
                if r is not None:
                    return r
            if isinstance(v, VOpaque):
                return [(st, VOpaque(hint='slice'))] + self.maybe_raise(st, 'slice', node)
            raise Refuse("slice with step")
        if isinstance(v, (VStr, VSeq)):
            for x in (lo, hi):
                if x is not None and not isinstance(x, (VInt, VNoneT)):
                    raise Refuse(f"slice bound {x!r}")
            L = z3.Length(v.t)
            if getattr(self, 'split_slice_sign', False):
                # opt-in: an undetermined sign of a bound becomes two paths instead of a conditional term
                for x in (lo, hi):
                    if isinstance(x, VInt) and not z3.is_int_value(z3.simplify(x.t)) \
                            and not self.known(st, x.t >= 0, True) and not self.known(st, x.t < 0, True):
                        outs = []
                        for s2, _ in self.branch(st, x.t >= 0, f"slice-sign@{node.lineno}"):
                            outs += self.slice(v, lo, hi, step, s2, node)
                        return outs
            a = z3.IntVal(0) if lo is None or isinstance(lo, VNoneT) else self._clamp(lo.t, L, st)
            b = L if hi is None or isinstance(hi, VNoneT) else self._clamp(hi.t, L, st)
            n = z3.If(b - a < 0, 0, b - a)
            if not z3.is_int_value(z3.simplify(b - a)) and self.known(st, b - a >= 0, True):
                n = b - a
            def simp(t):
                # z3's simplifier rewrites seq.nth into internal seq.nth_i / seq.nth_u, which cvc5 cannot read: keep the original then
                u = z3.simplify(t)
                return t if 'seq.nth_' in u.sexpr() else u
            r = z3.SubString(v.t, simp(a), simp(n))
            return [(st, VStr(r) if isinstance(v, VStr) else VSeq(r))]
        if isinstance(v, (VList, VTuple)):
            def c(x):
                if x is None or isinstance(x, VNoneT):
                    return None
                if isinstance(x, VInt) and z3.is_int_value(z3.simplify(x.t)):
                    return z3.simplify(x.t).as_long()
                raise Refuse("symbolic slice of a concrete list")
            return [(st, type(v)(v.items[c(lo):c(hi)]))]
        h = self.hooks.get('slice')
        if h:
            r = h(self, v, lo, hi, st, node)
            if r is not None:
                return r
        if isinstance(v, (VOpaque, VObj)):
            return [(st, VOpaque(hint='slice'))] + self.maybe_raise(st, 'slice', node)
        raise Refuse(f"slice of {v!r}")

    def index(self, v, i, st, node):
        if isinstance(v, (VStr, VSeq)) and isinstance(i, (VInt, VBool)):
            it = i.t if isinstance(i, VInt) else z3.If(i.t, 1, 0)
            L = z3.Length(v.t)
            outs = []
            for s2, ok in self.branch(st, z3.And(it >= -L, it < L), f"index@{node.lineno}"):
                if ok:
                    j = z3.simplify(z3.If(it < 0, it + L, it))
                    if self.known(s2, it >= 0):
                        j = it
                    outs.append((s2, VStr(z3.SubString(v.t, j, 1)) if isinstance(v, VStr) else lift(v.t[j])))
                else:
                    outs.append(self.exc(s2, 'IndexError', node))
            return outs
        if isinstance(v, (VList, VTuple)):
            if isinstance(i, VInt) and z3.is_int_value(z3.simplify(i.t)):
                k = z3.simplify(i.t).as_long()
                if -len(v.items) <= k < len(v.items):
                    return [(st, v.items[k])]
                return [self.exc(st, 'IndexError', node)]
            raise Refuse(f"symbolic index into a concrete list/tuple at line {node.lineno}")
        h = self.hooks.get('index')
        if h:
            r = h(self, v, i, st, node)
            if r is not None:
                return r
        if isinstance(v, VObj):
            key, m = self.src.method(v.cls, '__getitem__')
            if m is not None and key in self.reg.fns:
                return self.call_key(key, m, [v, i], {}, st, node)
        if isinstance(v, (VOpaque, VObj)):
            return [(st, VOpaque(hint='item'))] + self.maybe_raise(st, 'index', node)
        raise Refuse(f"index of {v!r} by {i!r} at line {node.lineno}")

    def known(self, st, cond, ground_only=False):
        """True iff cond is implied by the path condition (cheap check)"""
        self.stats['feasibility_queries'] += 1
        ground = [p for p in st.pc if not _quantified(p)]
        if len(ground) != len(st.pc):
            # fewer hypotheses first: implied by the quantifier-free part => implied by all of it
            s = z3.Solver()
            s.set('timeout', self.feas_timeout_ms)
            s.add(*ground)
            s.add(z3.Not(cond))
            if s.check() == z3.unsat:
                return True
            if ground_only:
                return False
        s = z3.Solver()
        s.set('timeout', self.feas_timeout_ms)
        s.add(*self.axioms_z3)
        s.add(*st.pc)
        s.add(z3.Not(cond))
        return s.check() == z3.unsat

    # ---- comprehensions
    def ev_ListComp(self, e, st):
        return self.comprehension(e, st, 'list')

    def ev_GeneratorExp(self, e, st):
        return self.comprehension(e, st, 'gen')

    def ev_SetComp(self, e, st):
        return self.comprehension(e, st, 'set')

    def ev_DictComp(self, e, st):
        return self.comprehension(e, st, 'dict')

    def comprehension(self, e, st, kind):
        if len(e.generators) != 1 or e.generators[0].is_async:
            raise Refuse("nested/async comprehension")
        g = e.generators[0]

        def run(s, it):
            if isinstance(it, (VList, VTuple)) and not (it.items and isinstance(it.items[0], str)):
                outs = [(s, [])]
                saved = dict(s.env)
                for item in it.items:
                    nxt = []
                    for s1, acc in outs:
                        if isinstance(acc, Raised):
                            nxt.append((s1, acc))
                            continue
                        self.assign_target(g.target, item, s1)
                        conds = [(s1, True)]
                        for c in g.ifs:
                            nc = []
                            for s2, keep in conds:
                                if keep is not True:
                                    nc.append((s2, keep))
                                    continue
                                for s3, cv in self.ev(c, s2):
                                    if isinstance(cv, Raised):
                                        nc.append((s3, cv))
                                    else:
                                        for s4, side in self.branch(s3, self.truth(cv), 'compif'):
                                            nc.append((s4, True if side else False))
                            conds = nc
                        for s2, keep in conds:
                            if isinstance(keep, Raised):
                                nxt.append((s2, keep))
                            elif keep is False:
                                nxt.append((s2, acc))
                            else:
                                elt = e.elt if kind != 'dict' else ast.Tuple(elts=[e.key, e.value], ctx=ast.Load())
                                for s3, v in self.ev(elt, s2):
                                    nxt.append((s3, v if isinstance(v, Raised) else acc + [v]))
                    outs = nxt
                res = []
                for s1, acc in outs:
                    # comprehension variables do not leak
                    for k in list(s1.env):
                        if k not in saved:
                            del s1.env[k]
                        elif s1.env[k] is not saved[k]:
                            s1.env[k] = saved[k]
                    if isinstance(acc, Raised):
                        res.append((s1, acc))
                    elif kind == 'dict':
                        mk = self.hooks.get('dict_from_pairs')
                        res.append((s1, mk(self, s1, acc) if mk else VOpaque(hint='dict')))
                    else:
                        res.append((s1, VList(acc)))
                return res
            h = self.hooks.get('comprehension')
            if h:
                r = h(self, e, kind, it, s)
                if r is not None:
                    return r
            generic = isinstance(it, (VOpaque, VSeq)) or (isinstance(it, VTuple) and it.items and isinstance(it.items[0], str)
                                                  and it.items[0] in ('zip', 'enumerate', 'range'))
            if generic and self.opaque_comprehensions:
                # element-wise computation over an unknown collection: evaluate the body once on a
                # generic element to discover effects/exceptions; the result is opaque
                s1 = s.fork()
                if isinstance(it, VTuple) and it.items[0] == 'zip':
                    elem0 = VTuple([VOpaque(hint='elem') for _ in it.items[1:]])
                elif isinstance(it, VTuple) and it.items[0] == 'enumerate':
                    elem0 = VTuple([fresh(Int, 'i'), VOpaque(hint='elem')])
                elif isinstance(it, VTuple):
                    elem0 = fresh(Int, 'i')
                else:
                    elem0 = VOpaque(hint='elem')
                self.assign_target(g.target, elem0, s1)
                if 'fcalls' in s1.ghost:        # contracts that log the calls of the body want to name the generic element
                    s1.ghost['generic_elem'] = elem0 if isinstance(elem0, V) else NONE
                outs = []
                effect_states = []
                for c in g.ifs:
                    for s2, cv in self.ev(c, s1):
                        if isinstance(cv, Raised):
                            outs.append((s2, cv))
                elt = e.elt if kind != 'dict' else ast.Tuple(elts=[e.key, e.value], ctx=ast.Load())
                for s2, v in self.ev(elt, s1):
                    if isinstance(v, Raised):
                        outs.append((s2, v))
                    elif not same_store(s2, s, env=False):
                        if not getattr(self.cur, 'idempotent_effects', False):
                            raise Refuse(f"comprehension over opaque collection with effects (line {e.lineno})")
                        # the contract declares that the effect summary of the calls in the body is reflexive and
                        # transitive (one application summarises any number of iterations): keep the post-state
                        s2.env = dict(s.env)
                        effect_states.append((s2, VOpaque(hint='comp', nonnull=True)))
                return [(s, VOpaque(hint='comp', nonnull=True))] + effect_states + outs
            raise Refuse(f"comprehension over {it!r} at line {e.lineno}")
        return self.bind(self.ev(g.iter, st), run)

    def ev_Yield(self, e, st):
        """generator functions: the yielded values go to a ghost output handled by the contract's 'yield' hook"""
        h = self.hooks.get('yield')
        if h is None:
            raise Refuse(f"yield at line {e.lineno} (no ghost output declared)")
        return self.bind(self.ev(e.value, st) if e.value is not None else [(st, NONE)], lambda s, v: h(self, v, s, e))

    def ev_Slice(self, e, st):
        # a slice object inside a tuple subscript (a[:, j]): an opaque key built from its bounds
        parts = [x for x in (e.lower, e.upper, e.step) if x is not None]
        return self.bind(self.ev_many(parts, st), lambda s, vs: [(s, VOpaque(hint='slice', nonnull=True))])

    def ev_Starred(self, e, st):
        raise Refuse("starred expression")

    def ev_Call(self, e, st):
        if isinstance(e.func, ast.Attribute):
            self.method_position[id(e.func)] = True
        return self.call_expr(e, st)
