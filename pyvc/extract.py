"""Mechanical extraction of the functions under contract from /repo's current working tree.

Nothing is rewritten.  What is dropped: docstrings, type annotations, decorators (staticmethod /
property are re-interpreted), and calls declared effect-free no-ops in the contracts (logging, print,
tinfo).  The sha256 of ast.dump of each function goes into the evidence."""
import ast
import builtins
import hashlib
import os

REPO = os.environ.get('PYVC_REPO', '/repo')


class Source:
    def __init__(self, repo=None):
        self.repo = repo or REPO
        self.trees = {}
        self.classes = {}     # class name -> (relpath, ClassDef)
        self.module_funcs = {}   # relpath -> {name: FunctionDef}
        self._index_all()

    def tree(self, rel):
        if rel not in self.trees:
            with open(os.path.join(self.repo, rel)) as f:
                self.trees[rel] = ast.parse(f.read(), filename=rel)
        return self.trees[rel]

    def _index_all(self):
        base = os.path.join(self.repo, 'klongpy')
        for root, _, files in os.walk(base):
            for fn in sorted(files):
                if fn.endswith('.py'):
                    rel = os.path.relpath(os.path.join(root, fn), self.repo)
                    try:
                        t = self.tree(rel)
                    except SyntaxError:
                        continue
                    self.module_funcs[rel] = {n.name: n for n in t.body
                                              if isinstance(n, (ast.FunctionDef, ast.AsyncFunctionDef))}
                    for n in ast.walk(t):
                        if isinstance(n, ast.ClassDef):
                            self.classes.setdefault(n.name, (rel, n))

    def find(self, key):
        """key = 'klongpy/parser.py::read_string' or '...::Class.method' or '...::outer.inner' (closure)"""
        rel, qual = key.split('::')
        node = self.tree(rel)
        for part in qual.split('.'):
            found = None
            body = node.body
            # search nested bodies (closures may be defined inside if/for/with blocks)
            stack = list(body)
            while stack:
                n = stack.pop(0)
                if isinstance(n, (ast.FunctionDef, ast.AsyncFunctionDef, ast.ClassDef)):
                    if n.name == part:
                        found = n
                        break
                    continue
                for fld in ('body', 'orelse', 'finalbody', 'handlers'):
                    for c in getattr(n, fld, []) or []:
                        if isinstance(c, ast.ExceptHandler):
                            stack.extend(c.body)
                        elif isinstance(c, ast.AST):
                            stack.append(c)
            if found is None:
                return None
            node = found
        return node

    def sha(self, node):
        return hashlib.sha256(ast.dump(node, include_attributes=False).encode()).hexdigest()[:16]

    # ---- class lattice
    # library exception classes used by the code under contract that are neither builtins nor repo classes
    EXTRA_BASES = {'IncompleteReadError': ['EOFError'], 'struct.error': ['Exception'], 'error': ['Exception'],
                   'CancelledError': ['BaseException'], 'TimeoutError': ['OSError'], 'InvalidStateError': ['Exception'],
                   'ConnectionClosed': ['Exception'], 'ConnectionClosedOK': ['ConnectionClosed'], 'ConnectionClosedError': ['ConnectionClosed']}

    def bases(self, cls):
        if cls in self.EXTRA_BASES:
            return list(self.EXTRA_BASES[cls])
        if cls in self.classes:
            _, n = self.classes[cls]
            out = []
            for b in n.bases:
                if isinstance(b, ast.Name):
                    out.append(b.id)
                elif isinstance(b, ast.Attribute):
                    out.append(b.attr)
            return out
        b = getattr(builtins, cls, None)
        if isinstance(b, type):
            return [x.__name__ for x in b.__bases__]
        return []

    def ancestors(self, cls):
        seen, todo = [], [cls]
        while todo:
            c = todo.pop()
            if c in seen:
                continue
            seen.append(c)
            todo.extend(self.bases(c))
        if 'object' not in seen:
            seen.append('object')
        return seen

    def is_subclass(self, cls, sup):
        return sup in self.ancestors(cls)

    def known_class(self, name):
        return name in self.classes or name in self.EXTRA_BASES or isinstance(getattr(builtins, name, None), type)

    def method(self, cls, name):
        """(relpath, qualname, node) of the method resolved through the repo class lattice"""
        for c in self.ancestors(cls):
            if c in self.classes:
                rel, n = self.classes[c]
                for m in n.body:
                    if isinstance(m, (ast.FunctionDef, ast.AsyncFunctionDef)) and m.name == name:
                        return f"{rel}::{c}.{name}", m
        return None, None

    def class_const(self, cls, name):
        for c in self.ancestors(cls):
            if c in self.classes:
                _, n = self.classes[c]
                for m in n.body:
                    if isinstance(m, ast.Assign) and any(isinstance(t, ast.Name) and t.id == name for t in m.targets):
                        return m.value
        return None

    def functions_in(self, rel):
        out = []
        t = self.tree(rel)
        for n in t.body:
            if isinstance(n, (ast.FunctionDef, ast.AsyncFunctionDef)):
                out.append(n.name)
            elif isinstance(n, ast.ClassDef):
                for m in n.body:
                    if isinstance(m, (ast.FunctionDef, ast.AsyncFunctionDef)):
                        out.append(f"{n.name}.{m.name}")
        return out
