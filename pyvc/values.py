"""Symbolic value classes of the pyvc executor.

Every value the executor manipulates is one of the classes below.  They wrap
z3 terms and overload Python operators so that *contract expressions are
ordinary Python*: `s.i0 <= s.i`, `len_(s.t) - s.i`, `ret[0] == s.i0 + decN(s.t, s.i0)`.

Sorts:  VInt (mathematical integers - exact for Python ints), VReal (floats
treated as reals: stated assumption), VBool, VStr (z3 strings), VNone,
VTuple / VList (Python-side, fixed width), VSeq (symbolic-length z3 sequence),
VObj (heap reference, fields live in State.heap), VOpaque (uninterpreted
sort `Obj`; operations on it yield fresh opaque values, predicates on it are
uninterpreted functions so repeated tests are consistent), VFunc (callable).
"""
import itertools
import z3

Obj = z3.DeclareSort('Obj')
_counter = itertools.count()


def fresh_name(base):
    return f"{base}!{next(_counter)}"


class Refuse(Exception):
    """The construct is outside the supported subset: the run ends UNDECIDED/refused."""


class V:
    __hash__ = object.__hash__


def _z(x):
    """z3 term of an int/bool/str-like python or V value"""
    if isinstance(x, (VInt, VReal, VBool, VStr, VOpaque, VSeq)):
        return x.t
    if isinstance(x, bool):
        return z3.BoolVal(x)
    if isinstance(x, int):
        return z3.IntVal(x)
    if isinstance(x, float):
        return z3.RealVal(repr(x))
    if isinstance(x, str):
        return z3.StringVal(x)
    raise Refuse(f"cannot turn {x!r} into a term")


def lift(x):
    if isinstance(x, V):
        return x
    if x is None:
        return NONE
    if isinstance(x, bool):
        return VBool(z3.BoolVal(x))
    if isinstance(x, int):
        return VInt(z3.IntVal(x))
    if isinstance(x, float):
        return VReal(z3.RealVal(repr(x)))
    if isinstance(x, str):
        return VStr(z3.StringVal(x))
    if isinstance(x, tuple):
        return VTuple([lift(y) for y in x])
    if isinstance(x, list):
        return VList([lift(y) for y in x])
    if z3.is_expr(x):
        s = x.sort()
        if s == z3.IntSort():
            return VInt(x)
        if s == z3.RealSort():
            return VReal(x)
        if s == z3.BoolSort():
            return VBool(x)
        if s == z3.StringSort():
            return VStr(x)
        if s == Obj:
            return VOpaque(x)
        if z3.is_seq(x):
            return VSeq(x)
        if s.kind() == z3.Z3_UNINTERPRETED_SORT:
            return VU(x)
    raise Refuse(f"cannot lift {x!r}")


class _Num(V):
    def _mk(self, other, f):
        o = lift(other)
        if not isinstance(o, (VInt, VReal, VBool)):
            return NotImplemented
        a, b = self.t, o.t
        if isinstance(o, VBool):
            b = z3.If(b, 1, 0)
        real = isinstance(self, VReal) or isinstance(o, VReal)
        if real:
            a = z3.ToReal(a) if a.sort() == z3.IntSort() else a
            b = z3.ToReal(b) if b.sort() == z3.IntSort() else b
        r = f(a, b)
        if z3.is_bool(r):
            return VBool(r)
        return VReal(r) if real else VInt(r)

    def __add__(s, o): return s._mk(o, lambda a, b: a + b)
    def __radd__(s, o): return lift(o)._mk(s, lambda a, b: a + b)
    def __sub__(s, o): return s._mk(o, lambda a, b: a - b)
    def __rsub__(s, o): return lift(o)._mk(s, lambda a, b: a - b)
    def __mul__(s, o): return s._mk(o, lambda a, b: a * b)
    def __rmul__(s, o): return lift(o)._mk(s, lambda a, b: a * b)
    def __neg__(s): return type(s)(-s.t)
    def __lt__(s, o): return s._mk(o, lambda a, b: a < b)
    def __le__(s, o): return s._mk(o, lambda a, b: a <= b)
    def __gt__(s, o): return s._mk(o, lambda a, b: a > b)
    def __ge__(s, o): return s._mk(o, lambda a, b: a >= b)

    def __eq__(s, o):
        o = lift(o)
        if isinstance(o, (VInt, VReal, VBool)):
            return s._mk(o, lambda a, b: a == b)
        return VBool(z3.BoolVal(False))

    def __ne__(s, o):
        return ~(s == o)
    __hash__ = object.__hash__

    # Python floor semantics: z3's div/mod are Euclidean; for positive divisor they agree with
    # Python's // and %; for a negative divisor they differ, so the general case is encoded.
    def __floordiv__(s, o):
        def f(a, b):
            if a.sort() == z3.RealSort():
                raise Refuse("real floor division")
            q = a / b
            return z3.If(b > 0, q, z3.If(a % b == 0, q, q - 1))
        return s._mk(o, f)

    def __mod__(s, o):
        def f(a, b):
            if a.sort() == z3.RealSort():
                raise Refuse("real modulo is handled by the executor (ghost quotient)")
            m = a % b
            return z3.If(b > 0, m, z3.If(m == 0, m, m + b))
        return s._mk(o, f)


class VInt(_Num):
    def __init__(self, t):
        self.t = t if z3.is_expr(t) else z3.IntVal(t)

    def __repr__(self): return f"VInt({self.t})"


class VReal(_Num):
    def __init__(self, t):
        self.t = t

    def __repr__(self): return f"VReal({self.t})"


class VBool(_Num):
    def __init__(self, t):
        self.t = t if z3.is_expr(t) else z3.BoolVal(bool(t))

    def __and__(s, o): return VBool(z3.And(s.t, _b(o)))
    def __rand__(s, o): return VBool(z3.And(_b(o), s.t))
    def __or__(s, o): return VBool(z3.Or(s.t, _b(o)))
    def __ror__(s, o): return VBool(z3.Or(_b(o), s.t))
    def __invert__(s): return VBool(z3.Not(s.t))

    def __eq__(s, o):
        o = lift(o)
        if isinstance(o, VBool):
            return VBool(s.t == o.t)
        if isinstance(o, (VInt, VReal)):
            return VInt(z3.If(s.t, 1, 0)) == o
        return VBool(False)

    def __ne__(s, o): return ~(s == o)
    __hash__ = object.__hash__

    def __bool__(self):
        raise Refuse("symbolic boolean used as a Python bool inside a contract: use And/Or/Not/Implies/&,|,~")

    def __repr__(self): return f"VBool({self.t})"


def _b(x):
    if isinstance(x, VBool):
        return x.t
    if isinstance(x, bool):
        return z3.BoolVal(x)
    if z3.is_expr(x) and z3.is_bool(x):
        return x
    raise Refuse(f"not a boolean: {x!r}")


class VStr(V):
    def __init__(self, t):
        self.t = t if z3.is_expr(t) else z3.StringVal(t)

    def __add__(s, o):
        o = lift(o)
        if not isinstance(o, VStr):
            return NotImplemented
        return VStr(z3.Concat(s.t, o.t))

    def __radd__(s, o): return VStr(z3.Concat(lift(o).t, s.t))

    def __eq__(s, o):
        o = lift(o)
        if isinstance(o, VStr):
            return VBool(s.t == o.t)
        if isinstance(o, VOpaque):
            return o == s
        return VBool(False)

    def __ne__(s, o): return ~(s == o)
    __hash__ = object.__hash__

    def at(s, i): return VStr(z3.SubString(s.t, _z(i), 1))
    def sub(s, a, n): return VStr(z3.SubString(s.t, _z(a), _z(n)))
    def startswith(s, p): return VBool(z3.PrefixOf(_z(p), s.t))
    def __repr__(self): return f"VStr({self.t})"


class VStrAcc(VStr):
    """A list that is only appended to and finally passed to "".join: represented by its concatenation."""
    def __repr__(self): return f"VStrAcc({self.t})"


class VNoneT(V):
    def __eq__(s, o): return VBool(isinstance(lift(o), VNoneT)) if not isinstance(lift(o), VOpaque) else is_none(o)
    def __ne__(s, o): return ~(s == o)
    __hash__ = object.__hash__
    def __repr__(self): return "NONE"


NONE = VNoneT()


class VTuple(V):
    def __init__(self, items):
        self.items = list(items)

    def __getitem__(self, i): return self.items[i]
    def __len__(self): return len(self.items)
    def __iter__(self): return iter(self.items)
    def __repr__(self): return f"VTuple({self.items})"


class VList(V):
    """Python list of known length (a fresh value; identity is the Python object)."""
    def __init__(self, items):
        self.items = list(items)

    def __getitem__(self, i): return self.items[i]
    def __len__(self): return len(self.items)
    def __iter__(self): return iter(self.items)
    def __repr__(self): return f"VList({self.items})"


class VSeq(V):
    """symbolic-length sequence (z3 Seq)"""
    def __init__(self, t):
        self.t = t

    def __add__(s, o): return VSeq(z3.Concat(s.t, o.t))
    def __eq__(s, o): return VBool(s.t == lift(o).t)
    def __ne__(s, o): return ~(s == o)
    __hash__ = object.__hash__
    def at(s, i): return lift(s.t[_z(i)])
    def __repr__(self): return f"VSeq({self.t})"


class VOpaque(V):
    """A value the obligations do not (or cannot) look into."""
    def __init__(self, t=None, hint='o', nonnull=False):
        self.t = t if t is not None else z3.Const(fresh_name(hint), Obj)
        self.nonnull = nonnull

    def pred(self, name):
        if name == 'isnone' and self.nonnull:
            return VBool(False)
        return VBool(z3.Function('p:' + name, Obj, z3.BoolSort())(self.t))

    def __eq__(s, o):
        o = lift(o)
        if isinstance(o, VOpaque):
            # value equality of two unknown values: identical terms are equal, otherwise unknown
            return VBool(z3.Function('p:eq', Obj, Obj, z3.BoolSort())(s.t, o.t)) if not s.t.eq(o.t) else VBool(True)
        if isinstance(o, VNoneT):
            return is_none(s)
        if isinstance(o, VStr) and z3.is_string_value(o.t):
            return s.pred('eq:' + repr(o.t.as_string()))
        if isinstance(o, VInt) and z3.is_int_value(o.t):
            return s.pred('eq:' + str(o.t.as_long()))
        return VBool(z3.Const(fresh_name('opaque_eq'), z3.BoolSort()))

    def __ne__(s, o): return ~(s == o)
    __hash__ = object.__hash__
    def __repr__(self): return f"VOpaque({self.t})"


class VU(V):
    """A value of a declared uninterpreted sort (e.g. file keys, paths): only equality is known about it.
    PYCLASS maps the sort name to the Python class the values stand for (isinstance tests)."""
    PYCLASS = {}

    def __init__(self, t):
        self.t = t

    def __eq__(s, o):
        o = lift(o)
        if isinstance(o, VU) and o.t.sort() == s.t.sort():
            return VBool(s.t == o.t)
        return VBool(False)

    def __ne__(s, o): return ~(s == o)
    __hash__ = object.__hash__

    @property
    def pyclass(self): return VU.PYCLASS.get(self.t.sort().name(), 'object')
    def __repr__(self): return f"VU({self.t})"


class VObj(V):
    """Reference to a heap object; fields are in State.heap[oid]."""
    def __init__(self, cls, oid=None, hint=None):
        self.cls = cls
        self.oid = oid if oid is not None else next(_counter)
        self.t = z3.Const(f"{hint or cls}@{self.oid}", Obj)

    def __eq__(s, o):
        o = lift(o)
        if isinstance(o, VObj):
            return VBool(s.oid == o.oid)
        if isinstance(o, VOpaque):
            return VBool(s.t == o.t)
        return VBool(False)

    def __ne__(s, o): return ~(s == o)
    __hash__ = object.__hash__
    def __repr__(self): return f"VObj({self.cls}#{self.oid})"


class VFunc(V):
    """A callable value: `model(engine, state, args, kwargs) -> outcomes` or a repo function key."""
    def __init__(self, name, model=None, key=None, closure=None, node=None, defaults=None, self_obj=None):
        self.name, self.model, self.key = name, model, key
        self.closure, self.node, self.defaults, self.self_obj = closure, node, defaults, self_obj

    def __repr__(self): return f"VFunc({self.name})"


class VExc(V):
    """an exception instance: class name (or '<any>') and optional payload"""
    def __init__(self, cls, args=None, site=None, declared=False):
        self.cls, self.args, self.site = cls, args or [], site
        self.declared = declared      # True: "some instance of cls or of a subclass" (from a callee's raises clause)

    def __repr__(self): return f"VExc({self.cls})"


# ---------------------------------------------------------------- helpers for contracts

def And(*xs):
    xs = [x for x in xs]
    return VBool(z3.And(*[_b(x) for x in xs])) if xs else VBool(True)


def Or(*xs):
    return VBool(z3.Or(*[_b(x) for x in xs])) if xs else VBool(False)


def Not(x): return VBool(z3.Not(_b(x)))
def Implies(a, b): return VBool(z3.Implies(_b(a), _b(b)))


def If(c, a, b):
    a, b = lift(a), lift(b)
    return lift(z3.If(_b(c), a.t, b.t))


def len_(x):
    x = lift(x)
    if isinstance(x, (VStr, VSeq)):
        return VInt(z3.Length(x.t))
    if isinstance(x, (VTuple, VList)):
        return VInt(len(x.items))
    raise Refuse(f"len_ of {x!r}")


def is_none(x):
    x = lift(x)
    if isinstance(x, VNoneT):
        return VBool(True)
    if isinstance(x, VOpaque):
        return x.pred('isnone')
    if hasattr(x, 'none') and isinstance(getattr(x, 'none'), VBool):
        return x.none          # optional ghost collections (None or a collection)
    return VBool(False)


def same(a, b):
    """Python `is`"""
    a, b = lift(a), lift(b)
    if isinstance(a, VNoneT) or isinstance(b, VNoneT):
        return is_none(b) if isinstance(a, VNoneT) else is_none(a)
    if isinstance(a, VObj) and isinstance(b, VObj):
        return VBool(a.oid == b.oid)
    if isinstance(a, VFunc) or isinstance(b, VFunc):
        return VBool(a is b)
    if isinstance(a, VSeq) and isinstance(b, VSeq):
        return VBool(a.t == b.t) if a.t.sort() == b.t.sort() else VBool(False)
    if isinstance(a, VU) and isinstance(b, VU):
        return a == b
    if isinstance(a, (VObj, VOpaque)) and isinstance(b, (VObj, VOpaque)):
        return VBool(a.t == b.t)
    if isinstance(a, VBool) and isinstance(b, VBool):
        return VBool(a.t == b.t)
    if isinstance(a, (VInt, VStr)) and type(a) is type(b):
        return a == b            # small ints / interned strings: identity is not relied on by the code under contract
    return VBool(False)


def specfn(name, argsorts, ressort):
    """Uninterpreted specification function usable on V values."""
    f = z3.Function(name, *argsorts, ressort)

    def call(*args):
        return lift(f(*[_z(a) for a in args]))
    call.z3 = f
    call.__name__ = name
    return call


Int, Real, Bool, Str = z3.IntSort(), z3.RealSort(), z3.BoolSort(), z3.StringSort()


def fresh(sort, hint='v'):
    """fresh symbolic value of a sort descriptor: z3 sort, 'opaque', 'stracc', or a callable(hint)->V"""
    if sort is None:
        return NONE
    if isinstance(sort, str):
        if sort == 'opaque':
            return VOpaque(hint=hint)
        if sort == 'nonnull':
            return VOpaque(hint=hint, nonnull=True)
        if sort == 'stracc':
            return VStrAcc(z3.Const(fresh_name(hint), z3.StringSort()))
        raise Refuse(f"unknown sort descriptor {sort!r}")
    if sort is VOpaque:
        return VOpaque(hint=hint)
    if isinstance(sort, (tuple, list)):
        return VTuple([fresh(s, f"{hint}.{k}") for k, s in enumerate(sort)])
    if callable(sort) and not isinstance(sort, z3.SortRef):
        return sort(hint)
    return lift(z3.Const(fresh_name(hint), sort))


def fresh_like(v, hint='h'):
    if isinstance(v, VStrAcc):
        return fresh('stracc', hint)
    if isinstance(v, (VInt, VReal, VBool, VStr, VSeq)):
        return lift(z3.Const(fresh_name(hint), v.t.sort()))
    if isinstance(v, VTuple):
        return VTuple([fresh_like(x, hint) for x in v.items])
    return VOpaque(hint=hint)
