"""Re-verify a few functions under ANOTHER property's contracts inside a check (own registry and engine): used where a property rests
on an obligation that is stated in another property's contract module, so that the obligation is re-discharged - not assumed - here."""
import z3

from . import smt
from .contracts import Registry
from .engine import Engine
from .values import Refuse


def subverify(src, prop, module, keys, replay=None, why='', timeout_s=20, prefer_cvc5=None):
    reg = Registry(prop)
    module.build(reg, src)
    reg.extra_checks[:] = []
    eng = Engine(src, reg)
    eng._names = set()
    if hasattr(module, 'configure'):
        module.configure(eng)
    rows = []
    for key in keys:
        try:
            eng.verify_fn(key)
        except Refuse as e:
            rows.append(dict(name=key + '#refused', ok=False, undecided=True, backend='z3', detail=f"refused: {e}"))
        except (AttributeError, KeyError, IndexError, TypeError, z3.Z3Exception) as e:
            # a contract lambda that cannot be evaluated on code that no longer has the shape it was written for: undecided, never a verdict
            rows.append(dict(name=key + '#refused', ok=False, undecided=True, backend='z3',
                             detail=f"contract could not be evaluated on this code: {type(e).__name__}: {e}"))
    if prefer_cvc5:
        import re
        for o in eng.obligations:
            if re.search(prefer_cvc5, o.name) and o.meta.get('kind') != 'vacuity-neg':
                o.meta['prefer'] = 'cvc5'
    smt.discharge(eng.obligations, timeout_s=timeout_s)
    bad = []
    for o in eng.obligations:
        if o.meta.get('kind') in ('vacuity-neg', 'vacuity-cover'):
            continue
        if o.result == 'unsat':
            rows.append(dict(name=o.name, ok=True, backend=o.backend, detail=why))
        elif o.result == 'sat':
            r = dict(name=o.name, ok=False, backend=o.backend, detail=f"{why}: fails on path {o.meta.get('trail')}", confirmed=False)
            rows.append(r)
            bad.append(r)
        else:
            rows.append(dict(name=o.name, ok=False, undecided=True, backend=o.backend, detail='undecided'))
    if bad and replay is not None:
        from .run import run_replay
        rr = run_replay(replay, {}, bad[0]['name'], timeout_s=60)
        for b in bad:
            b['confirmed'] = bool(rr.get('confirmed'))
            b['replay'] = dict(result=rr)
            if rr.get('confirmed'):
                b['detail'] += f" | real code: {rr.get('detail')}"
    return rows, eng
