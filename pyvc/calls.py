"""Call handling (mixin of Engine): externals, functions under contract (modular), inlined helpers,
closures, builtins and builtin methods."""
import ast
import builtins as _bi
import z3
from .values import *
from .state import *
from .exprs import dotted

NOOP_CALLS = {'print', 'logging.info', 'logging.warning', 'logging.error', 'logging.debug', 'logging.exception',
              'tinfo', 'traceback.print_exception', 'traceback.print_exc', 'logging.critical'}


OPAQUE_MUTATORS = {'append', 'extend', 'reverse', 'add', 'update', 'clear', 'sort', 'insert', 'appendleft'}


class CallMixin:

    # ------------------------------------------------------------ names
    def global_name(self, name, st):
        if name in self.globals_v:
            return self.globals_v[name]
        if name in ('True', 'False', 'None'):
            return lift({'True': True, 'False': False, 'None': None}[name])
        # module-level function of the repo (same module first, then unique across the anchored modules)
        rel = self.cur_key.split('::')[0]
        f = self.src.module_funcs.get(rel, {}).get(name)
        if f is not None:
            return VFunc(name, key=f"{rel}::{name}", node=f)
        cands = [(r, fs[name]) for r, fs in self.src.module_funcs.items() if name in fs]
        if len(cands) == 1:
            r, f = cands[0]
            return VFunc(name, key=f"{r}::{name}", node=f)
        if len(cands) > 1:
            # prefer a function that is under contract
            under = [(r, f) for r, f in cands if f"{r}::{name}" in self.reg.fns]
            if len(under) == 1:
                r, f = under[0]
                return VFunc(name, key=f"{r}::{name}", node=f)
        if self.src.known_class(name):
            return VFunc(name, key=('class', name))
        if hasattr(_bi, name):
            return VFunc(name, key=('builtin', name))
        if name in self.reg.externals or name in self.cur.externals or name in self.all_assumed() or name in NOOP_CALLS:
            return VFunc(name, key=('external', name))
        if name in self.module_names:
            return VFunc(name, key=('module', name))
        # a module-level name of the repository (this module first): literal constants by value, anything else as one fixed
        # but unknown object (no assumption is made about it)
        for r in [rel] + sorted(x for x in self.src.trees if x != rel):
            for n in self.src.tree(r).body:
                if isinstance(n, ast.Assign) and any(isinstance(t, ast.Name) and t.id == name for t in n.targets):
                    try:
                        val = ast.literal_eval(n.value)
                    except Exception:
                        val = None
                        lit = False
                    else:
                        lit = isinstance(val, (int, float, str, bool)) or val is None
                    v = lift(val) if lit else VOpaque(hint='global:' + name, nonnull=True)
                    self.globals_v[name] = v
                    self.used_globals = getattr(self, 'used_globals', set()) | {f"{r}::{name}" + ('' if lit else ' (opaque)')}
                    return v
        return None

    def global_attr(self, d, st):
        if d in self.globals_v:
            return self.globals_v[d]
        root = d.split('.')[0]
        if root in self.module_names or d in self.reg.externals or d in self.cur.externals or d in self.all_assumed() or d in NOOP_CALLS:
            return VFunc(d, key=('external', d))
        return None

    def all_assumed(self):
        d = dict(self.reg.assumed_calls)
        d.update(self.cur.assumed_calls)
        return d

    # ------------------------------------------------------------ call expressions
    def call_expr(self, e, st):
        d = dotted(e.func)
        if any(isinstance(a, ast.Starred) for a in e.args) or any(k.arg is None for k in e.keywords):
            star = True
        else:
            star = False
        # 1. syntactic externals (sidecar ghost events are keyed by syntactic event)
        model = None
        if d is not None:
            model = self.cur.externals.get(d) or self.reg.externals.get(d)
            if model is None and d in NOOP_CALLS:
                model = _noop
            if model is None and d in self.all_assumed():
                model = self.assumed_model(d, self.all_assumed()[d])
        argexprs = [a.value if isinstance(a, ast.Starred) else a for a in e.args]
        kwexprs = [k.value for k in e.keywords]

        def with_args(s, vs):
            args = []
            for a, v in zip(e.args, vs[:len(e.args)]):
                if isinstance(a, ast.Starred):
                    if isinstance(v, (VList, VTuple)):
                        args.extend(v.items)
                    else:
                        args.append(('*', v))
                else:
                    args.append(v)
            kwargs = {}
            for k, v in zip(e.keywords, vs[len(e.args):]):
                if k.arg is None and isinstance(k.value, ast.Name) and isinstance(s.env.get('**' + k.value.id), dict):
                    kwargs.update(s.env['**' + k.value.id])
                elif k.arg is None:
                    kwargs['**'] = v
                else:
                    kwargs[k.arg] = v
            return args, kwargs

        if model is not None:
            def run(s, vs):
                args, kwargs = with_args(s, vs)
                self.used_externals.add(d)
                return model(self, s, args, kwargs, e)
            return self.bind(self.ev_many(argexprs + kwexprs, st), run)

        def run2(s, vs):
            fv, vs = vs[0], vs[1:]
            args, kwargs = with_args(s, vs)
            return self.apply(fv, args, kwargs, s, e)
        return self.bind(self.ev_many([e.func] + argexprs + kwexprs, st), run2)

    def assumed_model(self, name, ret):
        def model(eng, st, args, kwargs, node):
            eng.used_assumed.add(name)
            if name in eng.reg.pure_calls and (isinstance(ret, z3.SortRef) or (isinstance(ret, str) and ret in ('opaque', 'nonnull'))) and not kwargs:
                # assumed pure: an uninterpreted function of its arguments (same arguments, same result), never raises
                targs = [eng.as_obj(a) for a in args]
                fname = 'assumed:' + name + ('' if len(targs) == 1 else f'/{len(targs)}')
                f = z3.Function(fname, *[t.sort() for t in targs], ret if isinstance(ret, z3.SortRef) else Obj)
                r = lift(f(*targs))
                if isinstance(ret, str) and ret == 'nonnull':
                    r.nonnull = True
                return [(st, r)]
            out = [(st, fresh(ret, hint=name.split('.')[-1]))]
            s2 = st.fork()
            s2.trail.append(f"raise@{getattr(node, 'lineno', '?')}:{name}")
            return out + [eng.exc(s2, '<any>', node)]
        return model

    def apply(self, fv, args, kwargs, st, node):
        """apply a callable value"""
        if any(isinstance(a, tuple) and a and a[0] == '*' for a in args) or '**' in kwargs:
            if not ((isinstance(fv, VFunc) and (fv.model or (isinstance(fv.key, tuple) and fv.key[0] == 'external')))
                    or (isinstance(fv, VOpaque) and 'call_opaque' in self.hooks)):
                raise Refuse(f"*args/**kwargs of unknown length at line {node.lineno}")
        if isinstance(fv, VFunc):
            if fv.model is not None:
                return fv.model(self, st, args, kwargs, node)
            k = fv.key
            if isinstance(k, tuple):
                if k[0] == 'builtin':
                    return self.builtin(k[1], args, kwargs, st, node)
                if k[0] == 'builtin_method':
                    return self.builtin_method(fv.self_obj, k[1], args, kwargs, st, node)
                if k[0] == 'class':
                    return self.construct(k[1], args, kwargs, st, node)
                if k[0] == 'external':
                    name = k[1]
                    model = self.cur.externals.get(name) or self.reg.externals.get(name)
                    if model is None and name in NOOP_CALLS:
                        model = _noop
                    if model is None and name in self.all_assumed():
                        model = self.assumed_model(name, self.all_assumed()[name])
                    if model is None:
                        raise Refuse(f"call of undeclared external {name!r} at line {node.lineno} in {self.cur_key}")
                    self.used_externals.add(name)
                    return model(self, st, args, kwargs, node)
                if k[0] == 'opaque_method' and 'opaque_method' in self.hooks:
                    r = self.hooks['opaque_method'](self, fv.self_obj, fv.name, args, kwargs, st, node)
                    if r is not None:
                        return r
                if k[0] == 'opaque_method':
                    # container mutators on a value nobody reads symbolically (reads of opaque values are unconstrained)
                    if fv.name in OPAQUE_MUTATORS:
                        return [(st, NONE)]
                    return [(st, VOpaque(hint=fv.name))] + self.maybe_raise(st, fv.name, node)
                raise Refuse(f"call of {fv!r}")
            if k is not None:
                a2 = ([fv.self_obj] if fv.self_obj is not None else []) + list(args)
                return self.call_key(k, fv.node, a2, kwargs, st, node)
            if fv.node is not None:
                return self.call_closure(fv, args, kwargs, st, node)
        if isinstance(fv, VFunc) and fv.key == ('opaque_method',):
            # container mutators on a value nobody reads symbolically (reads of opaque values are unconstrained)
            if fv.name in OPAQUE_MUTATORS:
                return [(st, NONE)]
            return [(st, VOpaque(hint=fv.name))] + self.maybe_raise(st, fv.name, node)
        if isinstance(fv, VOpaque):
            h = self.hooks.get('call_opaque')
            if h:
                r = h(self, fv, args, kwargs, st, node)
                if r is not None:
                    return r
            raise Refuse(f"call of an opaque value at line {node.lineno} in {self.cur_key} ({ast.unparse(node)[:60]})")
        raise Refuse(f"call of {fv!r} at line {node.lineno}")

    # ------------------------------------------------------------ parameter binding
    def bind_params(self, fnode, args, kwargs, defaults=None, st=None):
        a = fnode.args
        names = [x.arg for x in a.posonlyargs + a.args]
        env = {}
        args = list(args)
        if len(args) > len(names) and a.vararg is None:
            return None
        for n, v in zip(names, args):
            env[n] = v
        if a.vararg is not None:
            env[a.vararg.arg] = VTuple(args[len(names):])
        kw = dict(kwargs)
        for n in names[len(args):] + [x.arg for x in a.kwonlyargs]:
            if n in kw:
                env[n] = kw.pop(n)
        if a.kwarg is not None:
            env[a.kwarg.arg] = VOpaque(hint='kwargs')
            env['**' + a.kwarg.arg] = kw
            kw = {}
        elif kw:
            return None
        # defaults
        dnodes = a.defaults
        dnames = names[len(names) - len(dnodes):] if dnodes else []
        dvals = list(defaults) if defaults is not None else None
        for idx, (n, dn) in enumerate(zip(dnames, dnodes)):
            if n not in env:
                env[n] = dvals[idx] if dvals is not None else self.const_default(dn)
        off = len(dnodes)
        kidx = 0
        for x, dn in zip(a.kwonlyargs, a.kw_defaults):
            if dn is not None:
                if x.arg not in env:
                    env[x.arg] = dvals[off + kidx] if dvals is not None else self.const_default(dn)
                kidx += 1
        for n in names + [x.arg for x in a.kwonlyargs]:
            if n not in env:
                return None
        return env

    def const_default(self, dn):
        if isinstance(dn, ast.Constant):
            return lift(dn.value)
        if isinstance(dn, ast.UnaryOp) and isinstance(dn.op, ast.USub) and isinstance(dn.operand, ast.Constant):
            return lift(-dn.operand.value)
        return VOpaque(hint='default')

    # ------------------------------------------------------------ functions of the repo
    def call_key(self, key, fnode, args, kwargs, st, node):
        c = self.reg.fns.get(key)
        if c is None:
            h = self.hooks.get('call_unknown_key')
            if h:
                r = h(self, key, args, kwargs, st, node)
                if r is not None:
                    return r
            # a function of the repository that no contract names (e.g. a helper extracted by a refactoring): its real body is
            # executed in place - it is verified as part of its caller.  Recursion is not unrolled.
            fn2 = fnode if fnode is not None else self.src.find(key)
            stack = getattr(self, '_auto_inline_stack', [])
            if fn2 is not None and isinstance(fn2, (ast.FunctionDef, ast.Lambda)) and key not in stack and len(stack) < 4 \
                    and not any(isinstance(n, (ast.Yield, ast.YieldFrom, ast.Await)) for n in ast.walk(fn2)):
                env = self.bind_params(fn2, args, kwargs)
                if env is None:
                    return [self.exc(st, 'TypeError', node)]
                self._auto_inline_stack = stack + [key]
                try:
                    self.auto_inlined = getattr(self, 'auto_inlined', set()) | {key}
                    return self.inline_call(key, None, fn2, env, st, node)
                finally:
                    self._auto_inline_stack = stack
            raise Refuse(f"call of {key} which has no contract (line {getattr(node, 'lineno', '?')} in {self.cur_key})")
        if fnode is None:
            fnode = self.src.find(key)
        env = self.bind_params(fnode, args, kwargs)
        if env is None:
            return [self.exc(st, 'TypeError', node)]
        if c.inline:
            return self.inline_call(key, c, fnode, env, st, node)
        return self.contract_call(key, c, env, st, node)

    def inline_call(self, key, c, fnode, env, st, node, closure_env=None):
        self.inline_depth += 1
        if self.inline_depth > 12:
            raise Refuse(f"inlining depth exceeded at {key}")
        saved_env, saved_key, saved_cur = st.env, self.cur_key, self.cur
        e2 = dict(closure_env or {})
        e2.update({k: v for k, v in env.items() if not k.startswith('**')})
        st.env = e2
        self.cur_key = key if key else self.cur_key
        if c is not None:
            self.cur = c
        self.inlined.add(key)
        try:
            if isinstance(fnode, ast.Lambda):
                res = [('ret', s, v) if not isinstance(v, Raised) else ('raise', s, v.exc) for s, v in self.ev(fnode.body, st)]
            else:
                res = self.block(fnode.body, st)
        finally:
            self.cur_key, self.cur = saved_key, saved_cur
            self.inline_depth -= 1
        outs = []
        for kind, s, pl in res:
            # restore the caller's locals in each outcome state
            s.env = dict(saved_env) if s is not st else saved_env
            if kind == 'ret':
                outs.append((s, pl))
            elif kind == 'fall':
                outs.append((s, NONE))
            elif kind == 'raise':
                outs.append((s, Raised(pl)))
            else:
                raise Refuse(f"{kind} escaping function {key}")
        st.env = saved_env
        return outs

    def call_closure(self, fv, args, kwargs, st, node):
        env = self.bind_params(fv.node, args, kwargs, defaults=fv.defaults)
        if env is None:
            return [self.exc(st, 'TypeError', node)]
        ckey = getattr(fv, 'contract_key', None)
        if ckey and ckey in self.reg.fns and not self.reg.fns[ckey].inline:
            return self.contract_call(ckey, self.reg.fns[ckey], env, st, node)
        return self.inline_call(getattr(fv, 'def_key', None), None, fv.node, env, st, node, closure_env=fv.closure)

    def contract_call(self, key, c, env, st, node):
        """modular call: prove requires, havoc the frame, assume ensures (or an exceptional exit)"""
        self.call_ordinal += 1
        tag = f"{self.cur_key}#call{self.call_ordinal}:{key.split('::')[1]}@{getattr(node, 'lineno', '?')}"
        self.callees.add(key)
        pre = st
        ns = NS(env, env, pre, pre)
        for h in c.pre_hints:
            pre.assume(h(ns))
        for k, r in enumerate(c.requires):
            self.oblige(f"{tag}.pre{k}", pre, r(ns), kind='call-pre', callee=key)
        # termination of recursion: lexicographic decrease (or callee of strictly lower rank)
        if c.decreases is not None and self.cur_decreases is not None:
            self.oblige(f"{tag}.decreases", pre, lex_less(c.decreases(ns), self.cur_decreases), kind='decreases', callee=key)
        elif c.decreases is not None and self.cur_decreases is None and self.cur.decreases is None and self.cur is not c:
            pass
        outs = []
        # exceptional exit
        if c.raises is None or len(c.raises) > 0:
            for cls in (c.raises if c.raises else ['<any>']):
                s2 = pre.fork()
                old = pre
                if c.modifies:
                    c.modifies(self, s2, NS(env, env, s2, old))
                exc = VExc(cls, site=getattr(node, 'lineno', None), declared=True)
                ns2 = NS(env, env, s2, old)
                if c.sets_exc:
                    for obj, fld, val in c.sets_exc(NS(env, env, s2, old), exc):
                        s2.setfield(obj, fld, val)
                for en in c.ensures_exc:
                    s2.assume(en(ns2, exc))
                s2.trail.append(f"raise@{getattr(node, 'lineno', '?')}:{key.split('::')[1]}")
                if getattr(c, 'ghost_at_raise', None):
                    c.ghost_at_raise(self, s2, ns2, exc)
                if self.feasible(s2):
                    outs.append((s2, Raised(exc)))
        s1 = pre.fork()
        old = pre
        if c.modifies:
            c.modifies(self, s1, NS(env, env, s1, old))
        if c.alloc_ret is not None:
            ret = c.alloc_ret(self, s1, NS(env, env, s1, old))
        else:
            ret = fresh(c.returns, hint=key.split('::')[1].split('.')[-1]) if c.returns is not None else NONE
        ns1 = NS(env, env, s1, old)
        if c.sets:
            for obj, fld, val in c.sets(NS(env, env, s1, old), ret):
                s1.setfield(obj, fld, val)
        for en in c.ensures:
            s1.assume(en(ns1, ret))
        for h in c.post_hints:
            s1.assume(h(ns1, ret))
        if c.ensures and self.feasible(pre) and not self.feasible(s1):
            # the assumed postcondition contradicts the state at this call site: a contract whose ensures cannot be
            # satisfied here would silently cut the path and make everything after it vacuous
            raise Refuse(f"postcondition of {key} is unsatisfiable at its call site in {self.cur_key} (line {getattr(node, 'lineno', '?')}): contract error")
        if c.ghost_at_call:
            c.ghost_at_call(self, s1, ns1, ret)      # ghost code attached to the call event (logs), not an assumption about the callee
        outs.insert(0, (s1, ret))
        return outs

    def construct(self, cls, args, kwargs, st, node):
        h = self.hooks.get('new:' + cls)
        if h:
            r = h(self, args, kwargs, st, node)
            if r is not None:
                return r
        if cls in self.src.classes:
            anc = self.src.ancestors(cls)
            if 'BaseException' in anc:
                return [(st, VExc(cls, args, site=getattr(node, 'lineno', None)))]
            key, m = self.src.method(cls, '__init__')
            if key in self.reg.fns:
                o = st.alloc(cls)
                res = []
                for s, v in self.call_key(key, m, [o] + list(args), kwargs, st, node):
                    res.append((s, v if isinstance(v, Raised) else o))
                return res
            if cls in self.opaque_classes:
                return [(st, self.mk_opaque_instance(cls, st))]
            raise Refuse(f"constructor of {cls} has no contract (line {node.lineno} in {self.cur_key})")
        b = getattr(_bi, cls, None)
        if isinstance(b, type) and issubclass(b, BaseException):
            return [(st, VExc(cls, args, site=getattr(node, 'lineno', None)))]
        return self.builtin(cls, args, kwargs, st, node)

    def mk_opaque_instance(self, cls, st):
        o = VOpaque(hint=cls)
        for a in self.src.ancestors(cls):
            st.assume(o.pred('isinst:' + a))
        st.assume(z3.Not(o.pred('isnone').t))
        return o

    # ------------------------------------------------------------ isinstance
    def isinstance_(self, v, clsnames, st):
        v = lift(v)
        parts = []
        for c in clsnames:
            if isinstance(c, tuple) and c[0] == 'dyn':
                parts.append(z3.Function('p:isinst-of-type-of', Obj, Obj, z3.BoolSort())(self.as_obj(v), c[1].t))
                continue
            if isinstance(v, VObj):
                parts.append(z3.BoolVal(self.src.is_subclass(v.cls, c)))
            elif isinstance(v, VExc):
                if v.cls == '<any>':
                    parts.append(z3.Const(fresh_name('excinst'), z3.BoolSort()))
                else:
                    parts.append(z3.BoolVal(self.src.is_subclass(v.cls, c)))
            elif isinstance(v, VOpaque):
                p = v.pred('isinst:' + c).t
                for a in self.src.ancestors(c):
                    if a != c:
                        st.pc.append(z3.Implies(p, v.pred('isinst:' + a).t))
                st.pc.append(z3.Implies(p, z3.Not(v.pred('isnone').t)))
                parts.append(p)
            else:
                py = v.pyclass if isinstance(v, VU) else \
                    {VInt: 'int', VBool: 'bool', VReal: 'float', VStr: 'str', VStrAcc: 'list', VNoneT: 'NoneType',
                     VTuple: 'tuple', VList: 'list', VSeq: 'list', VFunc: 'function'}.get(type(v), 'object')
                parts.append(z3.BoolVal(self.src.is_subclass(py, c) or (py == 'bool' and c == 'int')))
        return z3.Or(*parts) if len(parts) != 1 else parts[0]

    def class_names(self, v):
        if isinstance(v, VFunc) and isinstance(v.key, tuple) and v.key[0] in ('class', 'builtin'):
            return [v.key[1]]
        if isinstance(v, VTuple) and len(v.items) == 2 and isinstance(v.items[0], str) and v.items[0] == 'typeof':
            x = v.items[1]
            if isinstance(x, VObj):
                return [x.cls]
            py = {VInt: 'int', VBool: 'bool', VReal: 'float', VStr: 'str', VNoneT: 'NoneType', VTuple: 'tuple', VList: 'list'}.get(type(x))
            if py is None:
                if isinstance(x, VOpaque):
                    return [('dyn', x)]
                raise Refuse(f"type() of {x!r} used as a class")
            return [py]
        if isinstance(v, (VTuple, VList)):
            out = []
            for x in v.items:
                out.extend(self.class_names(x))
            return out
        if isinstance(v, VFunc) and isinstance(v.key, tuple) and v.key[0] == 'external':
            return [v.key[1].split('.')[-1]]
        raise Refuse(f"class expression {v!r}")

    # ------------------------------------------------------------ builtins
    def builtin(self, name, args, kwargs, st, node):
        h = self.hooks.get('builtin:' + name)
        if h:
            r = h(self, args, kwargs, st, node)
            if r is not None:
                return r
        a = args
        if name == 'len':
            v = a[0]
            if isinstance(v, (VStr, VSeq, VTuple, VList)):
                return [(st, len_(v))]
            if isinstance(v, (VOpaque, VObj)):
                n = VInt(z3.Const(fresh_name('len'), z3.IntSort()))
                if isinstance(v, VOpaque):
                    n = VInt(z3.Function('len:obj', Obj, z3.IntSort())(v.t))
                st.assume(n.t >= 0)
                return [(st, n)] + self.maybe_raise(st, 'len', node)
        if name == 'isinstance':
            return [(st, VBool(self.isinstance_(a[0], self.class_names(a[1]), st)))]
        if name == 'issubclass':
            # issubclass(type(v), C): the only form used in the repo
            if isinstance(a[0], VTuple) and a[0].items and a[0].items[0] == 'typeof':
                return [(st, VBool(self.isinstance_(a[0].items[1], self.class_names(a[1]), st)))]
            raise Refuse("issubclass on a non type(v) operand")
        if name == 'type' and len(a) == 1:
            t = VTuple(['typeof', a[0]])
            return [(st, t)]
        if name == 'callable':
            v = a[0]
            if isinstance(v, VFunc):
                return [(st, VBool(True))]
            if isinstance(v, VOpaque):
                return [(st, v.pred('callable'))]
            if isinstance(v, VObj):
                return [(st, VBool(self.src.method(v.cls, '__call__')[0] is not None))]
            return [(st, VBool(False))]
        if name in ('int', 'float'):
            if not a:
                return [(st, lift(0 if name == 'int' else 0.0))]
            v = a[0]
            if isinstance(v, VInt):
                return [(st, v if name == 'int' else VReal(z3.ToReal(v.t)))]
            if isinstance(v, VBool):
                return [(st, VInt(z3.If(v.t, 1, 0)))]
            if isinstance(v, VReal) and name == 'float':
                return [(st, v)]
            if isinstance(v, VStr):
                h = self.hooks.get('parse_' + name)
                if h:
                    return h(self, v, st, node)
                r = fresh(Int if name == 'int' else Real, hint=name)
                s2 = st.fork()
                return [(st, r), self.exc(s2, 'ValueError', node)]
            if isinstance(v, VReal) and name == 'int':
                # int() of a float truncates toward zero (floats as reals; inf/nan are outside the real model)
                r = fresh(Int, hint='int')
                rr = z3.ToReal(r.t)
                st.assume(z3.If(v.t >= 0, z3.And(rr <= v.t, v.t < rr + 1), z3.And(rr - 1 < v.t, v.t <= rr)))
                return [(st, r)]
            if isinstance(v, (VOpaque, VReal)):
                r = fresh(Int if name == 'int' else Real, hint=name)
                return [(st, r)] + self.maybe_raise(st, name, node)
        if name == 'str':
            if not a:
                return [(st, lift(""))]
            v = a[0]
            if isinstance(v, VStr):
                return [(st, v)]
            if isinstance(v, VInt):
                return [(st, VStr(z3.IntToStr(v.t)))] if self.known(st, v.t >= 0) else [(st, VStr(z3.Function('str:int', Int, Str)(v.t)))]
            return [(st, VStr(z3.Function('str:obj', Obj, Str)(self.as_obj(v))))] + (self.maybe_raise(st, 'str', node) if isinstance(v, (VOpaque, VObj)) else [])
        if name == 'repr':
            return [(st, VStr(z3.Function('repr:obj', Obj, Str)(self.as_obj(a[0]))))]
        if name == 'bool':
            return [(st, VBool(self.truth(a[0])))]
        if name in ('min', 'max') and len(a) == 2 and all(isinstance(x, (VInt, VReal)) for x in a):
            c = a[0] <= a[1]
            return [(st, If(c, a[0], a[1]) if name == 'min' else If(c, a[1], a[0]))]
        if name == 'round' and len(a) == 1 and not kwargs and isinstance(a[0], (VInt, VReal)):
            if isinstance(a[0], VInt):
                return [(st, a[0])]
            # round(x) of a float: an integer within 1/2 of x (which of the two at a tie is left open; floats as reals)
            r = fresh(Int, hint='round')
            rr = z3.ToReal(r.t)
            st.assume(z3.And(rr - z3.RealVal('1/2') <= a[0].t, a[0].t <= rr + z3.RealVal('1/2')))
            return [(st, r)]
        if name == 'abs' and isinstance(a[0], (VInt, VReal)):
            return [(st, If(a[0] >= 0, a[0], -a[0]))]
        if name in ('list', 'tuple'):
            if not a:
                return [(st, VList([]) if name == 'list' else VTuple([]))]
            v = a[0]
            if isinstance(v, (VList, VTuple)):
                return [(st, (VList if name == 'list' else VTuple)(v.items))]
            if isinstance(v, (VOpaque, VObj)):
                return [(st, VOpaque(hint=name))] + self.maybe_raise(st, name, node)
        if name == 'sum' and len(a) == 1 and isinstance(a[0], (VList, VTuple)) and all(isinstance(x, (VInt, VBool)) for x in a[0].items):
            tot = lift(0)
            for x in a[0].items:
                tot = tot + x
            return [(st, VInt(z3.simplify(tot.t)))]
        if name in ('dict', 'set', 'frozenset', 'sorted', 'reversed', 'sum', 'any', 'all', 'iter', 'next', 'id', 'hash',
                    'getattr', 'hasattr', 'zip', 'enumerate', 'range', 'map', 'filter', 'object', 'bytes', 'bytearray',
                    'round', 'divmod', 'pow', 'min', 'max', 'abs', 'chr', 'ord', 'vars', 'dir'):
            if name in ('zip', 'enumerate', 'range', 'reversed') and all(isinstance(x, (VList, VTuple, VInt)) for x in a):
                r = self.concrete_iter(name, a)
                if r is not None:
                    return [(st, r)]
            if name == 'range':
                return [(st, VTuple(['range'] + list(a)))]
            if name == 'enumerate' or name == 'zip':
                return [(st, VTuple([name] + list(a)))]
            if name == 'hasattr':
                return [(st, VBool(z3.Const(fresh_name('hasattr'), z3.BoolSort())))]
            if name == 'object' and not a:
                return [(st, VOpaque(hint='object'))]
            if name == 'getattr' and len(a) == 3 and isinstance(a[1], VStr) and z3.is_string_value(a[1].t):
                attr = a[1].t.as_string()
                if isinstance(a[0], VObj):
                    if attr in st.heap.get(a[0].oid, {}):
                        return [(st, st.heap[a[0].oid][attr])]
                    return [(st, a[2])]
                return [(st, VOpaque(hint=attr))]
            return [(st, VOpaque(hint=name))] + self.maybe_raise(st, name, node)
        raise Refuse(f"builtin {name}({', '.join(map(repr, a))}) at line {getattr(node, 'lineno', '?')} in {self.cur_key}")

    def concrete_iter(self, name, a):
        def cint(x):
            if isinstance(x, VInt) and z3.is_int_value(z3.simplify(x.t)):
                return z3.simplify(x.t).as_long()
            return None
        if name == 'range':
            cs = [cint(x) for x in a]
            if any(c is None for c in cs) or len(range(*cs)) > 16:
                return None
            return VList([lift(i) for i in range(*cs)])
        if name == 'zip' and all(isinstance(x, (VList, VTuple)) for x in a):
            return VList([VTuple(list(t)) for t in zip(*[x.items for x in a])])
        if name == 'enumerate' and isinstance(a[0], (VList, VTuple)) and len(a) == 1:
            return VList([VTuple([lift(i), x]) for i, x in enumerate(a[0].items)])
        if name == 'reversed' and isinstance(a[0], (VList, VTuple)):
            return VList(list(reversed(a[0].items)))
        return None

    # ------------------------------------------------------------ builtin methods
    def strpred(self, name, s):
        return VBool(z3.Function('str:' + name, z3.StringSort(), z3.BoolSort())(s.t))

    def builtin_method(self, o, m, args, kwargs, st, node):
        h = self.hooks.get('method')
        if h:
            r = h(self, o, m, args, kwargs, st, node)
            if r is not None:
                return r
        if isinstance(o, VStrAcc):
            if m == 'append' and isinstance(args[0], VStr):
                # mutation of the accumulator: find the variable(s) bound to it
                new = VStrAcc(z3.Concat(o.t, args[0].t))
                self.rebind(st, o, new)
                return [(st, NONE)]
            raise Refuse(f"join-accumulator used with .{m}")
        if isinstance(o, VStr):
            a = args
            if m in ('isspace', 'isnumeric', 'isalpha', 'isdigit', 'isalnum', 'isupper', 'islower', 'isdecimal'):
                return [(st, self.strpred(m, o))]
            if m == 'startswith' and isinstance(a[0], VStr) and len(a) == 1:
                return [(st, VBool(z3.PrefixOf(a[0].t, o.t)))]
            if m == 'endswith' and isinstance(a[0], VStr):
                return [(st, VBool(z3.SuffixOf(a[0].t, o.t)))]
            if m in ('index', 'find') and isinstance(a[0], VStr):
                start = a[1].t if len(a) > 1 else z3.IntVal(0)
                j = z3.IndexOf(o.t, a[0].t, start)
                if m == 'find':
                    return [(st, VInt(j))]
                outs = []
                for s2, ok in self.branch(st, j >= 0, 'str.index'):
                    outs.append((s2, VInt(j)) if ok else self.exc(s2, 'ValueError', node))
                return outs
            if m == 'join':
                v = a[0]
                if isinstance(v, VStrAcc):
                    if z3.is_string_value(o.t) and o.t.as_string() == "":
                        return [(st, VStr(v.t))]
                    raise Refuse("join of an accumulator with a non-empty separator")
                if isinstance(v, (VList, VTuple)) and all(isinstance(x, VStr) for x in v.items):
                    t = None
                    for x in v.items:
                        t = x.t if t is None else z3.Concat(t, o.t, x.t)
                    return [(st, VStr(t if t is not None else z3.StringVal("")))]
                return [(st, VStr(z3.Const(fresh_name('join'), Str)))] + self.maybe_raise(st, 'join', node)
            if m in ('split', 'splitlines', 'partition', 'rpartition', 'rsplit'):
                return [(st, VOpaque(hint=m))]
            if m in ('strip', 'lstrip', 'rstrip', 'lower', 'upper', 'replace', 'ljust', 'rjust', 'format', 'encode',
                     'decode', 'zfill', 'title', 'capitalize', 'center'):
                return [(st, VStr(z3.Const(fresh_name(m), Str)) if m not in ('encode',) else VOpaque(hint='bytes'))]
            if m == 'count':
                n = fresh(Int, 'count')
                st.assume(n.t >= 0)
                return [(st, n)]
        if isinstance(o, VList):
            # Python lists are mutable and states share value objects: mutate functionally and rebind
            if m == 'append':
                self.rebind(st, o, VList(o.items + [args[0]]))
                return [(st, NONE)]
            if m == 'extend' and isinstance(args[0], (VList, VTuple)):
                self.rebind(st, o, VList(o.items + list(args[0].items)))
                return [(st, NONE)]
            if m == 'reverse':
                self.rebind(st, o, VList(list(reversed(o.items))))
                return [(st, NONE)]
            if m == 'pop' and not args and o.items:
                self.rebind(st, o, VList(o.items[:-1]))
                return [(st, o.items[-1])]
            if m == 'copy':
                return [(st, VList(o.items))]
        if isinstance(o, VFunc) and m in ('__name__', '__doc__'):
            return [(st, VOpaque(hint=m))]
        raise Refuse(f"method {m} of {o!r} at line {getattr(node, 'lineno', '?')} in {self.cur_key}")

    def rebind(self, st, old, new):
        for k, v in list(st.env.items()):
            if v is old:
                st.env[k] = new
        for oid, flds in st.heap.items():
            for k, v in list(flds.items()):
                if v is old:
                    flds[k] = new
        for k, v in list(st.ghost.items()):
            if v is old:
                st.ghost[k] = new


def _noop(eng, st, args, kwargs, node):
    return [(st, NONE)]


def lex_less(a, b):
    """lexicographic a < b over tuples of VInt, all components bounded below by 0 in b's position"""
    a = [lift(x) for x in (a if isinstance(a, (tuple, list)) else (a,))]
    b = [lift(x) for x in (b if isinstance(b, (tuple, list)) else (b,))]
    assert len(a) == len(b)
    disj = []
    for k in range(len(a)):
        eqs = [a[j].t == b[j].t for j in range(k)]
        disj.append(z3.And(*eqs, a[k].t < b[k].t, b[k].t >= 0) if eqs else z3.And(a[k].t < b[k].t, b[k].t >= 0))
    return VBool(z3.Or(*disj))
