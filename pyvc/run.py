"""Driver: ./check <ID> [--tier quick|thorough] [--replay PATH]

exit 0: every obligation discharged (possibly modulo listed known findings)
exit 1: VIOLATION property=<id> replay=<path>[ no-failing-input-found]
exit 2: UNDECIDED (an obligation undecided / a contract could not be attached / construct refused)
exit 3: checker error or vacuity failure
"""
import argparse
import importlib
import json
import multiprocessing as mp
import os
import re
import sys
import time
import traceback

import z3

from . import smt
from .contracts import Registry
from .engine import Engine
from .extract import Source, REPO
from .values import Refuse

VERIF = os.path.dirname(os.path.dirname(os.path.abspath(__file__)))
OUT = os.environ.get('PYVC_OUT', VERIF)


def load_known(prop):
    p = os.path.join(VERIF, 'known_findings.json')
    if not os.path.exists(p):
        return [], []
    d = json.load(open(p))
    return ([f for f in d.get('findings', []) if f['property'] == prop],
            [f for f in d.get('fixed', []) if f.get('property') == prop])


def _replay_child(fn, inputs, obl_name, conn, repo):
    try:
        sys.path.insert(0, repo)
        os.environ.setdefault('KLONGPY_BACKEND', 'numpy')
        import warnings
        warnings.simplefilter('ignore')
        import logging
        logging.disable(logging.CRITICAL)
        r = fn(inputs, obl_name)
        conn.send(r)
    except BaseException as e:
        conn.send({'confirmed': False, 'detail': f"replay harness error: {type(e).__name__}: {e}", 'error': True,
                   'traceback': traceback.format_exc()[-1500:]})
    finally:
        conn.close()


def run_replay(fn, inputs, obl_name, timeout_s=20):
    """run the real code under the counter-model in a separate process (it may hang: that is one of the properties)"""
    ctx = mp.get_context('fork')
    a, b = ctx.Pipe(duplex=False)
    p = ctx.Process(target=_replay_child, args=(fn, inputs, obl_name, b, REPO))
    p.start()
    b.close()
    if a.poll(timeout_s):
        try:
            r = a.recv()
        except EOFError:
            r = {'confirmed': False, 'detail': 'replay process died'}
        p.join(5)
        if p.is_alive():
            p.kill()
        return r
    p.kill()
    p.join()
    return {'confirmed': None, 'timeout': True, 'detail': f"real code did not finish within {timeout_s}s"}


def model_inputs(o):
    """concrete values of the function's symbolic inputs in the counter-model"""
    out = {}
    m = o.model or {}
    for name, term in (o.meta.get('inputs') or {}).items():
        k = term.decl().name()
        if k in m:
            out[name] = m[k]
    return out


def main(argv=None):
    ap = argparse.ArgumentParser()
    ap.add_argument('prop')
    ap.add_argument('--tier', default=os.environ.get('VERIF_TIER', 'quick'))
    ap.add_argument('--replay')
    ap.add_argument('--only', help='regex on function keys (debugging)')
    ap.add_argument('--verbose', '-v', action='store_true')
    ap.add_argument('--no-mutants', action='store_true')
    a = ap.parse_args(argv)
    prop, tier = a.prop, a.tier
    seed = int(os.environ.get('VERIF_SEED', '0') or 0)
    t0 = time.time()
    if a.replay:
        return replay_file(prop, a.replay)
    try:
        return run(prop, tier, seed, t0, a)
    except Refuse as e:
        print(f"UNDECIDED property={prop} refused: {e}")
        write_evidence(prop, tier, seed, t0, dict(obligations=0, discharged=0, explanation=f"refused: {e}"), [], status='refused')
        return 2
    except Exception:
        traceback.print_exc()
        print(f"CHECKER-ERROR property={prop}")
        return 3


def write_evidence(prop, tier, seed, t0, coverage, assumptions, status='ok', violations=0):
    os.makedirs(os.path.join(OUT, 'evidence'), exist_ok=True)
    cov = dict(coverage)
    cov.setdefault('checker_cmd', f"./check {prop} --tier {tier}")
    cov.setdefault('trusted_base', assumptions)
    cov.setdefault('samples', [])
    cov['status'] = status
    ev = dict(property_id=prop, tier=tier, seed=seed, level='proof', coverage=cov, assumptions=assumptions,
              wall_s=round(time.time() - t0, 2), violations=violations)
    with open(os.path.join(OUT, 'evidence', f'{prop}.json'), 'w') as f:
        json.dump(ev, f, indent=1, default=str)


def run(prop, tier, seed, t0, a):
    src = Source()
    reg = Registry(prop)
    sys.path.insert(0, VERIF)
    mod = importlib.import_module(f"contracts.{prop.lower()}")
    mod.build(reg, src)
    eng = Engine(src, reg)
    eng._names = set()
    if hasattr(mod, 'configure'):
        mod.configure(eng)
    keys = [k for k, c in reg.fns.items() if c.verify and not c.inline]
    if a.only:
        keys = [k for k in keys if re.search(a.only, k)]
    refused = []
    for k in keys:
        try:
            eng.verify_fn(k)
        except Refuse as e:
            refused.append((k, str(e)))
            if a.verbose:
                traceback.print_exc()
        except (KeyError, AttributeError, TypeError, IndexError, ValueError, z3.Z3Exception) as e:
            # a sidecar contract that no longer fits the code (a variable, loop or ghost cell it names is gone): undecided
            refused.append((k, f"contract could not be evaluated on this code: {type(e).__name__}: {e}"))
            if a.verbose:
                traceback.print_exc()
    # canary: `false` must NOT be provable from the property's global axiom set
    from .state import State as _State
    eng.cur_key, eng.entry_syms = f"{prop}#axioms", {}
    if eng.axioms_z3:
        eng.oblige(f"{prop}#canary.axioms-consistent", _State(), z3.BoolVal(False), kind='vacuity-neg')
    obls = eng.obligations
    import re as _re
    for pat in getattr(eng.reg, 'prefer_cvc5', []):
        for o in obls:
            if _re.search(pat, o.name) and o.meta.get('kind') != 'vacuity-neg':
                o.meta['prefer'] = 'cvc5'
    timeout = 20 if tier == 'quick' else 90     # sized so that verdicts do not flip when all cores are busy
    solver_wall = smt.discharge(obls, timeout_s=timeout, both=(tier == 'thorough'))
    # non-SMT checks (exhaustive fact validation, Lean, structural checks)
    extra = []
    for chk in reg.extra_checks:
        try:
            extra.extend(chk(dict(src=src, tier=tier, eng=eng, seed=seed)))
        except Refuse as e:
            refused.append((getattr(chk, '__name__', 'extra'), str(e)))
    findings, fixed = load_known(prop)
    regions = getattr(mod, 'REGIONS', {})

    discharged, failed, undecided, vac_fail, modulo = [], [], [], [], []
    for o in obls:
        kind = o.meta.get('kind')
        if kind == 'vacuity-neg':
            # must be satisfiable (sat): unsat means a contradictory precondition
            if o.result == 'unsat':
                vac_fail.append(o)
            continue
        if kind == 'vacuity-cover':
            vac_fail.append(o)
            continue
        if o.result == 'unsat':
            discharged.append(o)
        elif o.result == 'sat':
            failed.append(o)
        else:
            undecided.append(o)
    bounded_ok = []        # bounded stand-ins that passed: reported separately, never counted as discharged obligations
    for x in extra:
        if x['ok'] and '(bounded)' in str(x.get('backend', '')) + x['name'] and not x.get('undecided'):
            bounded_ok.append(x)
            continue
        (discharged if x['ok'] else failed).append(x) if not x.get('undecided') else undecided.append(x)

    # undecided obligations that came with a candidate model (E-matching stage): a candidate that replays on the real
    # code is a violation; one that does not stays undecided (never the other way round)
    still_und = []
    for o in undecided:
        cand = None if isinstance(o, dict) else getattr(o, 'candidate', None)
        if not isinstance(o, dict):
            # with a candidate model: replay it; without one (plain timeout): run the obligation's replay battery without inputs -
            # a concrete failing run of the real code is a violation whatever the proof status, a quiet one leaves it undecided
            o.model = cand or {}
            inputs = model_inputs(o) if cand else {}
            hit = None
            for pat, fn in reg.replays:
                if re.search(pat, o.name):
                    r = run_replay(fn, inputs, o.name, timeout_s=getattr(fn, 'timeout_s', 20))
                    if r.get('confirmed') or (r.get('timeout') and getattr(fn, 'timeout_confirms', False)):
                        hit = r
                    break
            if hit:
                o.result = 'unknown(candidate model replayed on the real code)'
                failed.append(o)
                continue
            o.model = None
        still_und.append(o)
    undecided = still_und

    # a function whose contract could not be attached to the code as it now is (construct outside the subset, new loop without
    # a contract, ...) stays UNDECIDED as far as the proof goes.  Its native replay battery is run anyway: a concrete failing
    # run of the real code is a violation whatever the proof status; a quiet battery changes nothing (still undecided).
    for k, why in list(refused):
        for pat, fn in reg.replays:
            name = f"{k}#undecided"
            if re.search(pat, name) or re.search(pat, k):
                r = run_replay(fn, {}, name, timeout_s=max(60, getattr(fn, 'timeout_s', 20)))
                if r.get('confirmed') or (r.get('timeout') and getattr(fn, 'timeout_confirms', False)):
                    failed.append(dict(name=f"{k}#undecided.replay-battery-fails", ok=False, backend='native-execution',
                                       confirmed=True, replay=dict(result=r, proof_status=f"undecided: {why}"),
                                       detail=f"proof undecided ({why}); the replay battery fails on the real code: {str(r.get('detail'))[:300]}"))
                break

    # known findings: re-discharge under "not region"
    known_lines = []
    still_failed = []
    for o in failed:
        if isinstance(o, dict):
            kf = [f for f in findings if re.search(f['obligation'], o['name']) and f.get('region') in (None, 'extra')]
            if kf:
                ln = f"KNOWN-FINDING: property={prop} {kf[0]['what']}"
                if ln not in known_lines:
                    known_lines.append(ln)
                modulo.append(o)
            else:
                still_failed.append(o)
            continue
        hit = None
        for f in findings:
            if re.search(f['obligation'], o.name) and f.get('region') in regions:
                R = regions[f['region']](o.meta.get('inputs') or {}, o)
                if R is None:
                    continue
                s = z3.Solver()
                s.set('timeout', timeout * 1000)
                s.add(*o.hyps)
                s.add(z3.Not(o.goal))
                s.add(z3.Not(R))
                if s.check() == z3.unsat:
                    hit = f
                    break
        if hit:
            line = f"KNOWN-FINDING: property={prop} {hit['what']}"
            if line not in known_lines:
                known_lines.append(line)
            modulo.append(o)
        else:
            still_failed.append(o)
    failed = still_failed

    nvac = sum(1 for o in obls if o.meta.get('kind') in ('vacuity-neg',))
    def _is_bounded(o):
        return isinstance(o, dict) and '(bounded)' in str(o.get('backend', '')) + o['name']
    bounded_known = [o for o in modulo if _is_bounded(o)]
    modulo = [o for o in modulo if not _is_bounded(o)]
    n_obl = len(discharged) + len([o for o in failed if not _is_bounded(o)]) + len(undecided) + len(modulo)
    by_backend = {}
    for o in discharged:
        b = o['backend'] if isinstance(o, dict) else o.backend
        by_backend[b] = by_backend.get(b, 0) + 1
    samples = []
    for o in discharged[:3] + discharged[len(discharged) // 2: len(discharged) // 2 + 2]:
        if isinstance(o, dict):
            samples.append(dict(obligation=o['name'], backend=o['backend'], detail=str(o.get('detail', ''))[:300]))
        else:
            samples.append(dict(obligation=o.name, kind=o.meta.get('kind'), hyps=[str(h)[:200] for h in o.hyps[-6:]],
                                goal=str(o.goal)[:400], backend=o.backend, result=o.result))
    anchors_rel = sorted({k.split('::')[0] for k in reg.fns})
    under = sorted(eng.verified)
    not_under = []
    for rel in anchors_rel:
        for q in src.functions_in(rel):
            kk = f"{rel}::{q}"
            if kk not in reg.fns:
                not_under.append(kk)
    assumptions = list(reg.assumptions)
    assumptions += [f"assumed external contract: {x}" for x in sorted(eng.used_externals)]
    assumptions += [f"assumed terminating/frame-neutral callee (may raise): {x}" for x in sorted(eng.used_assumed)]
    assumptions += [f"contract assumed, body not verified: {k}" for k, c in reg.fns.items() if not c.verify and k in eng.callees]
    assumptions += ["Python ints are mathematical integers (exact)", "the ast of a function denotes CPython's execution of it for the accepted subset (pyvc encoding, DESIGN 2.3)",
                    "operations on opaque operands may raise any Exception subclass; BaseException-only exits (KeyboardInterrupt) not modelled"]
    cov = dict(obligations=n_obl, discharged=len(discharged) + len(modulo), discharged_modulo_known_findings=len(modulo),
               failed=len(failed), undecided=len(undecided), by_backend=by_backend,
               solver_time_s=round(sum(o.time for o in obls), 2), solver_wall_s=round(solver_wall, 2),
               vacuity_checks=nvac, vacuity_failures=len(vac_fail), feasibility_queries=eng.stats['feasibility_queries'],
               functions_under_contract={k: eng.verified[k] for k in under},
               functions_inlined_at_call_sites=sorted(x for x in eng.inlined if x),
               functions_in_anchor_not_under_contract=not_under,
               bounded_standins=reg.bounded + [dict(check=x['name'], tool=x.get('backend'), result='held on everything enumerated',
                                                    bound=str(x.get('detail', ''))[:200]) for x in bounded_ok],
               bounded_standins_known_findings=[dict(check=x['name'], detail=str(x.get('detail'))[:300]) for x in bounded_known],
               bounded_standins_note="bounded stand-ins are labelled, affect the exit status when they fail, and are NOT counted in obligations/discharged",
               samples=samples, refused=refused,
               repo=REPO, loops_without_variant=sorted(set(getattr(eng, 'nonterm_loops', []))))
    status = 'ok'
    rc = 0
    for ln in known_lines:
        print(ln)
    if vac_fail:
        for o in vac_fail:
            print(f"VACUITY-FAILURE {o.name}")
        status, rc = 'vacuity-failure', 3
    if n_obl == 0:
        print("VACUITY-FAILURE zero obligations")
        status, rc = 'vacuity-failure', 3
    if refused:
        for k, why in refused:
            print(f"UNDECIDED property={prop} {k}: refused: {why}")
        if rc == 0:
            status, rc = 'refused', 2
    if undecided and rc == 0:
        for o in undecided[:10]:
            nm = o['name'] if isinstance(o, dict) else o.name
            print(f"UNDECIDED property={prop} obligation={nm} {'' if isinstance(o, dict) else getattr(o, 'why', '')}")
        status, rc = 'undecided', 2
    elif undecided:
        for o in undecided[:10]:
            nm = o['name'] if isinstance(o, dict) else o.name
            print(f"UNDECIDED property={prop} obligation={nm}")
    viol = 0
    import shutil
    shutil.rmtree(os.path.join(OUT, 'out', prop), ignore_errors=True)      # replay files of earlier runs are stale
    if failed:
        os.makedirs(os.path.join(OUT, 'out', prop), exist_ok=True)
        for o in failed:
            viol += 1
            rc = 1
            status = 'violation'
            report_violation(prop, o, reg, mod)
    write_evidence(prop, tier, seed, t0, cov, assumptions, status=status, violations=viol)
    if a.verbose:
        for o in undecided:
            if not isinstance(o, dict):
                print(f"  undecided {o.name}\n     trail={o.meta.get('trail')}\n     goal={str(o.goal)[:600]}")
        for o in sorted(obls, key=lambda o: -o.time)[:12]:
            if o.time > 2:
                print(f"  slow {o.time:6.1f}s {o.result:8} {o.name}")
    if a.verbose or rc != 0:
        print(f"[{prop}] obligations={n_obl} discharged={len(discharged)} modulo-known={len(modulo)} failed={len(failed)} "
              f"undecided={len(undecided)} refused={len(refused)} functions={len(under)} solver={cov['solver_time_s']}s")
    else:
        print(f"[{prop}] OK obligations={n_obl} discharged={len(discharged) + len(modulo)} (modulo known findings: {len(modulo)}) "
              f"functions={len(under)} backends={by_backend} wall={round(time.time() - t0, 1)}s")
    if tier == 'thorough' and rc == 0 and not a.only:
        rc = thorough_extras(prop, reg, under, a, t0)
    return rc


def thorough_extras(prop, reg, under, a, t0):
    """thorough tier, after every obligation was discharged by both solvers:
    (1) every native replay battery of the property is run once on the real code without a counter-model (a bounded search for a
        failing input; a hit is a violation with a concrete input);
    (2) the mutant battery of the property is run on scratch copies: the share of property-breaking mutants the check reports and
        the harmless rewrites it stays quiet on are written to the evidence file (a surviving mutant is a weakness of the check,
        not a violation of the property: it is reported, the exit status stays 0)."""
    rc = 0
    extras = dict(proactive_replays=[], mutants=[])
    seen = set()
    os.makedirs(os.path.join(OUT, 'out', prop), exist_ok=True)
    for pat, fn in reg.replays:
        if id(fn) in seen:
            continue
        seen.add(id(fn))
        target = next((k for k in under if re.search(pat, k) or re.search(pat, k + '#post0')), None)
        name = (target or pat) + '#proactive'
        r = run_replay(fn, {}, name, timeout_s=max(120, getattr(fn, 'timeout_s', 20)))
        hit = bool(r.get('confirmed')) and not r.get('error')
        extras['proactive_replays'].append(dict(battery=getattr(fn, '__name__', str(fn)), as_obligation=name, failing_input_found=hit,
                                                detail=str(r.get('detail'))[:400]))
        if hit and getattr(fn, 'demonstrates_known_finding', None):
            # a battery that exists to demonstrate a RECORDED finding (known_findings.json): its hit is that finding, not a new violation
            kf = [f for f in load_known(prop)[0] if re.search(fn.demonstrates_known_finding, f['obligation'])]
            if kf:
                print(f"KNOWN-FINDING: property={prop} {kf[0]['what']}")
                extras['proactive_replays'][-1]['known_finding'] = True
                continue
        if hit:
            path = os.path.join(OUT, 'out', prop, safe_name(f"replay-battery_{getattr(fn, '__name__', 'fn')}") + '.json')
            json.dump(dict(property=prop, obligation=name, kind='proactive replay battery', result=r), open(path, 'w'), indent=1, default=str)
            print(f"VIOLATION property={prop} replay={path}")
            print(f"  replay battery {getattr(fn, '__name__', fn)}: {str(r.get('detail'))[:300]}")
            rc = 1
    if not a.no_mutants and not os.environ.get('PYVC_REPO'):
        from . import mutants as _m
        budget = float(os.environ.get('VERIF_THOROUGH_MUTANT_BUDGET_S', '1500'))     # stop starting new mutants after this long
        for r in _m.battery(prop, jobs=3, deadline=time.time() + budget):
            extras['mutants'].append({k: r.get(k) for k in ('name', 'ok', 'rc', 'expect', 'violations', 'confirmed', 'why')})
            if r.get('skipped'):
                continue
            if not r['ok']:
                print(f"SELF-CHECK property={prop} mutant {r['name']}: expected {r.get('expect')}, check exit {r.get('rc')} {r.get('why', '')}")
    p = os.path.join(OUT, 'evidence', f'{prop}.json')
    try:
        ev = json.load(open(p))
        not_run = [m for m in extras['mutants'] if str(m.get('why') or '').startswith('not run')]
        ms = [m for m in extras['mutants'] if m not in not_run]
        extras['mutants_not_run_time_budget'] = len(not_run)
        breaking = [m for m in ms if m.get('expect') in (None, 'violation', 'undecided-or-violation')]
        extras['summary'] = dict(replay_batteries=len(extras['proactive_replays']), failing_inputs_found=sum(1 for x in extras['proactive_replays'] if x['failing_input_found']),
                                 mutants=len(ms), breaking_mutants=len(breaking), breaking_mutants_reported=sum(1 for m in breaking if m['ok']),
                                 harmless_rewrites=len(ms) - len(breaking), harmless_rewrites_quiet=sum(1 for m in ms if m not in breaking and m['ok']))
        ev['coverage']['thorough'] = extras
        ev['wall_s'] = round(time.time() - t0, 2)
        if rc:
            ev['violations'] = ev.get('violations', 0) + 1
            ev['coverage']['status'] = 'violation'
        json.dump(ev, open(p, 'w'), indent=1, default=str)
        print(f"[{prop}] thorough: {extras['summary']}")
    except Exception as e:
        print(f"[{prop}] thorough extras could not be added to the evidence: {e}")
    return rc


def safe_name(s):
    return re.sub(r'[^A-Za-z0-9_.#-]+', '_', s)[:150]


def report_violation(prop, o, reg, mod):
    if isinstance(o, dict):
        name = o['name']
        path = os.path.join(OUT, 'out', prop, safe_name(name) + '.json')
        rec = dict(property=prop, obligation=name, kind='non-smt check', detail=o.get('detail'), replay=o.get('replay'),
                   confirmed_on_real_code=o.get('confirmed', False))
        json.dump(rec, open(path, 'w'), indent=1, default=str)
        tail = '' if o.get('confirmed') else ' no-failing-input-found'
        print(f"VIOLATION property={prop} replay={path}{tail}")
        print(f"  obligation {name}: {str(o.get('detail'))[:300]}")
        return
    inputs = model_inputs(o)
    confirmed = None
    detail = None
    tried = []
    for pat, fn in reg.replays:
        if re.search(pat, o.name):
            cands = [inputs]
            alt = getattr(fn, 'alternatives', None)
            if alt:
                cands += list(alt(inputs, o))
            for cand in cands[:40]:
                r = run_replay(fn, cand, o.name, timeout_s=getattr(fn, 'timeout_s', 20))
                tried.append(dict(inputs=cand, result=r))
                if r.get('confirmed') or (r.get('timeout') and getattr(fn, 'timeout_confirms', False)):
                    confirmed, detail = cand, r
                    break
            break
    path = os.path.join(OUT, 'out', prop, safe_name(o.name) + '.json')
    rec = dict(property=prop, obligation=o.name, kind=o.meta.get('kind'), function=o.meta.get('fn'),
               solver=o.backend, solver_result=o.result, solver_model=o.model, model_inputs=inputs,
               path_trail=o.meta.get('trail'), goal=str(o.goal)[:2000], hyps=[str(h)[:500] for h in o.hyps[-25:]],
               confirmed_on_real_code=bool(confirmed is not None), confirmed_inputs=confirmed, replay_result=detail,
               replays_tried=tried[:10], rerun=f"./check {prop} --replay {path}", repo=REPO)
    json.dump(rec, open(path, 'w'), indent=1, default=str)
    tail = '' if confirmed is not None else ' no-failing-input-found'
    print(f"VIOLATION property={prop} replay={path}{tail}")
    print(f"  obligation {o.name} inputs={inputs} {('real code: ' + str(detail.get('detail'))[:300]) if detail else ''}")


def replay_file(prop, path):
    rec = json.load(open(path))
    src = Source()
    reg = Registry(prop)
    sys.path.insert(0, VERIF)
    mod = importlib.import_module(f"contracts.{prop.lower()}")
    mod.build(reg, src)
    inputs = rec.get('confirmed_inputs') or rec.get('model_inputs') or {}
    for pat, fn in reg.replays:
        if re.search(pat, rec['obligation']):
            r = run_replay(fn, inputs, rec['obligation'], timeout_s=getattr(fn, 'timeout_s', 20))
            print(json.dumps(dict(obligation=rec['obligation'], inputs=inputs, result=r), indent=1, default=str))
            bad = r.get('confirmed') or (r.get('timeout') and getattr(fn, 'timeout_confirms', False))
            if bad:
                print(f"VIOLATION property={prop} replay={path}")
                return 1
            return 0
    print(f"no replay harness for {rec['obligation']}; solver output is in the file")
    return 0


if __name__ == '__main__':
    sys.exit(main())
