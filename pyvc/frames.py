"""Frame conditions by ownership typing (C04).

For every function under a frame contract the real AST is interpreted over an abstract domain of *may-alias labels*:
    'p'   the object passed as parameter p            'p*'  an object reachable from inside p (a member, a nested list)
An abstract value has `outer` (what the object itself may be) and `deep` (what its members may be); the empty set means
"allocated in this invocation, or immutable".  Views share memory with their base (a slice keeps `outer`), an index steps
inside (`outer := deep`), shallow copies keep `deep`, unknown calls return something that may alias every argument.
The analysis is flow-sensitive, joins at branches, iterates loops to a fixpoint, and is *modular*: a call to a function
of the repository uses that function's summary (which parameters it writes, what its result may alias), never its body.

Obligations (one per write site, named `<file>::<function>#frame.<kind>[<ordinal>]`):
    the object written (`X[...] = v`, `del X[...]`, `X.attr = v`, `X op= v`, `X.append/sort/...()`, `numpy.put(X, ...)`,
    `out=X`, or passing X for a parameter the callee's summary writes) may not alias an operand of the function, unless the
    function's contract allows exactly that write (a documented in-place dictionary update guarded by a dictionary test on
    that operand, a memo field, a declared `mutates` parameter - the latter becomes an obligation at every call site).
Sound for the accepted subset under the stated allocation contracts of NumPy/builtins; it is a typing argument, no solver.
"""
import ast

E = frozenset()

MODULES = {'np', 'numpy', 'bknp', 'np_backend', 'np_mod', 'backend', 'math', 'functools', 'itertools', 'copy', 'operator',
           'torch', 'sys', 'os', 're', 'time', 'inspect', 'weakref', 'core', 'types'}

# result allocated by the call; members shared with the arguments (shallow copy)
FRESH_SHALLOW = {'array', 'copy', 'clone', 'tensor', 'tile', 'concatenate', 'resize', 'append', 'full', 'stack', 'hstack', 'vstack', 'take',
                 'delete', 'insert', 'roll', 'repeat', 'tolist', 'astype', 'flatten', 'list', 'tuple', 'sorted', 'dict', 'set',
                 'frozenset', 'fromiter', 'choose', 'compress', 'unique', 'partition', 'filter', 'map', 'zip', 'enumerate',
                 'reversed', 'iter', 'items', 'values', 'keys', 'full_like', 'kg_asarray_copy', 'accumulate', 'chain'}
# result allocated by the call and sharing nothing mutable with the arguments
FRESH_DEEP = {'deepcopy', 'str_to_chr_arr', 'join', 'format', 'split', 'rjust', 'ljust', 'replace', 'strip', 'lower', 'upper',
              'ones', 'zeros', 'empty', 'arange', 'zeros_like', 'ones_like', 'empty_like', 'where', 'nonzero', 'argsort', 'argwhere', 'isin', 'cumsum', 'cumprod',
              'str', 'repr', 'int', 'float', 'bool', 'len', 'abs', 'isinstance', 'issubclass', 'hasattr', 'range', 'ord', 'chr',
              'array_size', 'prod', 'sum', 'any', 'all', 'isarray', 'is_list', 'is_dict', 'is_empty', 'is_iterable', 'is_atom',
              'is_float', 'is_integer', 'is_number', 'is_char', 'is_symbolic', 'in_map', 'has_none', 'safe_eq', 'kg_truth',
              'get_dtype_kind', 'floor', 'ceil', 'sqrt', 'type', 'id', 'hash', 'callable', 'round', 'divmod', 'pow',
              'add', 'subtract', 'multiply', 'divide', 'negative', 'maximum', 'minimum', 'power', 'equal', 'less', 'greater',
              'mod', 'remainder', 'floor_divide', 'true_divide', 'logical_and', 'logical_or', 'logical_not', 'isclose',
              'array_equal', 'count_nonzero', 'argmax', 'argmin', 'find', 'index', 'count', 'startswith', 'endswith',
              'isnumeric', 'isdigit', 'isalpha', 'encode', 'decode', 'linspace', 'eye', 'identity', 'KGSym', 'KGChar',
              'RangeError', 'RuntimeError', 'KlongException', 'ValueError', 'TypeError', 'IndexError', 'KeyError'}
# result may be the argument itself / a view of it
ALIAS = {'asarray', 'from_numpy', 'as_tensor', 'kg_asarray', 'reshape', 'ravel', 'squeeze', 'transpose', 'view', 'to_numpy', 'swapaxes', 'atleast_1d',
         'atleast_2d', 'flip', 'expand_dims', 'asanyarray', 'ascontiguousarray', 'get', 'item', 'pop', 'setdefault',
         'array_split', 'hsplit', 'vsplit', 'moveaxis', 'broadcast_to', 'diagonal', 'real', 'imag', 'next', 'getattr',
         'cast', 'detach', 'cpu', 'numpy', 'contiguous'}
# methods that may return their receiver or a tensor sharing its storage
METHOD_ALIAS = {'float', 'double', 'half', 'long', 'int', 'to', 'detach', 'cpu', 'cuda', 'contiguous', 'type', 'view_as', 'expand_as', 'data_ptr', 'numpy'}
# methods that write the receiver in place
MUT_METHODS = {'append', 'extend', 'sort', 'put', 'fill', 'resize', 'pop', 'insert', 'remove', 'clear', 'update', 'setdefault',
               'reverse', 'itemset', 'popitem', 'add', 'discard', 'setfield', 'partition', 'byteswap', '__setitem__',
               '__delitem__', 'index_put_', 'copy_', 'fill_', 'add_', 'mul_', 'sub_', 'div_', 'zero_', 'setflags'}
# module-level functions that write their first argument in place
MUT_FUNCS = {'put', 'copyto', 'place', 'putmask', 'put_along_axis', 'fill_diagonal', 'shuffle', 'setitem', 'delitem',
             'setattr', 'delattr', 'heappush', 'heappop', 'heapify', 'insort'}


class AV:
    __slots__ = ('outer', 'deep', 'items')

    def __init__(self, outer=E, deep=E, items=None):
        self.outer, self.deep, self.items = frozenset(outer), frozenset(deep), items

    def all(self):
        s = self.outer | self.deep
        for x in self.items or ():
            s |= x.all()
        return s

    def flat(self):
        """forget the tuple structure"""
        if not self.items:
            return AV(self.outer, self.deep)
        d = self.deep
        for x in self.items:
            d |= x.all()
        return AV(self.outer, d)

    def join(self, o):
        if self.items is not None and o.items is not None and len(self.items) == len(o.items):
            return AV(self.outer | o.outer, self.deep | o.deep, [a.join(b) for a, b in zip(self.items, o.items)])
        a, b = self.flat(), o.flat()
        return AV(a.outer | b.outer, a.deep | b.deep)

    def member(self):
        """an element / attribute of this object"""
        f = self.flat()
        return AV(f.deep, f.deep)

    def key(self):
        return (self.outer, self.deep, tuple(x.key() for x in self.items) if self.items is not None else None)

    def __repr__(self):
        return f"AV(outer={sorted(self.outer)}, deep={sorted(self.deep)}{', items=' + repr(self.items) if self.items else ''})"


FRESH = AV()


def join_env(a, b):
    out = {}
    for k in set(a) | set(b):
        if k in a and k in b:
            out[k] = a[k].join(b[k])
        else:
            out[k] = a.get(k) or b.get(k)       # unbound on one side: the other side's value (reads would fail there)
    return out


def env_key(env):
    return tuple(sorted((k, v.key()) for k, v in env.items()))


def is_operand_label(l):
    return not l.startswith('@')


class Site:
    def __init__(self, fn_key, kind, node, labels, text, allowed=None):
        self.fn_key, self.kind, self.node, self.labels, self.text, self.allowed = fn_key, kind, node, labels, text, allowed
        self.ordinal = None

    @property
    def ok(self):
        return not self.labels or self.allowed is not None


class Summary:
    def __init__(self, params):
        self.params = params
        self.mutates = set()        # labels 'p' / 'p*' written by the function (through its own parameters)
        self.ret = None             # AV over the parameters' labels (None: does not return a value yet)
        self.sites = []
        self.unknown_calls = set()
        self.field_stores = []      # (attr, node, AV, names known to be dicts there): `self.attr = v` on a non-operand receiver

    def key(self):
        return (frozenset(self.mutates), self.ret.key() if self.ret else None)


class FrameAnalysis:
    def __init__(self, src, contracts=None, non_operands=('self', 'klong', 'backend', 'np_backend', 'cls')):
        self.src = src
        self.contracts = contracts or {}
        self.non_operands = set(non_operands)
        self.summaries = {}
        self.in_progress = set()
        self.name_index = {}
        for rel, fns in src.module_funcs.items():
            for n in fns:
                self.name_index.setdefault(n, []).append(f"{rel}::{n}")

    # ---------------------------------------------------------------- summaries
    def summary(self, key):
        if key in self.summaries and key not in self.in_progress:
            return self.summaries[key]
        if key in self.in_progress:
            return self.summaries.get(key)          # recursive call: the current approximation (None = bottom)
        node = self.src.find(key)
        if node is None:
            return None
        self.in_progress.add(key)
        prev = None
        for _ in range(6):                          # fixpoint over recursion
            s = self.analyse(key, node)
            self.summaries[key] = s
            if prev is not None and prev == s.key():
                break
            prev = s.key()
        self.in_progress.discard(key)
        return self.summaries[key]

    def analyse(self, key, node, closure_env=None):
        a = node.args
        params = [x.arg for x in a.posonlyargs + a.args + a.kwonlyargs] + ([a.vararg.arg] if a.vararg else []) + ([a.kwarg.arg] if a.kwarg else [])
        s = Summary(params)
        env = dict(closure_env or {})
        contract = self.contracts.get(key, {})
        for p in params:
            if p in self.non_operands or p in contract.get('non_operands', ()):
                env[p] = AV({'@' + p}, {'@' + p})
            else:
                env[p] = AV({p}, {p + '*'})
        w = _Walker(self, key, s, contract, node)
        w.block(node.body, env)
        for i, site in enumerate(s.sites):
            site.ordinal = i
        return s

    def resolve(self, key, call):
        """callee key for a call inside function `key`, or None"""
        f = call.func
        rel = key.split('::')[0]
        if isinstance(f, ast.Name):
            if f.id in self.src.module_funcs.get(rel, {}):
                return f"{rel}::{f.id}"
            c = self.name_index.get(f.id, [])
            if len(c) == 1:
                return c[0]
            return None
        if isinstance(f, ast.Attribute) and isinstance(f.value, ast.Name) and f.value.id == 'self':
            qual = key.split('::')[1]
            if '.' in qual:
                cls = qual.split('.')[0]
                k, m = self.src.method(cls, f.attr)
                if m is not None:
                    return k
        return None


class _Walker:
    def __init__(self, fa, key, summ, contract, fnode):
        self.fa, self.key, self.s, self.contract, self.fnode = fa, key, summ, contract, fnode
        self.dict_guarded = set()
        self.seen_sites = {}

    # -------------------------------------------------------------- sites
    def site(self, kind, node, av, root_name=None, attr=None):
        labels = frozenset(l for l in av.flat().outer if is_operand_label(l))
        allowed = None
        c = self.contract
        if labels:
            if attr is not None and attr in c.get('memo_attrs', ()):
                allowed = f"memo field .{attr}"
            elif root_name is not None and root_name in c.get('inplace_dict', ()) and root_name in self.dict_guarded \
                    and labels == {root_name} and kind in ('store', 'del'):
                allowed = f"documented in-place update of the dictionary operand {root_name} (guarded by a dictionary test)"
            elif all(l.rstrip('*') in c.get('mutates', ()) and not l.endswith('*') for l in labels):
                allowed = f"declared `mutates {sorted(labels)}`: an obligation at every call site"
                self.s.mutates |= labels
            else:
                self.s.mutates |= labels
        k = (node.lineno, node.col_offset, kind)
        st = Site(self.key, kind, node, labels, ast.unparse(node)[:120], allowed)
        if k in self.seen_sites:            # loops are re-walked: keep the join
            old = self.seen_sites[k]
            old.labels = old.labels | labels
            if allowed is None and labels:
                old.allowed = None
            return
        self.seen_sites[k] = st
        self.s.sites.append(st)

    # -------------------------------------------------------------- statements
    def block(self, stmts, env):
        for st in stmts:
            env = self.stmt(st, env)
        return env

    def stmt(self, st, env):
        m = getattr(self, 'st_' + type(st).__name__, None)
        if m is None:
            for e in ast.walk(st):
                if isinstance(e, ast.expr):
                    pass
            return env
        return m(st, env)

    def st_Expr(self, st, env):
        self.ev(st.value, env)
        return env

    def st_Pass(self, st, env):
        return env
    st_Break = st_Continue = st_Import = st_ImportFrom = st_Global = st_Nonlocal = st_Pass

    def st_Assert(self, st, env):
        self.ev(st.test, env)
        return env

    def st_Raise(self, st, env):
        if st.exc is not None:
            self.ev(st.exc, env)
        return env

    def st_Return(self, st, env):
        v = self.ev(st.value, env) if st.value is not None else FRESH
        self.s.ret = v if self.s.ret is None else self.s.ret.join(v)
        return env

    def st_Assign(self, st, env):
        v = self.ev(st.value, env)
        env = dict(env)
        for t in st.targets:
            self.assign(t, v, env, st)
        return env

    def st_AnnAssign(self, st, env):
        if st.value is None:
            return env
        v = self.ev(st.value, env)
        env = dict(env)
        self.assign(st.target, v, env, st)
        return env

    def st_AugAssign(self, st, env):
        v = self.ev(st.value, env)
        env = dict(env)
        t = st.target
        if isinstance(t, ast.Name):
            cur = env.get(t.id, FRESH)
            self.site('augassign', st, cur, root_name=t.id)        # X op= v updates an array/list in place
            env[t.id] = cur.join(AV(E, v.all()))
        else:
            self.assign(t, v, env, st)
        return env

    def st_Delete(self, st, env):
        env = dict(env)
        for t in st.targets:
            if isinstance(t, ast.Name):
                env.pop(t.id, None)
            elif isinstance(t, ast.Subscript):
                self.site('del', st, self.ev(t.value, env), root_name=self.root(t.value))
            elif isinstance(t, ast.Attribute):
                self.site('del', st, self.ev(t.value, env), root_name=self.root(t.value), attr=t.attr)
        return env

    def assign(self, t, v, env, st):
        if isinstance(t, ast.Name):
            env[t.id] = v
            self.dict_guarded.discard(t.id)
        elif isinstance(t, (ast.Tuple, ast.List)):
            if v.items is not None and len(v.items) == len(t.elts) and not any(isinstance(x, ast.Starred) for x in t.elts):
                for x, xv in zip(t.elts, v.items):
                    self.assign(x, xv, env, st)
            else:
                m = v.member()
                for x in t.elts:
                    self.assign(x.value if isinstance(x, ast.Starred) else x, m, env, st)
        elif isinstance(t, ast.Subscript):
            base = self.ev(t.value, env)
            self.ev(t.slice, env)
            self.site('store', st, base, root_name=self.root(t.value))
            self.deepen(t.value, v, env)
        elif isinstance(t, ast.Attribute):
            base = self.ev(t.value, env)
            self.site('store', st, base, root_name=self.root(t.value), attr=t.attr)
            if isinstance(t.value, ast.Name) and base.all() and not any(is_operand_label(l) for l in base.all()):
                env[f"{t.value.id}.{t.attr}"] = v
                if not any(x[1] is st and x[0] == t.attr for x in self.s.field_stores):
                    self.s.field_stores.append((t.attr, st, v, frozenset(self.dict_guarded)))
            else:
                self.deepen(t.value, v, env)
        elif isinstance(t, ast.Starred):
            self.assign(t.value, v, env, st)

    def deepen(self, target_base, v, env):
        """storing v inside X: X's members may now alias v"""
        if isinstance(target_base, ast.Attribute) and isinstance(target_base.value, ast.Name):
            b = env.get(target_base.value.id)
            if b is not None and b.all() and not any(is_operand_label(l) for l in b.all()):
                k = f"{target_base.value.id}.{target_base.attr}"
                cur = env.get(k, AV({'@' + k}, {'@' + k})).flat()
                env[k] = AV(cur.outer, cur.deep | v.all())
                return
        r = self.root(target_base)
        if r is not None and r in env:
            cur = env[r].flat()
            env[r] = AV(cur.outer, cur.deep | v.all())

    def root(self, e):
        while isinstance(e, (ast.Subscript, ast.Attribute)):
            e = e.value
        return e.id if isinstance(e, ast.Name) else None

    def guards(self, test):
        """names known to be dictionaries when `test` is true"""
        out = set()
        conj = test.values if isinstance(test, ast.BoolOp) and isinstance(test.op, ast.And) else [test]
        for c in conj:
            if isinstance(c, ast.Call) and isinstance(c.func, ast.Name) and c.args and isinstance(c.args[0], ast.Name):
                if c.func.id == 'is_dict' and len(c.args) == 1:
                    out.add(c.args[0].id)
                if c.func.id == 'isinstance' and len(c.args) == 2 and isinstance(c.args[1], ast.Name) and c.args[1].id == 'dict':
                    out.add(c.args[0].id)
        return out

    def st_If(self, st, env):
        self.ev(st.test, env)
        saved = set(self.dict_guarded)
        self.dict_guarded |= self.guards(st.test)
        a = self.block(st.body, dict(env))
        self.dict_guarded = set(saved)
        b = self.block(st.orelse, dict(env))
        self.dict_guarded = saved
        return join_env(a, b)

    def loop(self, body, env, pre=None):
        cur = env
        for _ in range(12):
            e2 = dict(cur)
            if pre:
                pre(e2)
            out = self.block(body, e2)
            nxt = join_env(cur, out)
            if env_key(nxt) == env_key(cur):
                break
            cur = nxt
        return cur

    def st_While(self, st, env):
        self.ev(st.test, env)
        out = self.loop(st.body, env, pre=lambda e: self.ev(st.test, e))
        return self.block(st.orelse, out)

    def st_For(self, st, env):
        it = self.ev(st.iter, env)

        def pre(e):
            self.assign(st.target, it.member(), e, st)
        out = self.loop(st.body, env, pre=pre)
        return self.block(st.orelse, out)
    st_AsyncFor = st_For

    def st_With(self, st, env):
        env = dict(env)
        for it in st.items:
            v = self.ev(it.context_expr, env)
            if it.optional_vars is not None:
                self.assign(it.optional_vars, v, env, st)
        return self.block(st.body, env)
    st_AsyncWith = st_With

    def st_Try(self, st, env):
        body = self.block(st.body, dict(env))
        mid = join_env(env, body)                     # an exception may leave the body anywhere
        outs = [self.block(st.orelse, dict(body))]
        for h in st.handlers:
            e2 = dict(mid)
            if h.name:
                e2[h.name] = FRESH
            outs.append(self.block(h.body, e2))
        res = outs[0]
        for o in outs[1:]:
            res = join_env(res, o)
        if st.finalbody:
            res = self.block(st.finalbody, join_env(res, mid))
        return res

    def st_FunctionDef(self, st, env):
        # a closure: analysed with the enclosing bindings joined over the whole enclosing function (flow-insensitive capture)
        cap = self.capture_env(env)
        sub = self.fa.analyse(self.key + '.' + st.name, st, closure_env=cap)
        for site in sub.sites:
            site.fn_key = self.key + '.' + st.name
            self.s.sites.append(site)
        self.s.mutates |= {l for l in sub.mutates if l.rstrip('*') in self.s.params}
        env = dict(env)
        env[st.name] = AV(E, (sub.ret.all() if sub.ret else E))
        return env
    st_AsyncFunctionDef = st_FunctionDef

    def capture_env(self, env):
        cap = dict(env)
        for n in ast.walk(self.fnode):
            if isinstance(n, ast.Name) and isinstance(n.ctx, ast.Store) and n.id not in cap:
                cap[n.id] = AV({'@late:' + n.id}, {'@late:' + n.id})
        # names rebound later in the enclosing function: join of every value they may take is not known yet -> all operands
        rebound = {}
        for n in ast.walk(self.fnode):
            if isinstance(n, (ast.Assign, ast.AugAssign, ast.For)):
                for t in ast.walk(n.targets[0] if isinstance(n, ast.Assign) else n.target):
                    if isinstance(t, ast.Name) and isinstance(t.ctx, ast.Store):
                        rebound[t.id] = rebound.get(t.id, 0) + 1
        everything = AV(frozenset(), frozenset())
        for p in self.s.params:
            if p in env:
                everything = everything.join(env[p].flat())
        for k, c in rebound.items():
            if k in cap and c >= 1 and k in env:
                cap[k] = cap[k].join(everything) if c > 1 else cap[k]
        return cap

    def st_ClassDef(self, st, env):
        return env

    def st_Match(self, st, env):
        raise NotImplementedError("match statement")

    # -------------------------------------------------------------- expressions
    def ev(self, e, env):
        if e is None:
            return FRESH
        m = getattr(self, 'ev_' + type(e).__name__, None)
        if m is None:
            out = FRESH
            for c in ast.iter_child_nodes(e):
                if isinstance(c, ast.expr):
                    out = out.join(self.ev(c, env).flat())
            return AV(E, out.all())
        return m(e, env)

    def ev_Constant(self, e, env):
        return FRESH

    def ev_JoinedStr(self, e, env):
        for v in e.values:
            if isinstance(v, ast.FormattedValue):
                self.ev(v.value, env)
        return FRESH

    def ev_Name(self, e, env):
        if e.id in env:
            return env[e.id]
        if e.id in MODULES or e.id in ('True', 'False', 'None'):
            return FRESH
        return AV({'@global:' + e.id}, {'@global:' + e.id})

    def ev_Tuple(self, e, env):
        items = [self.ev(x.value if isinstance(x, ast.Starred) else x, env) for x in e.elts]
        if any(isinstance(x, ast.Starred) for x in e.elts):
            d = E
            for x, v in zip(e.elts, items):
                d |= v.flat().deep if isinstance(x, ast.Starred) else v.all()
            return AV(E, d)
        return AV(E, E, items)

    def ev_List(self, e, env):
        d = E
        for x in e.elts:
            v = self.ev(x.value if isinstance(x, ast.Starred) else x, env)
            d |= v.flat().deep if isinstance(x, ast.Starred) else v.all()
        return AV(E, d)
    ev_Set = ev_List

    def ev_Dict(self, e, env):
        d = E
        for k, v in zip(e.keys, e.values):
            if k is not None:
                d |= self.ev(k, env).all()
            d |= self.ev(v, env).all()
        return AV(E, d)

    def ev_BinOp(self, e, env):
        a, b = self.ev(e.left, env), self.ev(e.right, env)
        return AV(E, a.flat().deep | b.flat().deep)          # a new array / list / number; list + list shares members

    def ev_UnaryOp(self, e, env):
        self.ev(e.operand, env)
        return FRESH

    def ev_Compare(self, e, env):
        self.ev(e.left, env)
        for c in e.comparators:
            self.ev(c, env)
        return FRESH

    def ev_BoolOp(self, e, env):
        out = None
        for v in e.values:
            x = self.ev(v, env)
            out = x if out is None else out.join(x)
        return out

    def ev_IfExp(self, e, env):
        self.ev(e.test, env)
        return self.ev(e.body, env).join(self.ev(e.orelse, env))

    def ev_NamedExpr(self, e, env):
        v = self.ev(e.value, env)
        env[e.target.id] = v
        return v

    def ev_Subscript(self, e, env):
        base = self.ev(e.value, env)
        if isinstance(e.slice, ast.Slice):
            for x in (e.slice.lower, e.slice.upper, e.slice.step):
                self.ev(x, env)
            f = base.flat()
            return AV(f.outer, f.deep)                        # a view shares memory with its base
        idx = self.ev(e.slice, env)
        if base.items is not None and isinstance(e.slice, ast.Constant) and isinstance(e.slice.value, int) \
                and -len(base.items) <= e.slice.value < len(base.items):
            return base.items[e.slice.value]
        f = base.flat()
        # an index yields a member - or, for advanced indexing with an array, a copy; for a 2-d array a row VIEW: keep outer too
        return AV(f.deep | (f.outer if self.fa.rows_are_views else E), f.deep)

    def ev_Attribute(self, e, env):
        if isinstance(e.value, ast.Name) and e.value.id in MODULES and e.value.id not in env:
            return FRESH
        base = self.ev(e.value, env)
        if isinstance(e.value, ast.Name) and base.all() and not any(is_operand_label(l) for l in base.all()):
            # a field of the interpreter / backend object: its own storage, tracked per field within this invocation
            k = f"{e.value.id}.{e.attr}"
            return env.get(k, AV({'@' + k}, {'@' + k}))
        if e.attr in ('shape', 'ndim', 'size', 'dtype', 'arity', 'itemsize', 'nbytes'):
            return FRESH
        if e.attr in ('T', 'flat', 'real', 'imag', 'data', 'base'):
            f = base.flat()
            return AV(f.outer, f.deep)
        return base.member()

    def ev_Lambda(self, e, env):
        cap = self.capture_env(env)
        for a in e.args.args:
            cap[a.arg] = AV({'@lam:' + a.arg}, {'@lam:' + a.arg})
        v = self.ev(e.body, cap)
        return AV(E, v.all())

    def comp(self, e, env, elts):
        env = dict(env)
        for g in e.generators:
            it = self.ev(g.iter, env)
            self.assign(g.target, it.member(), env, e)
            for c in g.ifs:
                self.ev(c, env)
        d = E
        for x in elts:
            d |= self.ev(x, env).all()
        return AV(E, d)

    def ev_ListComp(self, e, env):
        return self.comp(e, env, [e.elt])
    ev_SetComp = ev_GeneratorExp = ev_ListComp

    def ev_DictComp(self, e, env):
        return self.comp(e, env, [e.key, e.value])

    def ev_Starred(self, e, env):
        return self.ev(e.value, env)

    def ev_Await(self, e, env):
        return self.ev(e.value, env)

    def ev_Yield(self, e, env):
        v = self.ev(e.value, env) if e.value is not None else FRESH
        self.s.ret = v if self.s.ret is None else self.s.ret.join(AV(E, v.all()))
        return AV({'@sent'}, {'@sent'})
    ev_YieldFrom = ev_Yield

    def ev_Call(self, e, env):
        f = e.func
        args = [self.ev(a.value if isinstance(a, ast.Starred) else a, env) for a in e.args]
        kws = {k.arg: self.ev(k.value, env) for k in e.keywords}
        if 'out' in kws:
            self.site('out=', e, kws['out'], root_name=self.root([k.value for k in e.keywords if k.arg == 'out'][0]))
        name = f.attr if isinstance(f, ast.Attribute) else (f.id if isinstance(f, ast.Name) else None)
        recv = None
        module_call = isinstance(f, ast.Name)
        if isinstance(f, ast.Attribute):
            if self.is_module(f.value, env):
                module_call = True
            else:
                recv = self.ev(f.value, env)
        everything = E
        for a in args + list(kws.values()) + ([recv] if recv is not None else []):
            everything |= a.all()
        # ---- torch convention: a method whose name ends in '_' works in place and returns its receiver
        if recv is not None and name and name.endswith('_') and not name.startswith('_'):
            self.site('call.' + name, e, recv, root_name=self.root(f.value))
            fl = recv.flat()
            return AV(fl.outer, fl.deep)
        if recv is not None and name in getattr(self.fa, 'extra_fresh_methods', ()):
            return AV(E, recv.flat().deep)          # a new object (contract table of the check that set extra_fresh_methods)
        if recv is not None and name in getattr(self.fa, 'extra_deep_fresh_methods', ()):
            # a deep copy (contract table of the check that set extra_deep_fresh_methods), unless asked to be shallow
            shallow = [k for k in e.keywords if k.arg == 'deep' and not (isinstance(k.value, ast.Constant) and k.value.value is True)]
            if (not shallow and not e.args) or getattr(self.fa, 'copy_on_write', False):
                return FRESH
            return AV(E, recv.flat().deep | recv.flat().outer)
        if name in getattr(self.fa, 'copying_constructors', ()) and any(k.arg == 'copy' and isinstance(k.value, ast.Constant) and k.value.value is True for k in e.keywords):
            return FRESH                         # pd.DataFrame(data, ..., copy=True): the data are copied (contract of the check that set it)
        if getattr(self.fa, 'constructors', False) and isinstance(f, ast.Name) and f.id not in env:
            ck, cm = self.fa.src.method(f.id, '__init__')
            if cm is not None:
                summ = self.fa.summary(ck)
                if summ is not None:
                    self.apply_summary(e, ck, summ, [AV(E, E)] + args, kws, env)
                    params = list(summ.params)[1:]
                    actual = dict(zip(params, args))
                    actual.update({k: v for k, v in kws.items() if k in params})
                    deep = E
                    for attr, node_, v, _g in summ.field_stores:
                        for l in v.all():
                            if l.startswith('@'):
                                continue
                            a_ = actual.get(l.rstrip('*'))
                            if a_ is not None:
                                deep |= a_.flat().deep if l.endswith('*') else a_.flat().outer
                    return AV(E, deep)           # a new object; its members are what the constructor stored
        if recv is not None and name in METHOD_ALIAS:
            fl = recv.flat()
            return AV(fl.outer, fl.deep)            # may return the receiver itself or share its storage (x.float() on a float tensor, x.detach())
        # ---- in-place writers
        if recv is not None and name in MUT_METHODS:
            self.site('call.' + name, e, recv, root_name=self.root(f.value))
            if name in ('append', 'extend', 'insert', 'add', 'update', 'setdefault', '__setitem__'):
                argall = E
                for a in args:
                    argall |= a.all()
                self.deepen(f.value, AV(E, argall), env)
            if name in ('pop', 'popitem', 'setdefault'):
                return recv.member()
            return FRESH
        if module_call and name in MUT_FUNCS and args:
            self.site('call.' + name, e, args[0], root_name=self.root(e.args[0]))
            return FRESH
        # ---- functions of the repository: summary
        callee = self.fa.resolve(self.key, e) if (isinstance(f, ast.Name) and f.id not in env) or (isinstance(f, ast.Attribute)) else None
        if callee is not None and name not in FRESH_DEEP and name not in FRESH_SHALLOW and name not in ALIAS:
            summ = self.fa.summary(callee)
            if summ is not None:
                return self.apply_summary(e, callee, summ, args, kws, env)
        # ---- allocation contracts
        if name in FRESH_DEEP:
            return FRESH
        if name == 'unique' and any(k.startswith('return_') for k in kws):
            d = E
            for a in args:
                d |= a.flat().deep
            return AV(E, E, [AV(E, d)] + [FRESH for k in kws if k.startswith('return_')])     # index/inverse/count arrays are new
        if name in FRESH_SHALLOW:
            d = E
            for a in args + ([recv] if recv is not None else []):
                d |= a.flat().deep | (a.flat().outer if name in ('list', 'tuple', 'zip', 'enumerate', 'iter', 'reversed', 'map', 'filter', 'chain', 'sorted') and False else E)
            if name in ('concatenate', 'stack', 'hstack', 'vstack', 'chain', 'zip'):
                for a in args:
                    d |= a.all()              # the argument is a tuple/list OF arrays: their members
            return AV(E, d)
        if name in ALIAS:
            o, d = E, E
            for a in args + ([recv] if recv is not None else []):
                fl = a.flat()
                o |= fl.outer
                d |= fl.deep
            if name in ('get', 'item', 'pop', 'next', 'getattr', 'array_split', 'hsplit', 'vsplit'):
                return AV(o | d if name in ('array_split', 'hsplit', 'vsplit') else d, o | d)
            return AV(o, d)
        # ---- unknown callee: the result may alias anything passed in; it is assumed not to write its arguments
        self.s.unknown_calls.add(ast.unparse(f)[:60])
        return AV(everything, everything)

    def is_module(self, e, env):
        if isinstance(e, ast.Name):
            return e.id in MODULES and (e.id not in env or not any(is_operand_label(l) for l in env[e.id].all()))
        if isinstance(e, ast.Attribute):                          # backend.np, numpy.random ...
            return self.is_module(e.value, env) and e.attr in ('np', 'random', 'linalg', 'add', 'subtract', 'multiply', 'maximum', 'minimum', 'divide')
        return False

    def apply_summary(self, e, callee, summ, args, kws, env):
        params = list(summ.params)
        if params and params[0] in ('self', 'cls') and isinstance(e.func, ast.Attribute):
            params = params[1:]
        actual = {}
        for p, a in zip(params, args):
            actual[p] = a
        for k, v in kws.items():
            if k in params:
                actual[k] = v

        def subst(labels):
            out = E
            for l in labels:
                if l.startswith('@'):
                    continue
                p = l.rstrip('*')
                if p in actual:
                    fl = actual[p].flat()
                    out |= fl.deep if l.endswith('*') else fl.outer
            return out
        written = subst(summ.mutates)
        if summ.mutates:
            self.site(f"call:{callee.split('::')[1]}", e, AV(written, E))
        if summ.ret is None:
            return FRESH

        def sub_av(v):
            if v.items is not None:
                return AV(subst(v.outer), subst(v.deep), [sub_av(x) for x in v.items])
            return AV(subst(v.outer), subst(v.deep))
        return sub_av(summ.ret)
