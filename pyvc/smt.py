"""Discharge obligations: z3 (Python API, one fresh context per worker process) with cvc5 CLI as
second back end for z3's unknowns.  unsat = discharged, sat = counter-model, unknown = undecided."""
import multiprocessing as mp
import os
import subprocess
import tempfile
import time
import z3

CVC5 = '/usr/bin/cvc5'


def _model_dict(m):
    model = {}
    for d in m.decls():
        if d.arity() == 0:
            v = m[d]
            try:
                if z3.is_int_value(v):
                    model[d.name()] = v.as_long()
                elif z3.is_string_value(v):
                    model[d.name()] = v.as_string()
                elif z3.is_true(v) or z3.is_false(v):
                    model[d.name()] = z3.is_true(v)
                elif z3.is_rational_value(v):
                    model[d.name()] = float(v.numerator_as_long()) / float(v.denominator_as_long())
                else:
                    model[d.name()] = str(v)[:200]
            except Exception:
                model[d.name()] = str(v)[:200]
    return model


def _has_quantifier(e, seen=None):
    seen = seen if seen is not None else set()
    if e.get_id() in seen:
        return False
    seen.add(e.get_id())
    if z3.is_quantifier(e):
        return True
    return any(_has_quantifier(c, seen) for c in e.children())


def _candidate_without_quantifiers(smt2, timeout_ms=3000):
    """A *candidate* counter-model: the quantified hypotheses are dropped (weaker hypotheses, more models).  It proves
    nothing; the driver only uses it as an input to replay on the real code."""
    try:
        ctx = z3.Context()
        fs = z3.parse_smt2_string(smt2, ctx=ctx)
        s = z3.Solver(ctx=ctx)
        s.set('timeout', timeout_ms)
        for f in fs:
            if not _has_quantifier(f):
                s.add(f)
        if s.check() == z3.sat:
            return _model_dict(s.model()) or {'_': 0}
    except Exception:
        pass
    return None


def _check_z3(args):
    """Quantified obligations are tried first with E-matching only (mbqi off): `unsat` is a proof; `unknown` then
    comes with a candidate model (it satisfies the ground part and the instances tried) that the driver replays on
    the real code.  Second stage: full z3 (mbqi on)."""
    idx, smt2, timeout_ms, want_model = args
    t0 = time.time()
    cand = None
    try:
        if 'forall' in smt2:
            ctx = z3.Context()
            s = z3.Solver(ctx=ctx)
            s.set('timeout', max(2000, timeout_ms // 2))
            s.set('smt.mbqi', False)
            s.set('smt.auto_config', False)
            s.from_string(smt2)
            r = s.check()
            if r == z3.unsat:
                return idx, 'unsat', None, time.time() - t0, '', None
            # with model-based quantifier instantiation switched off a `sat` is only a candidate: the full solver decides
            try:
                cand = _model_dict(s.model())
            except Exception:
                cand = None
            if not cand:
                cand = _candidate_without_quantifiers(smt2)
        ctx = z3.Context()
        s = z3.Solver(ctx=ctx)
        s.set('timeout', timeout_ms)
        s.from_string(smt2)
        r = s.check()
        model = None
        why = s.reason_unknown() if r == z3.unknown else ''
        if r == z3.sat:
            # validate the counter-model: every asserted formula that evaluates to a literal under it must be true
            # (z3's sequence solver occasionally answers sat with a model that falsifies an assertion)
            m = s.model()
            bogus = False
            validated = True
            for a in s.assertions():
                try:
                    v = m.eval(a, model_completion=True)
                    if z3.is_false(v):
                        bogus = True
                        break
                    if not z3.is_true(v):
                        validated = False
                except Exception:
                    validated = False
            if not validated:
                why = 'unvalidated-sat'      # quantified assertions do not evaluate to a literal: cvc5 is asked as well
            if bogus:
                return idx, 'unknown', None, time.time() - t0, 'z3 answered sat with a model that falsifies an assertion (discarded)', cand
            if want_model:
                model = _model_dict(m)
        return idx, str(r), model, time.time() - t0, why, cand
    except Exception as e:   # parse errors etc: undecided, never a verdict
        return idx, 'unknown', None, time.time() - t0, f"z3 error: {e}", cand


def _check_cvc5(smt2, timeout_s):
    t0 = time.time()
    text = smt2
    if '(set-logic' not in text:
        text = '(set-logic ALL)\n' + text
    with tempfile.NamedTemporaryFile('w', suffix='.smt2', delete=False) as f:
        f.write(text)
        path = f.name
    try:
        p = subprocess.run([CVC5, '--strings-exp', f'--tlimit={int(timeout_s * 1000)}', path],
                           capture_output=True, text=True, timeout=timeout_s + 5)
        out = p.stdout.strip().splitlines()
        r = out[0] if out else 'unknown'
        if r not in ('sat', 'unsat'):
            r = 'unknown'
        return r, time.time() - t0
    except Exception:
        return 'unknown', time.time() - t0
    finally:
        os.unlink(path)


def _cvc5_worker(args):
    idx, smt2, timeout_s = args
    r, t = _check_cvc5(smt2, timeout_s)
    return idx, r, t


def discharge(obls, timeout_s=10, procs=None, use_cvc5=True, both=False):
    """fills o.result / o.backend / o.model / o.time for every obligation"""
    procs = procs or min(16, os.cpu_count() or 4)
    # vacuity (satisfiability) probes get a short budget: `unknown` there is not a failure, only `unsat` is
    jobs = [(i, o.smt2(), int((3 if o.meta.get('kind') == 'vacuity-neg' else timeout_s) * 1000), True) for i, o in enumerate(obls)]
    texts = {i: j[1] for i, j in enumerate(jobs)}
    if os.environ.get('VERIF_DUMP_SMT'):        # debugging aid: one .smt2 per obligation
        os.makedirs(os.environ['VERIF_DUMP_SMT'], exist_ok=True)
        for i, o in enumerate(obls):
            with open(os.path.join(os.environ['VERIF_DUMP_SMT'], o.name.replace('/', '_') + '.smt2'), 'w') as f:
                f.write(texts[i])
    t0 = time.time()
    if not jobs:
        return 0.0
    with mp.get_context('fork').Pool(procs) as pool:
        # obligations whose contract names cvc5 as the first back end (sequence-heavy goals z3 only times out on)
        first = [(i, texts[i], timeout_s) for i, o in enumerate(obls) if o.meta.get('prefer') == 'cvc5' and use_cvc5]
        done = set()
        for idx, r, t in pool.imap_unordered(_cvc5_worker, first, chunksize=1):
            if r == 'unsat':
                o = obls[idx]
                o.result, o.model, o.time, o.backend, o.why, o.candidate = r, None, t, 'cvc5', '', None
                done.add(idx)
        jobs = [j for j in jobs if j[0] not in done]
        for idx, r, model, t, why, cand in pool.imap_unordered(_check_z3, jobs, chunksize=1):
            o = obls[idx]
            o.result, o.model, o.time, o.backend, o.why, o.candidate = r, model, t, 'z3', why, cand
        if use_cvc5:
            todo = [(i, texts[i], timeout_s) for i, o in enumerate(obls)
                    if i not in done and (o.result == 'unknown' or both or (o.result == 'sat' and o.why == 'unvalidated-sat'))
                    and o.meta.get('kind') != 'vacuity-neg' and not (o.meta.get('prefer') == 'cvc5' and not both and o.result == 'unknown')]
            for idx, r, t in pool.imap_unordered(_cvc5_worker, todo, chunksize=1):
                o = obls[idx]
                o.time += t
                if o.result == 'unknown' and r != 'unknown':
                    o.result, o.backend = r, 'cvc5'
                elif o.result == 'sat' and o.why == 'unvalidated-sat' and r == 'unsat':
                    # z3's model could not be checked against the quantified assertions and cvc5 has a refutation proof:
                    # the proof decides (z3's sequence solver is known to return such models for nested sequences)
                    o.result, o.backend, o.model = 'unsat', 'cvc5', None
                    o.why = 'z3 answered sat with a model that cannot be validated; cvc5 proved unsat'
                elif both and r != 'unknown' and r != o.result:
                    o.result, o.backend, o.why = 'unknown', 'z3+cvc5', f"solvers disagree: z3={o.result} cvc5={r}"
                elif both and r == o.result:
                    o.backend = 'z3+cvc5'
    return time.time() - t0
