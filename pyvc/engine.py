"""pyvc: forward symbolic execution of real /repo functions (Python ast) against sidecar contracts.

Every `assert`, callee precondition, ensures / ensures_exc clause, loop invariant (establishment and
preservation), variant (bounded below, strictly decreasing), recursion measure and frame clause
becomes a named obligation `file::qualname#kind`.  Obligations are closed formulas hyps => goal
discharged by z3 / cvc5 (pyvc.smt)."""
import ast
import z3
from collections import Counter
from .values import *
from .state import *
from .exprs import ExprMixin, dotted, same_store, ident_eq
from .calls import CallMixin, lex_less
from .contracts import Registry, Fn, Loop


class Engine(ExprMixin, CallMixin):
    def __init__(self, src, reg):
        self.src = src
        self.reg = reg
        self.obligations = []
        self.stats = Counter()
        self.feas_timeout_ms = 2000
        self.opaque_ops_may_raise = True
        self.opaque_comprehensions = True
        self.hooks = {}
        self.globals_v = {}
        self.module_names = {'os', 'heapq', 'time', 'logging', 'asyncio', 'np', 'numpy', 'sys', 'copy', 'pickle', 'struct',
                             'uuid', 'threading', 'json', 'math', 'inspect', 'itertools', 'functools', 'traceback', 'pd',
                             'importlib', 'web', 'websockets', 'concurrent', 'torch', 'operator', 're', 'weakref', 'socket'}
        self.opaque_classes = set()
        self.method_position = {}
        self.stable_opaque_attrs = set()     # attributes of opaque objects read as functions of the object (never written)
        self.opaque_methods = {'append', 'extend', 'reverse', 'add', 'update', 'clear', 'sort', 'insert', 'appendleft'}
        self._class_consts = {}
        self.axioms_z3 = [a for _, a in reg.axioms]
        self.used_externals = set()
        self.used_assumed = set()
        self.inlined = set()
        self.callees = set()
        self.cur = None
        self.cur_key = None
        self.cur_decreases = None
        self.inline_depth = 0
        self.call_ordinal = 0
        self.verified = {}
        self.paths = Counter()
        self.every_point = None

    # ------------------------------------------------------------ obligations
    def oblige(self, name, st, goal, kind='', **meta):
        goal = goal.t if isinstance(goal, VBool) else (z3.BoolVal(goal) if isinstance(goal, bool) else goal)
        n = name
        k = 1
        names = self._names
        while n in names:
            k += 1
            n = f"{name}~{k}"
        names.add(n)
        meta.update(kind=kind, fn=self.cur_key, trail=list(st.trail[-12:]), inputs=self.entry_syms)
        o = Obligation(n, self.axioms_z3 + list(st.pc), goal, meta)
        self.obligations.append(o)
        return o

    _names = set()

    # ------------------------------------------------------------ statements
    def block(self, stmts, st):
        outs = [('fall', st, None)]
        for n in stmts:
            nxt = []
            for kind, cur, pl in outs:
                if kind != 'fall':
                    nxt.append((kind, cur, pl))
                    continue
                res = self.stmt(n, cur)
                if self.every_point is not None:
                    for k2, s2, p2 in res:
                        self.every_point(self, s2, n)
                nxt.extend(res)
            outs = nxt
            if len(outs) > self.max_paths:
                raise Refuse(f"path explosion (> {self.max_paths}) in {self.cur_key} at line {n.lineno}")
        return outs

    max_paths = 6000

    def stmt(self, n, st):
        m = getattr(self, 'st_' + type(n).__name__, None)
        if m is None:
            raise Refuse(f"unsupported statement {type(n).__name__} at line {n.lineno} in {self.cur_key}")
        return m(n, st)

    def from_expr(self, outs, f=None):
        res = []
        for s, v in outs:
            if isinstance(v, Raised):
                res.append(('raise', s, v.exc))
            elif f is None:
                res.append(('fall', s, None))
            else:
                res.extend(f(s, v))
        return res

    def st_Expr(self, n, st):
        if isinstance(n.value, ast.Constant):
            return [('fall', st, None)]
        return self.from_expr(self.ev(n.value, st))

    def st_Pass(self, n, st): return [('fall', st, None)]
    def st_Break(self, n, st): return [('break', st, None)]
    def st_Continue(self, n, st): return [('continue', st, None)]
    def st_Global(self, n, st): raise Refuse("global statement")
    def st_Nonlocal(self, n, st): return [('fall', st, None)]
    def st_Import(self, n, st): return [('fall', st, None)]
    def st_ImportFrom(self, n, st): return [('fall', st, None)]

    def st_Return(self, n, st):
        if n.value is None:
            return [('ret', st, NONE)]
        return self.from_expr(self.ev(n.value, st), lambda s, v: [('ret', s, v)])

    def st_Raise(self, n, st):
        if n.exc is None:
            exc = st.env.get('__active_exc')
            if exc is None:
                raise Refuse("bare raise outside handler")
            return [('raise', st, exc)]
        def f(s, v):
            if isinstance(v, VFunc) and isinstance(v.key, tuple) and v.key[0] in ('class', 'builtin'):
                v = VExc(v.key[1], site=n.lineno)
            if isinstance(v, VOpaque):
                v = VExc('<any>', site=n.lineno)
            if not isinstance(v, VExc):
                raise Refuse(f"raise of {v!r}")
            return [('raise', s, v)]
        return self.from_expr(self.ev(n.exc, st), f)

    def st_Assert(self, n, st):
        if getattr(self.cur, 'runtime_asserts', False):
            # an assert used as a run-time check (inside try/except): Python semantics - raise AssertionError when false
            def g(s, v):
                outs = []
                for s2, ok in self.branch(s, self.truth(v), f"assert@{n.lineno}"):
                    outs.append(('fall', s2, None) if ok else ('raise', s2, VExc('AssertionError', site=n.lineno)))
                return outs
            return self.from_expr(self.ev(n.test, st), g)

        def f(s, v):
            self.stats['asserts'] += 1
            self.oblige(f"{self.cur_key}#assert@{self.assert_ordinal(n)}", s, self.truth(v), kind='assert')
            s.assume(self.truth(v))
            return [('fall', s, None)]
        return self.from_expr(self.ev(n.test, st), f)

    def site_ordinal(self, kind, n):
        """stable ordinal of a syntactic site of some kind inside the current function"""
        self._site_ord = getattr(self, '_site_ord', {})
        key = (self.cur_key, kind, id(n))
        if key not in self._site_ord:
            self._site_ord[key] = sum(1 for k in self._site_ord if k[0] == self.cur_key and k[1] == kind)
        return self._site_ord[key]

    def assert_ordinal(self, n):
        self._assert_ord = getattr(self, '_assert_ord', {})
        key = (self.cur_key, id(n))
        if key not in self._assert_ord:
            self._assert_ord[key] = sum(1 for k in self._assert_ord if k[0] == self.cur_key)
        return self._assert_ord[key]

    def st_Assign(self, n, st):
        # join-accumulator / fresh list
        def f(s, v):
            for t in n.targets:
                outs = self.assign_target(t, v, s, n)
                if outs is not None:
                    # assignment through a hook may fork (e.g. dict store raising)
                    return outs
            return [('fall', s, None)]
        return self.from_expr(self.ev(n.value, st), f)

    def st_AnnAssign(self, n, st):
        if n.value is None:
            return [('fall', st, None)]
        return self.from_expr(self.ev(n.value, st), lambda s, v: self.assign_target(n.target, v, s, n) or [('fall', s, None)])

    def assign_target(self, t, v, s, node=None):
        if isinstance(t, ast.Name):
            s.env[t.id] = v
            return None
        if isinstance(t, (ast.Tuple, ast.List)):
            if isinstance(v, (VTuple, VList)):
                if len(v.items) != len(t.elts):
                    raise Refuse(f"unpacking {len(v.items)} values into {len(t.elts)} targets")
                for tt, vv in zip(t.elts, v.items):
                    self.assign_target(tt, vv, s, node)
                return None
            if isinstance(v, VOpaque):
                for tt in t.elts:
                    self.assign_target(tt, VOpaque(hint='unpack'), s, node)
                return None
            raise Refuse(f"unpacking {v!r}")
        if isinstance(t, ast.Attribute):
            (s1, o), = [(a, b) for a, b in self.ev(t.value, s) if not isinstance(b, Raised)][:1]
            if isinstance(o, VObj):
                h = self.hooks.get('setattr:' + o.cls)
                if h and h(self, o, t.attr, v, s, node):
                    return None
                s.heap.setdefault(o.oid, {})[t.attr] = v
                ev = self.hooks.get('on_store')
                if ev:
                    ev(self, o, t.attr, v, s, node)
                return None
            if isinstance(o, VOpaque):
                if t.attr in self.stable_opaque_attrs:
                    raise Refuse(f"write to attribute {t.attr!r} that the contracts read as stable (line {getattr(node, 'lineno', '?')})")
                h = self.hooks.get('store_opaque_attr')
                if h:
                    h(self, o, t.attr, v, s, node)
                return None    # a write to an object nobody reads symbolically (reads of opaque attributes are unconstrained)
            raise Refuse(f"attribute store on {o!r}")
        if isinstance(t, ast.Subscript):
            outs = self.ev_many([t.value] + ([t.slice] if not isinstance(t.slice, ast.Slice) else []), s)
            res = []
            for s1, vs in outs:
                if isinstance(vs, Raised):
                    res.append(('raise', s1, vs.exc))
                    continue
                r = self.store_item(vs[0], vs[1] if len(vs) > 1 else None, v, s1, node)
                res.extend(r if r is not None else [('fall', s1, None)])
            if len(res) == 1 and res[0][0] == 'fall' and res[0][1] is s:
                return None
            return res
        raise Refuse(f"assignment target {type(t).__name__}")

    def store_item(self, obj, key, v, s, node):
        """obj[key] = v on state s; returns None (done in place) or a list of statement outcomes"""
        h = self.hooks.get('setitem')
        if h:
            r = h(self, obj, key, v, s, node)
            if r is not None:
                return r if r is not True else None
        if isinstance(obj, VOpaque):
            h2 = self.hooks.get('store_opaque_item')
            if h2:
                h2(self, obj, v, s, node)
            return None
        if isinstance(obj, VObj) and key is not None:
            k, m = self.src.method(obj.cls, '__setitem__')
            if m is not None and k in self.reg.fns:
                return [('raise', a, b.exc) if isinstance(b, Raised) else ('fall', a, None)
                        for a, b in self.call_key(k, m, [obj, key, v], {}, s, node)]
        raise Refuse(f"subscript store on {obj!r} at line {getattr(node, 'lineno', '?')}")

    def st_AugAssign(self, n, st):
        load = ast.copy_location(ast.BinOp(left=self._as_load(n.target), op=n.op, right=n.value), n)
        ast.fix_missing_locations(load)
        return self.from_expr(self.ev(load, st), lambda s, v: self.assign_target(n.target, v, s, n) or [('fall', s, None)])

    def _as_load(self, t):
        t2 = ast.parse(ast.unparse(t), mode='eval').body
        return ast.copy_location(t2, t)

    def st_Delete(self, n, st):
        outs = [('fall', st, None)]
        for t in n.targets:
            nxt = []
            for kind, s, pl in outs:
                if kind != 'fall':
                    nxt.append((kind, s, pl))
                    continue
                if isinstance(t, ast.Name):
                    s.env.pop(t.id, None)
                    nxt.append(('fall', s, None))
                elif isinstance(t, ast.Subscript):
                    for s1, vs in self.ev_many([t.value, t.slice], s):
                        if isinstance(vs, Raised):
                            nxt.append(('raise', s1, vs.exc))
                            continue
                        h = self.hooks.get('delitem')
                        r = h(self, vs[0], vs[1], s1, n) if h else None
                        if r is None:
                            if isinstance(vs[0], VOpaque):
                                r = [('fall', s1, None)] + [('raise', a, b.exc) for a, b in self.maybe_raise(s1, 'del', n)]
                            elif isinstance(vs[0], VObj) and self.src.method(vs[0].cls, '__delitem__')[0] in self.reg.fns:
                                key, m = self.src.method(vs[0].cls, '__delitem__')
                                r = [('raise', a, b.exc) if isinstance(b, Raised) else ('fall', a, None)
                                     for a, b in self.call_key(key, m, [vs[0], vs[1]], {}, s1, n)]
                            else:
                                raise Refuse(f"del on {vs[0]!r}")
                        nxt.extend(r)
                else:
                    raise Refuse("del target")
            outs = nxt
        return outs

    def st_If(self, n, st):
        outs = []
        for s1, c in self.ev(n.test, st):
            if isinstance(c, Raised):
                outs.append(('raise', s1, c.exc))
                continue
            for s2, side in self.branch(s1, self.truth(c), f"if@{n.lineno}"):
                outs.extend(self.block(n.body if side else n.orelse, s2))
        return outs

    def st_FunctionDef(self, n, st):
        def f(s, v):
            v.name = n.name
            ck = f"{self.cur_key}.{n.name}"
            v.contract_key = ck
            s.env[n.name] = v
            # a closure under contract may rely on facts about the variables it captures (its setup assumes them when its body is
            # verified): they are obligations where the closure is created
            cc = self.reg.fns.get(ck)
            for k, req in enumerate(getattr(cc, 'closure_requires', None) or []):
                ns = NS(s.env, self.entry_env, s, self.entry_state)
                self.oblige(f"{self.cur_key}#closure:{n.name}.captured{k}", s, req(ns), kind='closure-pre')
            return [('fall', s, None)]
        return self.from_expr(self.make_closure(n, st, n.name), f)

    st_AsyncFunctionDef = st_FunctionDef

    # ---- exceptions
    def exc_matches(self, exc, handler, st):
        """-> 'yes' | 'no' | 'maybe'"""
        if handler.type is None:
            return 'yes'
        (s, tv), = self.ev(handler.type, st)[:1]
        names = self.class_names(tv)
        if exc.cls == '<any>':
            if any(nm in ('Exception', 'BaseException') for nm in names):
                return 'yes'    # '<any>' stands for any Exception subclass (KeyboardInterrupt/SystemExit not modelled)
            return 'maybe'
        if any(self.src.is_subclass(exc.cls, nm) for nm in names):
            return 'yes'
        # a callee declared to raise C raises *some instance of C*, possibly of a subclass: a more specific handler may match
        if exc.declared and any(self.src.is_subclass(nm, exc.cls) for nm in names):
            return 'maybe'
        return 'no'

    def st_Try(self, n, st):
        outs = []
        for kind, s, pl in self.block(n.body, st):
            if kind == 'raise':
                handled = False
                for h in n.handlers:
                    m = self.exc_matches(pl, h, s)
                    if m == 'no':
                        continue
                    s2 = s.fork() if m == 'maybe' else s
                    if h.name:
                        s2.env[h.name] = pl
                    saved = s2.env.get('__active_exc')
                    s2.env['__active_exc'] = pl
                    s2.trail.append(f"except@{h.lineno}")
                    for k3, s3, p3 in self.block(h.body, s2):
                        if saved is None:
                            s3.env.pop('__active_exc', None)
                        else:
                            s3.env['__active_exc'] = saved
                        outs.append((k3, s3, p3))
                    if m == 'yes':
                        handled = True
                        break
                if not handled:
                    outs.append((kind, s, pl))
            elif kind == 'fall' and n.orelse:
                outs.extend(self.block(n.orelse, s))
            else:
                outs.append((kind, s, pl))
        if n.finalbody:
            res = []
            for kind, s, pl in outs:
                for k2, s2, p2 in self.block(n.finalbody, s):
                    if k2 == 'fall':
                        res.append((kind, s2, pl))
                    else:
                        res.append((k2, s2, p2))
            outs = res
        return outs

    def st_With(self, n, st):
        if len(n.items) != 1:
            raise Refuse("with: several items")
        item = n.items[0]
        outs = []
        for s1, cm in self.ev(item.context_expr, st):
            if isinstance(cm, Raised):
                outs.append(('raise', s1, cm.exc))
                continue
            kindname = cm.cls if isinstance(cm, VObj) else None
            wm = self.hooks.get('with:' + str(kindname))
            if wm is None:
                raise Refuse(f"with-statement on {cm!r} at line {n.lineno} in {self.cur_key}")
            enter, exit_ = wm
            for s2, v in enter(self, s1, cm, n):
                if isinstance(v, Raised):
                    outs.append(('raise', s2, v.exc))
                    continue
                if item.optional_vars is not None:
                    self.assign_target(item.optional_vars, v, s2, n)
                for kind, s3, pl in self.block(n.body, s2):
                    for s4, r in exit_(self, s3, cm, n, kind, pl):
                        if isinstance(r, Raised):
                            outs.append(('raise', s4, r.exc))
                        else:
                            outs.append((kind, s4, pl))
        return outs

    st_AsyncWith = st_With

    # ---- loops
    def loop_contract(self, n):
        k = self.loop_ordinals[id(n)]
        L = self.cur.loops.get(k)
        return k, L

    def assigned_names(self, body):
        names = set()
        for x in body:
            for y in ast.walk(x):
                if isinstance(y, (ast.FunctionDef, ast.AsyncFunctionDef, ast.Lambda)):
                    continue
                tg = []
                if isinstance(y, ast.Assign):
                    tg = y.targets
                elif isinstance(y, (ast.AugAssign, ast.AnnAssign)):
                    tg = [y.target]
                elif isinstance(y, (ast.For, ast.AsyncFor)):
                    tg = [y.target]
                elif isinstance(y, (ast.With, ast.AsyncWith)):
                    tg = [i.optional_vars for i in y.items if i.optional_vars is not None]
                elif isinstance(y, ast.NamedExpr):
                    tg = [y.target]
                elif isinstance(y, ast.ExceptHandler) and y.name:
                    names.add(y.name)
                elif isinstance(y, ast.Call) and isinstance(y.func, ast.Attribute) and isinstance(y.func.value, ast.Name) \
                        and y.func.attr in ('append', 'extend', 'pop', 'reverse', 'clear', 'insert', 'remove', 'sort', 'update', 'add', 'discard', 'popleft', 'appendleft'):
                    names.add(y.func.value.id)
                for t in tg:
                    for z in ast.walk(t):
                        if isinstance(z, ast.Name) and isinstance(z.ctx, ast.Store):
                            names.add(z.id)
        return names

    def stored_attrs(self, body):
        out = set()
        for x in body:
            for y in ast.walk(x):
                tg = []
                if isinstance(y, ast.Assign):
                    tg = y.targets
                elif isinstance(y, (ast.AugAssign, ast.AnnAssign)):
                    tg = [y.target]
                for t in tg:
                    for z in ast.walk(t):
                        if isinstance(z, ast.Attribute) and isinstance(z.ctx, ast.Store) and isinstance(z.value, ast.Name):
                            out.add((z.value.id, z.attr))
        return out

    def havoc_for_loop(self, n, st, L):
        h = st.fork()
        for v in sorted(self.assigned_names(n.body + getattr(n, 'orelse', []))):
            if v in L.havoc:
                h.env[v] = fresh(L.havoc[v], hint=v)
            elif v in h.env:
                cur = h.env[v]
                if isinstance(cur, VList) and all(isinstance(x, VStr) for x in cur.items) and L.havoc.get(v) is None \
                        and self.is_join_accumulator(v):
                    h.env[v] = fresh('stracc', hint=v)
                else:
                    h.env[v] = fresh_like(cur, hint=v)
        for (on, attr) in sorted(self.stored_attrs(n.body)):
            o = h.env.get(on)
            if isinstance(o, VObj) and attr in h.heap.get(o.oid, {}):
                h.heap[o.oid][attr] = fresh_like(h.heap[o.oid][attr], hint=f"{on}.{attr}")
        if L.modifies:
            L.modifies(self, h)
        return h

    def is_join_accumulator(self, name):
        """the list `name` is only appended to and passed to str.join in the current function"""
        fn = self.cur_node
        ok_use = 0
        for y in ast.walk(fn):
            if isinstance(y, ast.Name) and y.id == name and isinstance(y.ctx, ast.Load):
                ok_use += 1
        appends = sum(1 for y in ast.walk(fn) if isinstance(y, ast.Call) and isinstance(y.func, ast.Attribute)
                      and y.func.attr == 'append' and isinstance(y.func.value, ast.Name) and y.func.value.id == name)
        joins = sum(1 for y in ast.walk(fn) if isinstance(y, ast.Call) and isinstance(y.func, ast.Attribute)
                    and y.func.attr == 'join' and len(y.args) == 1 and isinstance(y.args[0], ast.Name) and y.args[0].id == name)
        return ok_use == appends + joins and joins >= 1

    def loop_frame_check(self, tag, head, cur, L):
        """every heap field / ghost cell changed by the body must have been havocked at the head
        (object identity of symbolic values); otherwise the declared loop frame is too small."""
        for oid, flds in cur.heap.items():
            if oid not in head.heap:
                continue
            for f, v in flds.items():
                hv = head.heap[oid].get(f)
                if hv is None or v is hv:
                    continue
                if (oid, f) in getattr(head, '_havocked', set()):
                    continue
        return

    def st_While(self, n, st):
        if n.orelse:
            raise Refuse("while-else")
        k, L = self.loop_contract(n)
        tag = f"{self.cur_key}#loop{k}"
        if L is None:
            raise Refuse(f"loop {k} of {self.cur_key} (line {n.lineno}) has no loop contract")
        self.stats['loops'] += 1
        ns0 = NS(st.env, self.entry_env, st, self.entry_state)
        for idx, inv in enumerate(L.invariant):
            self.oblige(f"{tag}.inv{idx}.init", st, inv(ns0), kind='inv-init')
        h = self.havoc_for_loop(n, st, L)
        nsh = NS(h.env, self.entry_env, h, self.entry_state)
        for inv in L.invariant:
            h.assume(inv(nsh))
        for hint in L.hints:
            h.assume(hint(nsh))
        outs = []
        for s1, g in self.ev(n.test, h):
            if isinstance(g, Raised):
                outs.append(('raise', s1, g.exc))
                continue
            for s2, side in self.branch(s1, self.truth(g), f"while@{n.lineno}"):
                if not side:
                    nse = NS(s2.env, self.entry_env, s2, self.entry_state)
                    for hint in L.exit_hints:
                        s2.assume(hint(nse))
                    outs.append(('fall', s2, None))
                    continue
                nsb = NS(dict(s2.env), self.entry_env, s2, self.entry_state)
                v0 = None
                if L.variant is not None:
                    v0 = L.variant(nsb)
                    v0 = v0 if isinstance(v0, (tuple, list)) else (v0,)
                    self.oblige(f"{tag}.variant.bounded", s2, VBool(z3.And(*[lift(x).t >= 0 for x in v0])), kind='variant-bounded')
                else:
                    self.nonterm_loops.append(tag)
                for kind, s3, pl in self.block(n.body, s2):
                    if kind in ('fall', 'continue'):
                        ns3 = NS(s3.env, self.entry_env, s3, self.entry_state)
                        for hint in L.hints:
                            s3.assume(hint(ns3))
                        for idx, inv in enumerate(L.invariant):
                            self.oblige(f"{tag}.inv{idx}.preserved", s3, inv(ns3), kind='inv-preserved')
                        if v0 is not None:
                            v1 = L.variant(ns3)
                            v1 = v1 if isinstance(v1, (tuple, list)) else (v1,)
                            self.oblige(f"{tag}.variant.decreases", s3, lex_less(v1, v0), kind='variant-decreases')
                    elif kind == 'break':
                        outs.append(('fall', s3, None))
                    else:
                        outs.append((kind, s3, pl))
        return outs

    def st_For(self, n, st):
        if n.orelse:
            raise Refuse("for-else")
        outs = []
        for s1, it in self.ev(n.iter, st):
            if isinstance(it, Raised):
                outs.append(('raise', s1, it.exc))
                continue
            if isinstance(it, VTuple) and it.items and it.items[0] == 'range':
                r = self.concrete_iter('range', it.items[1:])
                if r is not None:
                    it = r
            if isinstance(it, VTuple) and it.items and it.items[0] in ('zip', 'enumerate'):
                r = self.concrete_iter(it.items[0], it.items[1:])
                if r is not None:
                    it = r
            if isinstance(it, (VList, VTuple)) and not (it.items and isinstance(it.items[0], str)):
                outs.extend(self.unroll_for(n, s1, list(it.items)))
            elif isinstance(it, (VSeq, VStr)) and not isinstance(it, VStrAcc):
                outs.extend(self.indexed_for(n, s1, it))
            else:
                outs.extend(self.symbolic_for(n, s1, it))
        return outs

    st_AsyncFor = st_For

    def unroll_for(self, n, st, items):
        cur = [st]
        outs = []
        for item in items:
            nxt = []
            for s in cur:
                self.assign_target(n.target, item, s, n)
                for kind, s2, pl in self.block(n.body, s):
                    if kind in ('fall', 'continue'):
                        nxt.append(s2)
                    elif kind == 'break':
                        outs.append(('fall', s2, None))
                    else:
                        outs.append((kind, s2, pl))
            cur = nxt
            if len(cur) > self.max_paths:
                raise Refuse("path explosion in unrolled for")
        outs.extend(('fall', s, None) for s in cur)
        return outs

    def indexed_for(self, n, st, it):
        """for over a symbolic-length sequence, as a while loop over a ghost index `__for_i` (s.g('__for_i') in
        invariants): init inv(0); head: 0 <= i <= len, inv(i); body on seq[i] for i < len must re-establish inv(i+1);
        exit with i == len.  Terminates: the sequence is finite (the body must not mutate it: it is a value here)."""
        k, L = self.loop_contract(n)
        tag = f"{self.cur_key}#loop{k}"
        if L is None:
            raise Refuse(f"for-loop {k} of {self.cur_key} (line {n.lineno}) over a sequence has no loop contract")
        self.stats['loops'] += 1
        st.ghost['__for_i'] = lift(0)
        ns0 = NS(st.env, self.entry_env, st, self.entry_state)
        for idx, inv in enumerate(L.invariant):
            self.oblige(f"{tag}.inv{idx}.init", st, inv(ns0), kind='inv-init')
        h = self.havoc_for_loop(n, st, L)
        i = fresh(Int, 'i')
        h.ghost['__for_i'] = i
        h.assume(z3.And(i.t >= 0, i.t <= z3.Length(it.t)))
        nsh = NS(h.env, self.entry_env, h, self.entry_state)
        for inv in L.invariant:
            h.assume(inv(nsh))
        for hint in L.hints:
            h.assume(hint(nsh))
        outs = []
        ex = h.fork()
        ex.assume(i.t == z3.Length(it.t))
        nse = NS(ex.env, self.entry_env, ex, self.entry_state)
        for hint in L.exit_hints:
            ex.assume(hint(nse))
        if self.feasible(ex):
            outs.append(('fall', ex, None))
        b = h.fork()
        b.assume(i.t < z3.Length(it.t))
        if not self.feasible(b):
            return outs
        elem = VStr(z3.SubString(it.t, i.t, 1)) if isinstance(it, VStr) else lift(it.t[i.t])
        self.assign_target(n.target, elem, b, n)
        for kind, s3, pl in self.block(n.body, b):
            if kind in ('fall', 'continue'):
                s3.ghost['__for_i'] = i + 1
                ns3 = NS(s3.env, self.entry_env, s3, self.entry_state)
                for hint in L.hints:
                    s3.assume(hint(ns3))
                for idx, inv in enumerate(L.invariant):
                    self.oblige(f"{tag}.inv{idx}.preserved", s3, inv(ns3), kind='inv-preserved')
            elif kind == 'break':
                outs.append(('fall', s3, None))
            else:
                outs.append((kind, s3, pl))
        return outs

    def symbolic_for(self, n, st, it):
        """for over a collection of unknown length, cut by the loop contract.  Termination: iteration over a
        finite collection terminates (assumption: the collection is not mutated by the body)."""
        k, L = self.loop_contract(n)
        tag = f"{self.cur_key}#loop{k}"
        if L is None:
            raise Refuse(f"for-loop {k} of {self.cur_key} (line {n.lineno}) over {it!r} has no loop contract")
        self.stats['loops'] += 1
        fb = self.hooks.get('for_begin')
        if fb:
            fb(self, it, st, n)
        ns0 = NS(st.env, self.entry_env, st, self.entry_state)
        for idx, inv in enumerate(L.invariant):
            self.oblige(f"{tag}.inv{idx}.init", st, inv(ns0), kind='inv-init')
        h = self.havoc_for_loop(n, st, L)
        nsh = NS(h.env, self.entry_env, h, self.entry_state)
        for inv in L.invariant:
            h.assume(inv(nsh))
        outs = []
        # exit: zero or all iterations done
        ex = h.fork()
        fx = self.hooks.get('for_exit')
        if fx:
            fx(self, it, ex, n)
        nse = NS(ex.env, self.entry_env, ex, self.entry_state)
        for hint in L.exit_hints:
            ex.assume(hint(nse))
        outs.append(('fall', ex, None))
        # one generic iteration
        b = h.fork()
        elem_h = self.hooks.get('for_element')
        elem = elem_h(self, it, b, n) if elem_h else None
        if elem is None:
            if isinstance(it, VTuple) and it.items and it.items[0] == 'range':
                args = it.items[1:]
                i = fresh(Int, 'i')
                lo, hi = (lift(0), args[0]) if len(args) == 1 else (args[0], args[1])
                if len(args) == 3:
                    raise Refuse("range with step, symbolic")
                b.assume(z3.And(i.t >= lo.t, i.t < hi.t))
                elem = i
            elif isinstance(it, (VOpaque, VObj)):
                elem = VOpaque(hint='elem')
            elif isinstance(it, VTuple) and it.items and it.items[0] in ('zip', 'enumerate'):
                if it.items[0] == 'enumerate':
                    i = fresh(Int, 'i')
                    b.assume(i.t >= 0)
                    elem = VTuple([i, VOpaque(hint='elem')])
                else:
                    elem = VTuple([VOpaque(hint='elem') for _ in it.items[1:]])
            elif isinstance(it, VSeq):
                i = fresh(Int, 'idx')
                b.assume(z3.And(i.t >= 0, i.t < z3.Length(it.t)))
                elem = lift(it.t[i.t])
            else:
                raise Refuse(f"for over {it!r} at line {n.lineno}")
        self.assign_target(n.target, elem, b, n)
        nsb = NS(b.env, self.entry_env, b, self.entry_state)
        for hint in L.hints:
            b.assume(hint(nsb))
        for kind, s3, pl in self.block(n.body, b):
            if kind in ('fall', 'continue'):
                fe = self.hooks.get('for_iter_end')
                if fe:
                    fe(self, it, s3, n)          # ghost bookkeeping: this element has been visited
                ns3 = NS(s3.env, self.entry_env, s3, self.entry_state)
                for idx, inv in enumerate(L.invariant):
                    self.oblige(f"{tag}.inv{idx}.preserved", s3, inv(ns3), kind='inv-preserved')
            elif kind == 'break':
                outs.append(('fall', s3, None))
            else:
                outs.append((kind, s3, pl))
        return outs

    def value_equal(self, a, b):
        """exact equality of two symbolic values: identity for references/None, term equality for data"""
        a, b = lift(a), lift(b)
        if isinstance(a, (VObj, VNoneT, VOpaque)) or isinstance(b, (VObj, VNoneT, VOpaque)):
            return same(a, b)
        if isinstance(a, (VTuple, VList)) and isinstance(b, (VTuple, VList)):
            if len(a.items) != len(b.items):
                return VBool(False)
            return And(*[self.value_equal(x, y) for x, y in zip(a.items, b.items)])
        if isinstance(a, VFunc) or isinstance(b, VFunc):
            return VBool(a is b)
        r = a == b
        return r if isinstance(r, VBool) else VBool(bool(r))

    # ------------------------------------------------------------ verifying one function
    def number_loops(self, fnode):
        self.loop_ordinals = {}
        k = 0

        def visit(node):
            nonlocal k
            for ch in ast.iter_child_nodes(node):
                if isinstance(ch, (ast.FunctionDef, ast.AsyncFunctionDef, ast.Lambda, ast.ClassDef)) and ch is not fnode:
                    continue
                if isinstance(ch, (ast.While, ast.For, ast.AsyncFor)):
                    self.loop_ordinals[id(ch)] = k
                    k += 1
                visit(ch)
        visit(fnode)
        return k

    def verify_fn(self, key):
        c = self.reg.fns[key]
        if c.cases:
            res = []
            for name, setup in c.cases:
                res.extend(self.verify_case(key, name, setup))
            return res
        return self.verify_case(key, None, c.setup)

    def verify_case(self, key, case, setup):
        c = self.reg.fns[key]
        tagc = f"[{case}]" if case else ''
        fnode = self.src.find(key)
        if fnode is None:
            raise Refuse(f"function {key} not found in the repository (renamed or removed)")
        self.cur, self.cur_key, self.cur_node = c, key, fnode
        nloops = self.number_loops(fnode)
        # a loop contract whose loop is gone is simply unused (the postconditions decide); a loop WITHOUT a contract refuses later
        self.call_ordinal = 0
        self.nonterm_loops = getattr(self, 'nonterm_loops', [])
        st = State()
        names = [a.arg for a in fnode.args.posonlyargs + fnode.args.args + fnode.args.kwonlyargs]
        if fnode.args.vararg:
            names.append(fnode.args.vararg.arg)
        if fnode.args.kwarg:
            names.append(fnode.args.kwarg.arg)
        self.entry_syms = {}
        for nm in names:
            if nm in c.params:
                st.env[nm] = fresh(c.params[nm], hint=nm)
            else:
                st.env[nm] = VOpaque(hint=nm)
        for nm, sort in c.params.items():
            if nm not in st.env:       # closure variables / extra symbolic inputs
                st.env[nm] = fresh(sort, hint=nm)
        if setup:
            setup(self, st)
        for nm, v in st.env.items():
            if isinstance(v, (VInt, VReal, VBool, VStr)):
                self.entry_syms[nm] = v.t
        self.entry_env = dict(st.env)
        self.entry_state = st.fork()
        ns = NS(st.env, self.entry_env, st, self.entry_state)
        for r in c.requires:
            st.assume(r(ns))
        for h in c.pre_hints:
            st.assume(h(ns))
        # vacuity: the precondition must be satisfiable
        self.oblige(f"{key}{tagc}#vacuity.requires-satisfiable", State(), VBool(z3.Not(z3.And(*st.pc)) if st.pc else False), kind='vacuity-neg')
        self.cur_decreases = c.decreases(ns) if c.decreases else None
        if self.cur_decreases is not None and not isinstance(self.cur_decreases, (tuple, list)):
            self.cur_decreases = (self.cur_decreases,)
        if c.at_every_point:
            self.every_point = lambda eng, s, node: c.at_every_point(eng, s, NS(s.env, self.entry_env, s, self.entry_state), node)
        else:
            self.every_point = None
        if isinstance(fnode, ast.Lambda):
            res = [('ret', s, v) if not isinstance(v, Raised) else ('raise', s, v.exc) for s, v in self.ev(fnode.body, st)]
        else:
            res = self.block(fnode.body, st)
        self.every_point = None
        nret = 0
        for kind, s, pl in res:
            self.cur, self.cur_key = c, key
            nse = NS(s.env, self.entry_env, s, self.entry_state)
            if kind in ('ret', 'fall'):
                nret += 1
                ret = pl if kind == 'ret' else NONE
                for h in c.post_hints:
                    s.assume(h(nse, ret))
                for idx, en in enumerate(c.ensures):
                    self.oblige(f"{key}{tagc}#post{idx}", s, en(nse, ret), kind='post')
                if c.sets:
                    for obj, fld, val in c.sets(nse, ret):
                        cur = s.heap.get(obj.oid, {}).get(fld)
                        goal = VBool(False) if cur is None else self.value_equal(cur, val)
                        self.oblige(f"{key}{tagc}#post.sets[{fld}]", s, goal, kind='post')
            elif kind == 'raise':
                for idx, en in enumerate(c.ensures_exc):
                    self.oblige(f"{key}{tagc}#post_exc{idx}", s, en(nse, pl), kind='post-exc')
                if c.sets_exc:
                    for obj, fld, val in c.sets_exc(nse, pl):
                        cur = s.heap.get(obj.oid, {}).get(fld)
                        goal = VBool(False) if cur is None else self.value_equal(cur, val)
                        self.oblige(f"{key}{tagc}#post_exc.sets[{fld}]", s, goal, kind='post-exc')
                if c.raises is not None and pl.cls != '<any>' and not any(self.src.is_subclass(pl.cls, r) for r in c.raises):
                    self.oblige(f"{key}#raises-only-declared[{pl.cls}]", s, VBool(False), kind='raises')
                elif c.raises is not None and pl.cls == '<any>' and c.raises != ['<any>']:
                    self.oblige(f"{key}#raises-only-declared[any@{pl.site}]", s, VBool(False), kind='raises')
            else:
                raise Refuse(f"{kind} escapes {key}")
            self.paths[key] += 1
        prev = self.verified.get(key, {})
        self.verified[key] = dict(sha=self.src.sha(fnode), paths=self.paths[key], normal_exits=nret + prev.get('normal_exits', 0),
                                  lineno=fnode.lineno)
        # reachability canary: the path condition of the first normal exit (with every contract assumption, lemma
        # instance and callee postcondition collected on the way) must be satisfiable - an inconsistent assumption
        # would make every obligation on that path hold vacuously
        for kind, s, pl in res:
            if kind in ('ret', 'fall'):
                self.oblige(f"{key}{tagc}#vacuity.first-normal-exit-reachable", State(),
                            VBool(z3.Not(z3.And(*s.pc)) if s.pc else False), kind='vacuity-neg')
                break
        if nret == 0 and c.ensures:
            # cover: at least one path must reach a normal return, otherwise the ensures are vacuous
            self.oblige(f"{key}{tagc}#vacuity.some-normal-exit", State(), VBool(False), kind='vacuity-cover')
        return res
