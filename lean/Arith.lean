/-
  C01 (Take): the arithmetic facts behind cyclic extension.  contracts/c01.py hands the solver an uninterpreted remainder
  function constrained by exactly these facts; they are theorems about Int.emod (= Python's % for a positive modulus).
-/

/-- inside the k-th block of length n the remainder is the offset into the block -/
theorem mod_block (i k n : Int) (hn : 0 < n) (h1 : k * n ≤ i) (h2 : i < (k + 1) * n) : i % n = i - k * n := by
  have e : i = (i - k * n) + k * n := by omega
  have h0 : 0 ≤ i - k * n := by omega
  have hlt : i - k * n < n := by
    have : (k + 1) * n = k * n + n := by rw [Int.add_mul, Int.one_mul]
    omega
  calc i % n = ((i - k * n) + k * n) % n := by rw [← e]
    _ = (i - k * n) % n := by rw [Int.add_mul_emod_self_right]
    _ = i - k * n := Int.emod_eq_of_lt h0 hlt

/-- shifting by whole blocks (forwards or backwards) does not change the remainder -/
theorem mod_shift (i k n : Int) : (i + k * n) % n = i % n := by
  rw [Int.add_mul_emod_self_right]

theorem mod_shift_back (i k n : Int) : (i - k * n) % n = i % n := by
  have : i - k * n = i + (-k) * n := by rw [Int.neg_mul]; omega
  rw [this, Int.add_mul_emod_self_right]

/-- the remainder lies in [0, n) -/
theorem mod_range (i n : Int) (hn : 0 < n) : 0 ≤ i % n ∧ i % n < n :=
  ⟨Int.emod_nonneg i (by omega), Int.emod_lt_of_pos i hn⟩

/-- sign facts about the product q*n used for the length of the tiled array -/
theorem mul_ge (q n : Int) (hn : 0 < n) (hq : 1 ≤ q) : n ≤ q * n := by
  have h : 1 * n ≤ q * n := Int.mul_le_mul_of_nonneg_right hq (by omega)
  rw [Int.one_mul] at h
  exact h

theorem mul_nonpos (q n : Int) (hn : 0 < n) (hq : q ≤ 0) : q * n ≤ 0 := by
  have h : q * n ≤ 0 * n := Int.mul_le_mul_of_nonneg_right hq (by omega)
  rw [Int.zero_mul] at h
  exact h

theorem mul_nonneg' (q n : Int) (hn : 0 < n) (hq : 0 ≤ q) : 0 ≤ q * n :=
  Int.mul_nonneg hq (by omega)

#print axioms mod_block
#print axioms mod_shift
#print axioms mod_shift_back
#print axioms mod_range
#print axioms mul_ge
#print axioms mul_nonpos
#print axioms mul_nonneg'
