/-
  Lemmas behind the `msum` axioms used by the C16/C18 contracts (contracts/filecache.py: msum_update_lemma,
  contracts/c16.py: msum_empty).  `msum s c b` is the sum of `b k` over the keys `k` of the finite key universe `s`
  (all file names that ever were in the table) with `c k = true` ("counted").
-/
import Mathlib.Algebra.BigOperators.Group.Finset.Basic
import Mathlib.Algebra.BigOperators.Group.Finset.Piecewise
import Mathlib.Algebra.Order.BigOperators.Group.Finset
import Mathlib.Tactic.Linarith

open Finset

variable {K : Type} [DecidableEq K]

def msum (s : Finset K) (c : K → Bool) (b : K → Int) : Int :=
  ∑ k ∈ s, if c k then b k else 0

/-- every counted entry has non-negative bytes -/
def nonneg (s : Finset K) (c : K → Bool) (b : K → Int) : Prop :=
  ∀ k ∈ s, c k = true → 0 ≤ b k

theorem summand_update (c : K → Bool) (b : K → Int) (f : K) (v : Bool) (x : Int) :
    (fun k => if (Function.update c f v) k then (Function.update b f x) k else 0)
      = Function.update (fun k => if c k then b k else 0) f (if v then x else 0) := by
  funext k
  by_cases h : k = f
  · subst h; simp
  · simp [Function.update, h]

/-- point update: msum(c[f:=v], b[f:=x]) = msum(c,b) - (c f ? b f : 0) + (v ? x : 0) -/
theorem msum_update (s : Finset K) (c : K → Bool) (b : K → Int) (f : K) (v : Bool) (x : Int) (hf : f ∈ s) :
    msum s (Function.update c f v) (Function.update b f x)
      = msum s c b - (if c f then b f else 0) + (if v then x else 0) := by
  unfold msum
  rw [summand_update, Finset.sum_update_of_mem hf]
  have h := Finset.sum_erase_add s (fun k => if c k then b k else 0) hf
  have h2 : s \ {f} = s.erase f := by
    ext k; simp [Finset.mem_sdiff, Finset.mem_erase, and_comm]
  rw [h2]
  linarith

/-- a sum of non-negative terms is non-negative -/
theorem msum_nonneg (s : Finset K) (c : K → Bool) (b : K → Int) (h : nonneg s c b) : 0 ≤ msum s c b := by
  unfold msum
  apply Finset.sum_nonneg
  intro k hk
  by_cases hc : c k = true
  · simp [hc, h k hk hc]
  · simp [hc]

/-- each counted term is bounded by the sum of non-negative terms -/
theorem msum_term_le (s : Finset K) (c : K → Bool) (b : K → Int) (h : nonneg s c b) (f : K) (hf : f ∈ s)
    (hc : c f = true) : 0 ≤ b f ∧ b f ≤ msum s c b := by
  refine ⟨h f hf hc, ?_⟩
  unfold msum
  have hle : (if c f then b f else 0) ≤ ∑ k ∈ s, if c k then b k else 0 := by
    apply Finset.single_le_sum (f := fun k => if c k then b k else 0)
    · intro k hk
      by_cases hck : c k = true
      · simp [hck, h k hk hck]
      · simp [hck]
    · exact hf
  simpa [hc] using hle

/-- non-negativity is preserved by writing a non-negative counted value or an uncounted one -/
theorem nonneg_update (s : Finset K) (c : K → Bool) (b : K → Int) (h : nonneg s c b) (f : K) (v : Bool) (x : Int)
    (hx : v = false ∨ 0 ≤ x) : nonneg s (Function.update c f v) (Function.update b f x) := by
  intro k hk hck
  by_cases hkf : k = f
  · subst hkf
    simp at hck ⊢
    rcases hx with hv | hx
    · simp [hv] at hck
    · exact hx
  · simp [Function.update, hkf] at hck ⊢
    exact h k hk hck

/-- nothing counted: the sum is 0 -/
theorem msum_empty (s : Finset K) (c : K → Bool) (b : K → Int) (h : ∀ k, c k = false) : msum s c b = 0 := by
  unfold msum
  apply Finset.sum_eq_zero
  intro k _
  simp [h k]

#print axioms msum_update
#print axioms msum_term_le
#print axioms nonneg_update
#print axioms msum_empty
#print axioms msum_nonneg
