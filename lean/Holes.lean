/-
Lemmas behind the SMT axioms of contracts/c03_merge.py (projection flattening).

`H k p` in the contract counts the open holes among positions 0..p-1 of the argument list after k-1 steps:
    H k 0 = 0,   H k (p+1) = H k p + (if the entry at p is a hole then 1 else 0).
`FP k p` is the entry at position p after k-1 steps; a filled entry stays what it is:
    ¬ hole (FP k p) → FP (k+1) p = FP k p.
The two facts the solver cannot find by itself are inductions:
  * count_mono      : the prefix count is monotone in the prefix length,
  * filled_stays    : an entry that is filled at step 1 is the same at every later step.
Both are stated for arbitrary functions satisfying the defining equations, which is how the SMT side uses them.
-/

theorem count_mono (c : Nat → Nat) (hole : Nat → Prop) [DecidablePred hole]
    (_h0 : c 0 = 0) (hs : ∀ p, c (p + 1) = c p + (if hole p then 1 else 0)) :
    ∀ p q, p ≤ q → c p ≤ c q := by
  intro p q hpq
  induction q with
  | zero =>
    have : p = 0 := Nat.le_zero.mp hpq
    subst this
    exact Nat.le_refl _
  | succ n ih =>
    cases Nat.lt_or_ge p (n + 1) with
    | inl hlt =>
      have hle : p ≤ n := Nat.le_of_lt_succ hlt
      have := ih hle
      rw [hs n]
      exact Nat.le_trans this (Nat.le_add_right _ _)
    | inr hge =>
      have : p = n + 1 := Nat.le_antisymm hpq hge
      subst this
      exact Nat.le_refl _

theorem filled_stays {α : Type} (f : Nat → α) (hole : α → Prop)
    (step : ∀ k, ¬ hole (f k) → f (k + 1) = f k) :
    ¬ hole (f 0) → ∀ k, f k = f 0 := by
  intro h0 k
  induction k with
  | zero => rfl
  | succ n ih =>
    have hn : ¬ hole (f n) := by rw [ih]; exact h0
    rw [step n hn, ih]

#print axioms count_mono
#print axioms filled_stays
