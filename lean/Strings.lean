/-
  C11: quote-doubling encode / decode round trip on List Char.
  `encb` is the writer's escaping (kg_write_string body between the outer quotes), `dec` the reader's decoding
  (read_string, started after the opening quote): it returns the decoded text and the number of characters consumed
  including the closing quote.  The follow condition: the character after the closing quote is not a quote.
-/
def e (c : Char) : List Char := if c = '"' then ['"', '"'] else [c]

def encb : List Char → List Char
  | [] => []
  | c :: s => e c ++ encb s

/-- decoder with fuel = length of input (structural on fuel) -/
def dec : Nat → List Char → List Char × Nat
  | 0, _ => ([], 0)
  | _, [] => ([], 0)
  | n+1, c :: u =>
    if c = '"' then
      match u with
      | d :: u' => if d = '"' then let (r, k) := dec n u'; ('"' :: r, k + 2) else ([], 1)
      | [] => ([], 1)
    else let (r, k) := dec n u; (c :: r, k + 1)

theorem roundtrip (s tail : List Char) (h : tail.head? ≠ some '"') (fuel : Nat)
    (hf : (encb s ++ '"' :: tail).length ≤ fuel) :
    dec fuel (encb s ++ '"' :: tail) = (s, (encb s).length + 1) := by
  induction s generalizing fuel with
  | nil =>
    cases fuel with
    | zero => simp at hf
    | succ n =>
      cases tail with
      | nil => simp [encb, dec]
      | cons d tl =>
        have : d ≠ '"' := by simpa using h
        simp [encb, dec, this]
  | cons c s ih =>
    by_cases hc : c = '"'
    · subst hc
      cases fuel with
      | zero => simp [encb, e] at hf
      | succ n =>
        have hf' : (encb s ++ '"' :: tail).length ≤ n := by
          simp [encb, e] at hf ⊢; omega
        simp [encb, e, dec, ih n hf']
    · cases fuel with
      | zero => simp [encb, e, hc] at hf
      | succ n =>
        have hf' : (encb s ++ '"' :: tail).length ≤ n := by
          simp [encb, e, hc] at hf ⊢; omega
        simp [encb, e, hc, dec, ih n hf']

/-- the encoding never leaves a lone quote: its length is |s| + number of quotes in s -/
theorem encb_length (s : List Char) : (encb s).length = s.length + (s.filter (· = '"')).length := by
  induction s with
  | nil => simp [encb]
  | cons c s ih =>
    by_cases hc : c = '"'
    · subst hc; simp [encb, e, ih]; omega
    · simp [encb, e, hc, ih]; omega

#print axioms roundtrip
#print axioms encb_length

-- cross-check of the three renderings (Lean / Python / SMT): printed for the strings enumerated by replay/c11.py
def showPair (p : List Char × Nat) : String := String.mk p.1 ++ "|" ++ toString p.2
#eval showPair (dec 100 ("ab\"\"c\" x".toList))
#eval String.mk (encb "a\"b".toList)
#eval showPair (dec 100 ((encb "\"\"a \"[".toList) ++ ['"', ' ', ']']))
