/-
  C02: the two inductive facts behind the adverb specifications.
  foldl_cons  : foldl f (f a b0) bs = foldl f a (b0 :: bs)          (Over-Neutral:  a f/ b  = reduce(f, b[1:], f(a, b[0])))
  scanl_last  : the last member of the left scan is the left fold      (Scan-Over collects the prefixes of Over)
-/
def foldl' {α β : Type} (f : β → α → β) : β → List α → β
  | a, [] => a
  | a, x :: xs => foldl' f (f a x) xs

def scanl' {α β : Type} (f : β → α → β) : β → List α → List β
  | a, [] => [a]
  | a, x :: xs => a :: scanl' f (f a x) xs

theorem foldl_cons {α β : Type} (f : β → α → β) (a : β) (b0 : α) (bs : List α) :
    foldl' f (f a b0) bs = foldl' f a (b0 :: bs) := by
  simp [foldl']

theorem scanl_last {α β : Type} (f : β → α → β) (a : β) (b : List α) :
    (scanl' f a b).getLast? = some (foldl' f a b) := by
  induction b generalizing a with
  | nil => simp [scanl', foldl']
  | cons x xs ih =>
    have h := ih (f a x)
    cases hs : scanl' f (f a x) xs with
    | nil => simp [hs] at h
    | cons y ys =>
      simp [scanl', foldl', hs, List.getLast?_cons_cons] at h ⊢
      exact h

#print axioms foldl_cons
#print axioms scanl_last
