"""C03 - function application, projection, locals and conditionals.

 (1) context-stack discipline: _eval_fn / call / eval / __call__ leave the scope sequence identical (same scope objects,
     same order, same minimum) on normal AND exceptional exit, whatever the body does and wherever it raises
     (assume-guarantee over the mutual recursion; documented exception: a .module switch);
 (2) KlongContext as a stack of finite maps: push / pop / lookup of the innermost binding / assignment to the scope that
     already holds the name / deletion, with whole-stack frame postconditions;
 (3) projection flattening merge_projections == "fill the holes left to right at every step"  (proved: contracts/c03_merge.py; and
     cross-checked bounded: exhaustive over the
     language's domain of at most 4 argument lists of at most 3 entries, on the real function);
 (4) a conditional evaluates its test once and exactly one of its two branches, selected by Klong truth.
"""
import z3
from pyvc.values import *
from pyvc.state import Raised
from pyvc.contracts import loop
from . import ctxmodel as cm
from .ctxmodel import KC, KI, VArr

T = 'klongpy/types.py::'
CALLCNT = z3.ArraySort(Obj, Int)


def C(s): return s.st.field(s.self, '_context')
def inv_k(s, *a): return cm.ctx_inv(s.st, C(s))
def pres_k(s, *a): return And(cm.stack_preserved(s, C(s)), cm.monotone_switch(s), cm.ctx_inv(s.st, C(s)))
def inv_c(s, *a): return cm.ctx_inv(s.st, s.self)


def klong_setup(eng, st):
    cm.mk_klong(st)
    st.ghost['callcnt'] = VArr(z3.Const('callcnt0', CALLCNT))
    st.ghost['ret_of'] = VArr(z3.Const('ret_of0', z3.ArraySort(Obj, Obj)))


def ctx_setup(eng, st):
    st.env['self'] = cm.mk_context(st)


def eff_k(eng, st, s):
    cm.preserve_effect(st, st.field(s.self, '_context'))


def log_call(eng, st, s, ret):
    """ghost log of evaluations: how often each program node was handed to call(), and the value it produced"""
    x = eng.as_obj(s.x)
    cc = st.ghost['callcnt'].t
    st.ghost['callcnt'] = VArr(z3.Store(cc, x, z3.Select(cc, x) + 1))
    st.ghost['ret_of'] = VArr(z3.Store(st.ghost['ret_of'].t, x, eng.as_obj(ret)))


def truthspec(eng, st, q):
    """Klong truth of q:  not (q is a number and q == 0) and not empty(q)     (0, [] and "" are false)"""
    qo = q.t
    isnum = z3.Function('assumed:self._backend.is_number', Obj, Bool)(qo)
    eq0 = VOpaque(qo).__eq__(lift(0)).t
    empty = z3.Function('assumed:is_empty', Obj, Bool)(qo)
    return z3.And(z3.Not(z3.And(isnum, eq0)), z3.Not(empty))


def build(reg, src, evaluator=True, verify_evaluator=True):
    reg.assumptions += [
        "Python callables given by users, the verb functions (monads/dyads/adverbs) and compiled expressions are assumed "
        "stack-preserving (they reach the context only through eval/call, whose contract is proved here, or through "
        "start_module/stop_module - the documented .module exception recorded by the ghost flag `switched`)",
        "substitution semantics of whole bodies is a statement about the evaluator as a whole: only its binding / lookup / stack "
        "mechanism is under contract",
        "KlongContext.__getitem__ is specified for stacks without module scopes (the backtick rules of module scopes are not under contract)",
        "merge_projections: proved against the positional fill specification for any number of steps and any lengths (contracts/c03_merge.py); "
        "the exhaustive enumeration over the language's domain (<= 4 argument lists of <= 3 entries) is kept as a bounded cross-check of the "
        "specification's renderings and as the source of concrete failing inputs",
        "compile_expr / chain_adverbs / get_fn_arity / kg_asarray / is_number / is_empty: assumed terminating and context-neutral",
    ]
    reg.assumed_calls.update({
        'merge_projections': 'opaque', 'has_none': Bool, 'compile_expr': 'opaque', 'chain_adverbs': 'nonnull',
        'self._backend.is_number': Bool, 'is_empty': Bool, 'self._backend.kg_asarray': 'nonnull', 'is_list': Bool,
        'self._compiled_for': Bool,      # admission test on the arguments of compiled code (its body: C05's structural obligation)
    })
    reg.pure_calls |= {'self._backend.is_number', 'is_empty', 'self._compiled_for'}
    for k in ('safe_eq', 'in_map'):
        reg.fn(T + k, inline=True)
    for k in ('_get_op_fn',):
        reg.fn(KI + k, inline=True)

    # ---------------- KlongContext
    seq = lambda s: cm.seq_of(s.st, s.self)
    seq0 = lambda s: cm.seq_of(s.old, s.self)
    mn = lambda s: cm.min_of(s.st, s.self)
    mn0 = lambda s: cm.min_of(s.old, s.self)
    contents_same = lambda s, *a: And(VBool(s.st.ghost['has'].t == s.old.ghost['has'].t), VBool(s.st.ghost['mem'].t == s.old.ghost['mem'].t))

    def hv_seq(eng, st, s):
        st.setfield(s.self, '_context', VSeq(z3.Const(fresh_name('scopes'), cm.SeqObj)))

    def init_setup(eng, st):
        cm.init_ghost(st)
        st.env['self'] = st.alloc('KlongContext', {}, fresh=False)
        st.env['system_contexts'] = VList([VOpaque(hint='sys_var', nonnull=True), VOpaque(hint='sys_d', nonnull=True)])
    reg.externals['deque'] = lambda eng, st, a, k, n: [(st, VSeq(z3.Concat(*[z3.Unit(eng.as_obj(x)) for x in a[0].items]) if len(a[0].items) > 1 else z3.Unit(eng.as_obj(a[0].items[0]))))]
    reg.fn(KC + '__init__', setup=init_setup, returns=None,
           ensures=[inv_c, lambda s, r: VBool(z3.And(z3.Length(seq(s)) == 3, mn(s) == 2))])

    reg.fn(KC + 'push', setup=ctx_setup, returns=None, raises=[], requires=[inv_c], modifies=hv_seq,
           ensures=[lambda s, r: VBool(seq(s) == z3.Concat(z3.Unit(s.d.t), seq0(s))), lambda s, r: VBool(mn(s) == mn0(s)), inv_c, contents_same])
    reg.fn(KC + 'pop', setup=ctx_setup, returns='opaque', raises=[], requires=[inv_c], modifies=hv_seq,
           ensures=[lambda s, r: VBool(seq(s) == z3.If(z3.Length(seq0(s)) > mn0(s), z3.SubSeq(seq0(s), 1, z3.Length(seq0(s)) - 1), seq0(s))),
                    lambda s, r: VBool(mn(s) == mn0(s)), inv_c, contents_same])

    def module_eff(eng, st, s):
        hv_seq(eng, st, s)
        st.setfield(s.self, '_min_ctx_count', fresh(Int, 'min_ctx'))
        st.ghost['switched'] = lift(True)
        st.ghost['has'] = VArr(z3.Const(fresh_name('has'), cm.A2B))

    def on_module(eng):
        pass
    reg.fn(KC + 'start_module', setup=ctx_setup, returns=None, requires=[inv_c], modifies=module_eff,
           ghost_at_call=lambda eng, st, s, r: st.ghost.__setitem__('switched', lift(True)),
           ensures=[inv_c, lambda s, r: VBool(z3.And(z3.Length(seq(s)) == z3.Length(seq0(s)) + 1, mn(s) == z3.Length(seq(s))))])
    reg.fn(KC + 'stop_module', setup=ctx_setup, returns=None, requires=[inv_c], modifies=module_eff,
           ghost_at_call=lambda eng, st, s, r: st.ghost.__setitem__('switched', lift(True)),
           ensures=[inv_c, lambda s, r: VBool(z3.And(z3.Length(seq(s)) == z3.Length(seq0(s)) + 1, mn(s) == mn0(s)))])

    # lookup: innermost binding
    j = z3.Const('j!s', Int)

    def no_modules(s):
        return VBool(z3.ForAll([j], z3.Implies(z3.And(j >= 0, j < z3.Length(seq(s))),
                                               z3.Not(z3.Function('p:isinst:KGModule', Obj, Bool)(seq(s)[j])))))

    def no_modules_old(s):
        sq = seq0(s)
        return VBool(z3.ForAll([j], z3.Implies(z3.And(j >= 0, j < z3.Length(sq)),
                                               z3.Not(z3.Function('p:isinst:KGModule', Obj, Bool)(sq[j])))))

    def has_at(st, sc, k): return z3.Select(z3.Select(st.ghost['has'].t, sc), k)
    def mem_at(st, sc, k): return z3.Select(z3.Select(st.ghost['mem'].t, sc), k)

    def getitem_post(s, r):
        k = s.k.t
        i = z3.Const('i!g', Int)
        sq = seq(s)
        return VBool(z3.Exists([i], z3.And(i >= 0, i < z3.Length(sq), has_at(s.st, sq[i], k), r.t == mem_at(s.st, sq[i], k),
                                           z3.ForAll([j], z3.Implies(z3.And(j >= 0, j < i), z3.Not(has_at(s.st, sq[j], k)))))))

    def getitem_exc(s, e):
        k = s.k.t
        return VBool(z3.ForAll([j], z3.Implies(z3.And(j >= 0, j < z3.Length(seq(s))), z3.Not(has_at(s.st, seq(s)[j], k)))))

    def sym_setup(eng, st):
        ctx_setup(eng, st)
        k = VOpaque(hint='k', nonnull=True)
        st.assume(k.pred('isinst:KGSym'))
        st.assume(k.pred('isinst:str'))
        st.env['k'] = k

    not_found_before = lambda s: VBool(z3.ForAll([j], z3.Implies(z3.And(j >= 0, j < s.g('__for_i').t),
                                                                 z3.Not(has_at(s.st, seq(s)[j], s.k.t)))))
    unchanged_in_loop = lambda s: And(VBool(seq(s) == seq0(s)), contents_same(s), VBool(mn(s) == mn0(s)))
    guard_nm = lambda f: (lambda s, r: Implies(no_modules_old(s), f(s, r)))
    reg.fn(KC + '__getitem__', setup=sym_setup, returns='opaque', requires=[inv_c],
           loops={0: loop(invariant=[lambda s: Implies(no_modules_old(s), not_found_before(s)), unchanged_in_loop,
                                     lambda s: Implies(no_modules_old(s), same(s.k, s.k0))],
                          havoc=dict(v='opaque', d='opaque', k='opaque', p='opaque', tk='opaque')),
                  1: loop(invariant=[unchanged_in_loop], havoc=dict(dk='opaque'))},
           ensures=[guard_nm(getitem_post), lambda s, r: VBool(seq(s) == seq0(s)), contents_same],
           ensures_exc=[guard_nm(getitem_exc), contents_same])

    RES = lambda k: RES_IMPL[0](k)

    def setitem_post(s, r):
        """the name is (re)bound in the first scope that already holds it, else in the innermost scope; nothing else changes"""
        k, st, old = s.k.t, s.st, s.old
        sq = seq0(s)
        i = z3.Const('i!g', Int)
        sc, kk = z3.Const('sc!q', Obj), z3.Const('kk!q', Obj)
        def only_changed(target):
            return z3.ForAll([sc, kk], z3.Implies(z3.Not(z3.And(sc == target, kk == k)),
                                                  z3.And(has_at(st, sc, kk) == has_at(old, sc, kk),
                                                         z3.Implies(has_at(old, sc, kk), mem_at(st, sc, kk) == mem_at(old, sc, kk)))))
        found = z3.Exists([i], z3.And(i >= 0, i < z3.Length(sq), has_at(old, sq[i], k),
                                      z3.ForAll([j], z3.Implies(z3.And(j >= 0, j < i), z3.Not(has_at(old, sq[j], k)))),
                                      has_at(st, sq[i], k), only_changed(sq[i]),
                                      stored_ok(mem_at(st, sq[i], k), s.v0)))
        nowhere = z3.ForAll([j], z3.Implies(z3.And(j >= 0, j < z3.Length(sq)), z3.Not(has_at(old, sq[j], k))))
        created = z3.And(has_at(st, sq[0], k), only_changed(sq[0]), stored_ok(mem_at(st, sq[0], k), s.v0))
        return VBool(z3.And(seq(s) == sq, mn(s) == mn0(s),
                            z3.If(z3.And(z3.Not(RES(k)), z3.Not(nowhere)), found, created)))

    def stored_ok(stored, v):
        """what lands in the map is the value itself for data, and the Klong wrapper of a Python callable (set_context_var)"""
        vo = v.t
        callable_ = z3.Function('p:callable', Obj, Bool)(vo)
        islam = z3.Function('p:isinst:KGLambda', Obj, Bool)(vo)
        wrapped = z3.And(z3.Function('p:isinst:KGCall', Obj, Bool)(stored), z3.Function('wrapped_fn', Obj, Obj)(stored) == vo)
        return z3.If(z3.And(callable_, z3.Not(islam)), wrapped, stored == vo)

    def set_setup(eng, st):
        sym_setup(eng, st)
        st.env['v'] = VOpaque(hint='v')
        st.assume(VBool(z3.Length(cm.seq_of(st, st.env['self'])) >= 1))

    reg.fn(KC + '__setitem__', setup=set_setup, returns='opaque', requires=[inv_c],
           loops={0: loop(invariant=[not_found_before, unchanged_in_loop], havoc=dict(d='opaque'))},
           modifies=lambda eng, st, s: (st.ghost.__setitem__('has', VArr(z3.Const(fresh_name('has'), cm.A2B))),
                                        st.ghost.__setitem__('mem', VArr(z3.Const(fresh_name('mem'), cm.A2O)))),
           ensures=[setitem_post], ensures_exc=[lambda s, e: VBool(seq(s) == seq0(s))])

    def sv_setup(eng, st):
        cm.init_ghost(st)
        st.env['d'] = VOpaque(hint='d', nonnull=True)
        st.env['sym'] = VOpaque(hint='sym', nonnull=True)
        st.assume(st.env['sym'].pred('isinst:KGSym'))
        st.env['v'] = VOpaque(hint='v')

    def sv_post(s, r):
        st, old, d, k = s.st, s.old, s.d.t, s.sym.t
        sc, kk = z3.Const('sc!q', Obj), z3.Const('kk!q', Obj)
        return VBool(z3.And(has_at(st, d, k), stored_ok(mem_at(st, d, k), s.v0),
                            z3.ForAll([sc, kk], z3.Implies(z3.Not(z3.And(sc == d, kk == k)),
                                                           z3.And(has_at(st, sc, kk) == has_at(old, sc, kk),
                                                                  z3.Implies(has_at(old, sc, kk), mem_at(st, sc, kk) == mem_at(old, sc, kk)))))))
    reg.fn(cm.I + 'set_context_var', setup=sv_setup, returns=None,
           modifies=lambda eng, st, s: (st.ghost.__setitem__('has', VArr(z3.Const(fresh_name('has'), cm.A2B))),
                                        st.ghost.__setitem__('mem', VArr(z3.Const(fresh_name('mem'), cm.A2O)))),
           ensures=[sv_post])

    # ---------------- evaluator: stack discipline (assume-guarantee over eval -> _eval_fn -> call -> eval)
    common = dict(setup=klong_setup, requires=[inv_k], modifies=eff_k, ensures=[pres_k], ensures_exc=[pres_k],
                  idempotent_effects=True, returns='opaque', verify=verify_evaluator)
    reg.fn(KI + 'call', ghost_at_call=log_call, **common)
    reg.fn(KI + '_eval_fn', loops={0: loop(invariant=[inv_k, pres_k], havoc=dict(q='opaque'))}, **common)
    reg.fn(KI + '_resolve_fn', **dict(common, returns=('opaque', 'opaque', 'opaque')))

    # recursion through .f: in the frame of the call, .f is the function AS IT WAS CALLED - with its declaration of locals - so that a
    # recursive call gets its own locals (binding the body stripped of the declaration makes the callee's `a::...` write the caller's a)
    def note_resolved(eng, st, s, r):
        if isinstance(r, VTuple) and 'resolved_f' in st.ghost:
            st.ghost['resolved_f'] = r.items[0]
    reg.fns[KI + '_resolve_fn'].ghost_at_call = note_resolved

    def note_push(eng, st, s, r):
        """when the frame is pushed: is its .f entry the function that was resolved for this call?"""
        rf = st.ghost.get('resolved_f')
        if isinstance(rf, VOpaque) and isinstance(s.d, VOpaque):
            dotf = eng_globals['reserved_dot_f_symbol']
            stored = z3.Select(z3.Select(st.ghost['mem'].t, s.d.t), dotf.t)
            has = z3.Select(z3.Select(st.ghost['has'].t, s.d.t), dotf.t)
            st.ghost['dotf_ok'] = VBool(z3.And(has, stored == rf.t))
    reg.fns[KC + 'push'].ghost_at_call = note_push

    def dot_f_is_the_called_function(s, *a):
        ok = s.st.ghost.get('dotf_ok')
        return ok if isinstance(ok, VBool) and s.has('ctx') else VBool(True)
    ce = reg.fns[KI + '_eval_fn']
    prev_setup_ef = ce.setup

    def ef_setup(eng, st):
        prev_setup_ef(eng, st)
        st.ghost['resolved_f'] = NONE
    ce.setup = ef_setup
    ce.ensures = list(ce.ensures) + [dot_f_is_the_called_function]
    ce.ensures_exc = list(ce.ensures_exc) + [dot_f_is_the_called_function]

    # eval: the general contract, plus the conditional as a separate case with its evaluation log
    def cond_case(eng, st):
        klong_setup(eng, st)
        x = st.alloc('KGCond', {'0': VOpaque(hint='e0', nonnull=True), '1': VOpaque(hint='e1', nonnull=True), '2': VOpaque(hint='e2', nonnull=True)}, fresh=False)
        st.env['x'] = x
        e0, e1, e2 = (st.field(x, k).t for k in '012')
        st.assume(z3.Distinct(e0, e1, e2))

    def cond_post(s, r):
        x = s.x0
        if not (isinstance(x, VObj) and x.cls == 'KGCond'):
            return VBool(True)
        e0, e1, e2 = (s.old.field(x, k).t for k in '012')
        c0, c1 = s.old.ghost['callcnt'].t, s.st.ghost['callcnt'].t
        d = lambda e: z3.Select(c1, e) - z3.Select(c0, e)
        q = VOpaque(z3.Select(s.st.ghost['ret_of_test'].t, e0)) if 'ret_of_test' in s.st.ghost else None
        qv = VOpaque(z3.Select(s.st.ghost['ret_of'].t, e0))        # the value the test evaluated to (ghost log of call())
        parts = [d(e0) == 1, d(e1) + d(e2) == 1, d(e1) >= 0, d(e2) >= 0, (d(e1) == 1) == truthspec(None, s.st, qv)]
        return VBool(z3.And(*parts))

    def generic_case(eng, st):
        klong_setup(eng, st)

    reg.fn(KI + 'eval', cases=[('any-node', generic_case), ('conditional', cond_case)], verify=verify_evaluator,
           requires=[inv_k], modifies=eff_k, ensures=[pres_k, cond_post], ensures_exc=[pres_k], idempotent_effects=True, returns='opaque')
    reg.fn(KI + '__call__', **common)
    reg.fn(KI + 'exec', **common)
    reg.fn(KI + 'prog', verify=False, returns=('opaque', 'opaque'), notes='parser: writes nothing of the context (C12 frame)')
    reg.fn(KC + '__delitem__', setup=sym_setup, returns=None, requires=[inv_c],
           loops={0: loop(invariant=[lambda s: VBool(seq(s) == seq0(s)), lambda s: VBool(mn(s) == mn0(s))], havoc=dict(d='opaque'))},
           modifies=lambda eng, st, s: st.ghost.__setitem__('has', VArr(z3.Const(fresh_name('has'), cm.A2B))),
           ensures=[lambda s, r: VBool(z3.And(seq(s) == seq0(s), mn(s) == mn0(s)))], ensures_exc=[lambda s, e: VBool(seq(s) == seq0(s)), contents_same])

    from replay import c03 as rp
    if not verify_evaluator:
        reg.replays.append((r'KlongContext\.(__getitem__|__setitem__|__delitem__)|set_context_var', rp.replay_scopes))
        return
    reg.extra_checks.append(rp.check_merge_projections)

    # projection flattening as an UNBOUNDED statement: merge_projections / has_none against the positional fill specification, loop
    # invariants + two Lean lemmas (contracts/c03_merge.py). The enumeration above stays as the cross-check of the spec renderings and as
    # the source of a concrete failing input when the proof no longer goes through on changed code.
    def merge_projections_proof(ctx):
        from pyvc.subverify import subverify
        from contracts import c03_merge
        keys = [c03_merge.T + 'has_none', c03_merge.T + 'merge_projections']
        rows, sub = subverify(src, 'C03', c03_merge, keys, why='fills the holes left to right at every step (any number of steps, any lengths)', timeout_s=30)
        for k in keys:
            if src.find(k) is not None:
                ctx['eng'].verified[k] = dict(sha=src.sha(src.find(k)), backend='z3/cvc5 + lean (contracts/c03_merge.py)')
        ctx['eng'].reg.assumptions += [a for a in sub.reg.assumptions if a not in ctx['eng'].reg.assumptions]
        from pyvc.leancheck import lean_check
        rows += lean_check('Holes.lean', ['count_mono', 'filled_stays'])(ctx)
        return rows
    merge_projections_proof.__name__ = 'merge-projections-proof'
    reg.extra_checks.append(merge_projections_proof)

    # "the call form equals the body with the arguments substituted" also on the compiled fast path: whatever goes wrong inside
    # compiled code (ZeroDivisionError of Python's `/` where 1%0 is :undefined, ...) must end in the interpreter path, as in the
    # substituted body - C05's contract of eval, re-verified here
    def compiled_path_falls_back(ctx):
        from pyvc.subverify import subverify
        from contracts import c05
        import replay.c03 as rp3
        rows, _ = subverify(src, 'C03', c05, [KI + 'eval'], replay=rp3.replay_call_vs_body,
                            why='an exception raised by compiled code falls back to the interpreter (call form == substituted body)')
        ctx['eng'].verified[KI + 'eval (compiled-path fallback)'] = dict(sha=src.sha(src.find(KI + 'eval')), backend='z3 (contract of contracts/c05.py)')
        return rows
    compiled_path_falls_back.__name__ = 'compiled-path-falls-back'
    reg.extra_checks.append(compiled_path_falls_back)
    reg.replays.append((r'KlongContext\.(__getitem__|__setitem__|__delitem__)|set_context_var', rp.replay_scopes))
    reg.replays.append((r'_eval_fn#post(_exc)?1', rp.replay_application))
    reg.replays.append((r'eval\[conditional\]', rp.replay_cond))
    reg.replays.append((r'KlongInterpreter|KlongContext\.(push|pop|start_module|stop_module|__init__)', rp.replay_stack))


REGIONS = {}
RES_IMPL = [lambda k: z3.Function('p:in', Obj, Obj, Bool)(k, z3.Const('reserved_fn_symbols', Obj))]


eng_globals = {g: VOpaque(z3.Const(g, Obj), nonnull=True) for g in ('reserved_fn_symbols', 'reserved_fn_symbol_map', 'reserved_fn_args', 'reserved_dot_f_symbol')}


def configure(eng):
    cm.configure(eng)
    eng.opaque_classes |= {'KGCall', 'KGFn', 'KGLambda', 'KGSym', 'KGModule', 'KlongException', 'KGFnWrapper'}
    for g, v in eng_globals.items():
        eng.globals_v[g] = v

    def call_opaque(e, fv, args, kwargs, st, node):
        """a Python callable / verb function / compiled expression run by the evaluator: assumed stack-preserving"""
        c = cm.find_ctx(st)
        s2 = st.fork()
        cm.preserve_effect(st, c)
        cm.preserve_effect(s2, c)
        s2.trail.append(f"raise@{node.lineno}:opaque-callable")
        return [(st, VOpaque(hint='result')), e.exc(s2, '<any>', node)]
    eng.hooks['call_opaque'] = call_opaque

    def index(e, obj, key, st, node):
        if isinstance(obj, VObj) and obj.cls == 'KGCond' and isinstance(key, VInt) and z3.is_int_value(key.t):
            return [(st, st.field(obj, str(key.t.as_long())))]
        return prev_index(e, obj, key, st, node)
    prev_index = eng.hooks['index']
    eng.hooks['index'] = index

    def new_lambda(e, args, kwargs, st, node):
        o = e.mk_opaque_instance('KGLambda', st)
        st.assume(VBool(z3.Function('lambda_fn', Obj, Obj)(o.t) == e.as_obj(args[0])))
        return [(st, o)] + e.maybe_raise(st, 'KGLambda', node)
    eng.hooks['new:KGLambda'] = new_lambda

    def new_call(e, args, kwargs, st, node):
        o = e.mk_opaque_instance('KGCall', st)
        a0 = args[0] if args else kwargs.get('a')
        if isinstance(a0, VOpaque):
            st.assume(VBool(z3.Function('wrapped_fn', Obj, Obj)(o.t) == z3.Function('lambda_fn', Obj, Obj)(a0.t)))
        return [(st, o)]
    eng.hooks['new:KGCall'] = new_call
    eng.opaque_methods |= {'get_arity', 'is_op', 'is_adverb_chain', 'split', 'startswith'}
