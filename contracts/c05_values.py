"""C05, value level (numpy backend): the compiled template of every IR production denotes the value of the interpreter's verb
for that operator, on every operand the admission function lets through.

Method: both sides are read from the REAL source on every run -
  compiled side   the template emitted by the real `_ir_to_source` for the production (placeholder children), parsed by CPython;
  interpreter side the decision list of the verb: `eval_adverb_over` / `eval_adverb_scan_over` (pre-guards, one branch per operator
                  with its extra guards, generic fold at the end), the dyads `eval_dyad_add/subtract/multiply/divide/power`, Negate;
and compared as terms modulo a table of DECLARED NumPy/Python identities (assumed contracts, listed below and in the evidence):
  I1  l+r, l-r, l*r, -l          ==  np.add / subtract / multiply / negative on numbers and arrays
  I2  l/r                        ==  np.divide(l,r), except that Python scalars raise ZeroDivisionError on r == 0 (an exception in
                                     compiled code leads to the interpreter: contract (4) of contracts/c05.py)
  I3  u.reduce(a)                ==  functools.reduce(u, a) == a[0] if len(a)==1, for len(a) >= 1;  u.reduce(scalar) == scalar
  I4  np.max(a) / np.min(a)      ==  np.maximum.reduce(a) / np.minimum.reduce(a)     ONLY when a.ndim == 1
  I5  np.cumsum(a)/np.cumprod(a) ==  np.add.accumulate(a) / np.multiply.accumulate(a) ONLY when a.ndim == 1
  I6  u.reduce(empty)            ==  the identity element of u for add/multiply (NOT the operand); raises for maximum/minimum
  I7  u.accumulate(scalar) raises; np.cumsum(scalar) is a one-element array (NOT the scalar); u.accumulate(empty) == empty
An obligation `...#value-equivalence[<production>]` holds when, for every case of the interpreter's decision list that an admitted
operand can reach, the template's value equals the case's value by these identities under the case's guard, or the template raises
(fallback).  Admission (`_ast_to_ir`, variable case) must be by EXACT type for scalars (int/float) - subclasses such as np.float64
do not raise on division by zero - which is an obligation of its own.  Comparisons (`(l==r)*1` vs vec_fn2/safe_equal) and the
torch backend are NOT decided here (torch is not installed; object-dtype comparison semantics not tabulated)."""
import ast

NB = 'klongpy/backends/numpy_backend.py'
AD = 'klongpy/adverbs.py'
DY = 'klongpy/dyads.py'
MO = 'klongpy/monads.py'
CO = 'klongpy/compiler.py'

UFUNC = {'+': 'np.add', '-': 'np.subtract', '*': 'np.multiply', '%': 'np.divide', '|': 'np.maximum', '&': 'np.minimum'}
RANK1_ALIASES = {'np.max': 'np.maximum.reduce', 'np.min': 'np.minimum.reduce', 'np.cumsum': 'np.add.accumulate', 'np.cumprod': 'np.multiply.accumulate',
                 'np.amax': 'np.maximum.reduce', 'np.amin': 'np.minimum.reduce', 'np.sum': 'np.add.reduce', 'np.prod': 'np.multiply.reduce'}


def dotted(e):
    if isinstance(e, ast.Name):
        return e.id
    if isinstance(e, ast.Attribute):
        b = dotted(e.value)
        return None if b is None else f"{b}.{e.attr}"
    return None


def norm_call(name):
    if name is None:
        return None
    for p in ('np_backend.', 'backend.np.', 'bknp.', 'numpy.'):
        if name.startswith(p):
            return 'np.' + name[len(p):]
    return name


def decision_list(fn):
    """adverb verbs: -> dict(pre=[(guard_text, value_text)], ops={op: (extra_guards, call_name)}, generic=call_text)"""
    out = dict(pre=[], ops={}, generic=None)
    body = [b for b in fn.body if not (isinstance(b, ast.Expr) and isinstance(b.value, ast.Constant))]
    for st in body:
        if isinstance(st, ast.If) and not (isinstance(st.test, ast.Call) and dotted(st.test.func) == 'isinstance'):
            if len(st.body) == 1 and isinstance(st.body[0], ast.Return) and not st.orelse:
                out['pre'].append((ast.unparse(st.test), ast.unparse(st.body[0].value)))
                continue
        if isinstance(st, ast.If) and isinstance(st.test, ast.Call) and dotted(st.test.func) == 'isinstance':
            cur = st.body[0] if st.body else None
            while isinstance(cur, ast.If):
                conj = cur.test.values if isinstance(cur.test, ast.BoolOp) and isinstance(cur.test.op, ast.And) else [cur.test]
                op, extra = None, []
                for c in conj:
                    if isinstance(c, ast.Call) and dotted(c.func) == 'safe_eq' and len(c.args) == 2 and isinstance(c.args[1], ast.Constant):
                        op = c.args[1].value
                    elif isinstance(c, ast.Call) and dotted(c.func) == 'hasattr':
                        continue                                  # capability test of the backend: true for NumPy ufuncs
                    else:
                        extra.append(ast.unparse(c))
                ret = cur.body[0] if len(cur.body) == 1 and isinstance(cur.body[0], ast.Return) else None
                if op is not None and ret is not None:
                    v = ret.value
                    call = norm_call(dotted(v.func)) if isinstance(v, ast.Call) and len(v.args) == 1 and isinstance(v.args[0], ast.Name) and not v.keywords else None
                    out['ops'][op] = (extra, call if call else ast.unparse(v))
                cur = cur.orelse[0] if len(cur.orelse) == 1 else None
            continue
        if isinstance(st, ast.Return):
            out['generic'] = ast.unparse(st.value)
        elif out['generic'] is None and isinstance(st, ast.Assign):
            out['generic'] = ast.unparse(st.value)
    return out


def template(me, ir):
    try:
        s = me._ir_to_source(ir)
    except Exception as e:
        return None, f"raised {type(e).__name__}"
    if s is None:
        return None, None
    return ast.parse(s, mode='eval').body, s


def call_of(e, src=None):
    """-> (canonical NumPy call applied to the operand, keeps_empty_operand) or (None, False)
    name(AAA)                      -> (name, False)
    helper(np.ufunc, AAA)          where the module-level `helper(u, a)` of the backend file is  `a if <a is empty> else u.reduce(a)`
                                   (or u.accumulate)  -> ('np.ufunc.reduce', True)"""
    if isinstance(e, ast.Call) and len(e.args) == 1 and isinstance(e.args[0], ast.Name) and not e.keywords:
        return norm_call(dotted(e.func)), False
    if isinstance(e, ast.Call) and len(e.args) == 2 and isinstance(e.args[1], ast.Name) and not e.keywords and isinstance(e.func, ast.Name) and src is not None:
        u = norm_call(dotted(e.args[0]))
        h = src.module_funcs.get(NB, {}).get(e.func.id)
        if u and h is not None and len(h.args.args) == 2:
            p0, p1 = (a.arg for a in h.args.args)
            body = [b for b in h.body if not (isinstance(b, ast.Expr) and isinstance(b.value, ast.Constant))]
            if len(body) == 1 and isinstance(body[0], ast.Return) and isinstance(body[0].value, ast.Call):
                c = body[0].value
                if len(c.args) == 1 and isinstance(c.args[0], ast.Name) and c.args[0].id == p1 and isinstance(c.func, ast.Attribute) \
                        and isinstance(c.func.value, ast.Name) and c.func.value.id == p0 and c.func.attr in ('reduce', 'accumulate'):
                    return f"{u}.{c.func.attr}", False
            if len(body) == 1 and isinstance(body[0], ast.Return) and isinstance(body[0].value, ast.IfExp):
                ie = body[0].value
                t = ast.unparse(ie.test).replace(' ', '')
                empty_test = ('==0' in t) and ('size' in t or 'len(' in t) and p1 in t
                keeps = isinstance(ie.body, ast.Name) and ie.body.id == p1
                c = ie.orelse
                if empty_test and keeps and isinstance(c, ast.Call) and len(c.args) == 1 and isinstance(c.args[0], ast.Name) and c.args[0].id == p1 \
                        and isinstance(c.func, ast.Attribute) and isinstance(c.func.value, ast.Name) and c.func.value.id == p0 and c.func.attr in ('reduce', 'accumulate'):
                    return f"{u}.{c.func.attr}", True
    return None, False


def check_value_equivalence(ctx):
    from contracts.c05 import _extract, _Self, _ops
    src = ctx['src']
    res = []
    f = _extract(src, NB, 'NumpyBackendProvider', '_ir_to_source')
    if f is None:
        return [dict(name=f"{NB}::_ir_to_source#value-equivalence", ok=False, undecided=True, backend='term-equivalence', detail='method not found')]
    me = _Self(f)
    ops = _ops(src)
    A, B = ('var', 'AAA'), ('var', 'BBB')
    rows = []

    WORD = {'+': 'plus', '-': 'minus', '*': 'times', '%': 'divide', '^': 'power', '|': 'max', '&': 'min'}

    def row(prod, ok, detail, undecided=False):
        k, _, o = prod.partition(' ')
        rows.append(dict(name=f"{NB}::_ir_to_source#value-equivalence[{k + ('-' + WORD.get(o, o) if o else '')}]", ok=ok, undecided=undecided and not ok,
                         backend='term-equivalence modulo declared NumPy identities', detail=detail, prod=prod))

    # ---- reduce / scan against the interpreter's decision lists
    for kind, fname, suffix in (('reduce', 'eval_adverb_over', 'reduce'), ('scan', 'eval_adverb_scan_over', 'accumulate')):
        fn = src.find(f"{AD}::{fname}")
        if fn is None:
            row(kind, False, f"{fname} not found", undecided=True)
            continue
        dl = decision_list(fn)
        pre = dict(dl['pre'])
        for op in ops['_REDUCE_SCAN_OPS']:
            e, text = template(me, (kind, op, A))
            if e is None:
                continue                        # not compiled: the interpreter runs (totality obligation covers documented misses)
            t, keeps_empty = call_of(e, src)
            u = UFUNC.get(op)
            if t is None or u is None:
                row(f"{kind} {op}", False, f"template {text!r} is not a single call on the operand: equivalence with the verb not derivable", undecided=True)
                continue
            problems = []
            extra, icall = dl['ops'].get(op, ([], None))
            main = f"{u}.{suffix}"
            # the interpreter's value on a non-atom operand of length >= 2: its shortcut call under `extra`, else the generic fold
            # (I3: generic fold == ufunc.reduce / accumulate of that operator)
            if icall is not None and not extra:
                want_calls = {icall}
            else:
                want_calls = {main}                              # generic fold (or guarded shortcut + generic fold elsewhere)
                if icall is not None and RANK1_ALIASES.get(icall) != main and icall != main:
                    problems.append(f"interpreter shortcut {icall} under {extra} is not the {main} the generic fold computes")
                if icall is not None and icall in RANK1_ALIASES and icall != main and 'a.ndim == 1' not in extra:
                    problems.append(f"interpreter shortcut {icall} (the extremum of the WHOLE array) under {extra} is not restricted to rank 1, where alone it is "
                                    f"the {main} of the fold (I4)")
            canon = lambda c: RANK1_ALIASES.get(c, c)
            if t in want_calls:
                pass
            elif canon(t) in {canon(c) for c in want_calls}:
                problems.append(f"template {t}(a) and the interpreter's {sorted(want_calls)[0]}(a) agree only for a.ndim == 1 (I4/I5); operands of rank >= 2 "
                                f"are admitted and the interpreter's branch carries no rank guard")
            elif canon(t) not in {canon(c) for c in want_calls}:
                problems.append(f"template calls {t}, the interpreter's verb computes {sorted(want_calls)[0]} for operator {op!r}")
            # pre-guards: atoms (scalars and EMPTY lists) are returned unchanged; a one-element list yields its element
            for g, v in dl['pre']:
                if g.replace(' ', '') == 'is_atom(a)' and v == 'a':
                    if kind == 'reduce':
                        if canon(t).endswith('.reduce') and canon(t) in ('np.add.reduce', 'np.multiply.reduce') and not keeps_empty:
                            problems.append(f"empty operand: the interpreter returns the operand itself (is_atom), {t}(empty) is the identity element (I6)")
                    else:
                        if t in ('np.cumsum', 'np.cumprod'):
                            problems.append(f"scalar operand: the interpreter returns the scalar (is_atom), {t}(scalar) is a one-element array (I7)")
                elif g.replace(' ', '') == 'len(a)==1' and v == 'a[0]':
                    if kind != 'reduce':
                        problems.append("one-element shortcut in a scan verb: not tabulated")
                else:
                    problems.append(f"interpreter pre-guard `{g}` -> `{v}` is not tabulated: equivalence not derivable")
            row(f"{kind} {op}", not problems, '; '.join(problems) or f"template {text} == interpreter's {sorted(want_calls)[0]}(a) on every admitted operand "
                f"(pre-guards {dl['pre']} covered by I3/I6/I7)")
    # ---- arithmetic dyads
    PYOP = {'+': (ast.Add, 'np.add'), '-': (ast.Sub, 'np.subtract'), '*': (ast.Mult, 'np.multiply'), '%': (ast.Div, 'np.divide'), '^': (ast.Pow, 'np.power')}
    VERB = {'+': 'eval_dyad_add', '-': 'eval_dyad_subtract', '*': 'eval_dyad_multiply', '%': 'eval_dyad_divide', '^': 'eval_dyad_power'}
    for op in ops['_ARITH_OPS']:
        e, text = template(me, ('binop', op, A, B))
        if e is None:
            continue
        fn = src.find(f"{DY}::{VERB[op]}")
        body = [b for b in fn.body if not (isinstance(b, ast.Expr) and isinstance(b.value, ast.Constant))] if fn is not None else None
        if body is None:
            row(f"binop {op}", False, f"{VERB[op]} not found", undecided=True)
            continue
        last = body[-1]
        icall = norm_call(dotted(last.value.func)) if isinstance(last, ast.Return) and isinstance(last.value, ast.Call) else None
        tmpl_is_op = isinstance(e, ast.BinOp) and isinstance(e.op, PYOP[op][0]) and isinstance(e.left, ast.Name) and isinstance(e.right, ast.Name)
        tmpl_call = norm_call(dotted(e.func)) if isinstance(e, ast.Call) else None
        if op in '+-*':
            ok = len(body) == 1 and icall == PYOP[op][1] and tmpl_is_op
            row(f"binop {op}", ok, f"template {text} == {icall}(a,b) (I1)" if ok else f"verb body {ast.unparse(last)!r} / template {text!r} not in the tabulated shape",
                undecided=not ok)
        elif op == '%':
            # pre-guard: both operands non-lists, b a number equal to 0 -> :undefined; admitted non-list operands are exact Python
            # numbers (admission obligation), for which `/` raises ZeroDivisionError -> fallback to this very verb
            guard_ok = len(body) == 2 and isinstance(body[0], ast.If) and 'KLONG_UNDEFINED' in ast.unparse(body[0]) and 'is_list(a)' in ast.unparse(body[0].test) \
                and 'is_list(b)' in ast.unparse(body[0].test) and '== 0' in ast.unparse(body[0])
            ok = guard_ok and icall == 'np.divide' and tmpl_is_op
            row(f"binop {op}", ok, f"template {text} == np.divide(a,b) (I2); scalar zero divisor raises -> interpreter -> :undefined (needs exact-type admission)" if ok
                else f"verb {ast.unparse(fn)[:120]!r} / template {text!r} not in the tabulated shape", undecided=not ok)
        else:
            # Power: the verb post-processes backend.power's result (integer coercion when the result is whole)
            verb_text = ast.unparse(src.find(f"{DY}::_e_dyad_power")) if src.find(f"{DY}::_e_dyad_power") is not None else ''
            coerces = 'to_int_array' in verb_text
            same_fn = False
            if tmpl_call is not None and not tmpl_is_op and isinstance(e, ast.Call) and len(e.args) == 2:
                # the helper must BE the Power verb: a function/method of the backend file whose body returns eval_dyad_power(a, b, ...)
                hname = tmpl_call.split('.')[-1]
                for n in ast.walk(src.tree(NB)):
                    if isinstance(n, ast.FunctionDef) and n.name == hname:
                        rets = [r for r in ast.walk(n) if isinstance(r, ast.Return)]
                        params = [a.arg for a in n.args.args if a.arg != 'self']
                        same_fn = len(rets) == 1 and isinstance(rets[0].value, ast.Call) and dotted(rets[0].value.func) == 'eval_dyad_power' \
                            and [ast.unparse(x) for x in rets[0].value.args[:2]] == params[:2]
                if hname == 'eval_dyad_power':
                    same_fn = True
            if tmpl_is_op and coerces:
                row(f"binop {op}", False, f"template {text} is Python's ** ; the verb converts a whole-valued result to an integer (to_int_array in _e_dyad_power): "
                    f"a::4;a^0.5 is 2 interpreted, 2.0 compiled")
            elif same_fn:
                row(f"binop {op}", True, f"template {text} calls the interpreter's own Power verb")
            elif tmpl_is_op and not coerces:
                row(f"binop {op}", True, f"template {text}; the verb does not post-process the power")
            else:
                row(f"binop {op}", False, f"template {text!r}: equivalence with the Power verb not derivable", undecided=True)
    # ---- negate
    e, text = template(me, ('negate', A))
    fn = src.find(f"{MO}::eval_monad_negate")
    if e is not None and fn is not None:
        body = [b for b in fn.body if not (isinstance(b, ast.Expr) and isinstance(b.value, ast.Constant))]
        t = ast.unparse(body[-1]) if body else ''
        ok = isinstance(e, ast.UnaryOp) and isinstance(e.op, ast.USub) and ('negative' in t or '-a' in t.replace(' ', ''))
        row('negate', ok, f"template {text} == {t} (I1)" if ok else f"verb {t!r} / template {text!r} not tabulated", undecided=not ok)
    # ---- admission by exact type
    res_adm = admission_row(src)
    rows.append(res_adm)
    rows.append(ir_mirror_row(src))
    bad = [r for r in rows if not r['ok']]
    if bad:
        # failed rows: look for a failing binding on the real code; undecided rows (template / verb not in a tabulated shape): the same
        # battery decides whether there is a concrete divergence (then it is a violation whatever the derivation), else they stay undecided
        from pyvc.run import run_replay
        import replay.c05 as rp
        for b in bad:
            fn_rp = rp.replay_rebinding if b.get('prod') == 'ir-mirror' else rp.replay_values
            r = run_replay(fn_rp, dict(production=b.get('prod', 'admission')), b['name'], timeout_s=120)
            b['confirmed'] = bool(r.get('confirmed'))
            b['replay'] = dict(result=r, derivation=b['detail'])
            if r.get('confirmed'):
                b['undecided'] = False
                b['detail'] += f" | real code: {r.get('detail')}"
    return rows


def ir_mirror_row(src):
    """`_ast_to_ir` is a homomorphism from the expression to the IR: every return is None (not compilable) or a tuple tagged with the IR
    kind of THAT node kind - in particular an adverb chain  op/arg  or  op\\arg  becomes ('reduce'|'scan', op, IR(arg)), never the
    operand's IR alone (code specialised on what a variable held at compile time would be wrong after the variable is rebound: the
    per-node memo is not invalidated)."""
    name = f"{CO}::_ast_to_ir#ir-mirrors-the-expression"
    fn = src.find(f"{CO}::_ast_to_ir")
    if fn is None:
        return dict(name=name, ok=False, undecided=True, backend='ast-structural', detail='_ast_to_ir not found')
    kinds = {'literal', 'var', 'binop', 'cmp', 'negate', 'reduce', 'scan'}
    bad = []
    for r in ast.walk(fn):
        if not isinstance(r, ast.Return):
            continue
        v = r.value
        if v is None or (isinstance(v, ast.Constant) and v.value is None):
            continue
        def tag_ok(t):
            if isinstance(t, ast.Constant):
                return t.value in kinds
            if isinstance(t, ast.IfExp):
                return tag_ok(t.body) and tag_ok(t.orelse)
            return False
        if isinstance(v, ast.Tuple) and v.elts and tag_ok(v.elts[0]):
            continue
        bad.append(f"line {r.lineno}: return {ast.unparse(v)[:60]}")
    # the adverb-chain branch returns exactly the tagged forms with the operator and the operand's IR
    chain = None
    for n in ast.walk(fn):
        if isinstance(n, ast.If) and 'is_adverb_chain' in ast.unparse(n.test):
            chain = n
    tags = set()
    if chain is not None:
        for r in ast.walk(chain):
            if isinstance(r, ast.Return) and isinstance(r.value, ast.Tuple) and r.value.elts:
                t0 = r.value.elts[0]
                for c in ([t0] if isinstance(t0, ast.Constant) else [t0.body, t0.orelse] if isinstance(t0, ast.IfExp) else []):
                    if isinstance(c, ast.Constant):
                        tags.add(c.value)
                if len(r.value.elts) != 3:
                    bad.append(f"line {r.lineno}: {ast.unparse(r.value)}")
        if not tags <= {'reduce', 'scan'}:
            bad.append(f"adverb-chain branch returns IR kinds {sorted(tags)}")
    else:
        return dict(name=name, ok=False, undecided=True, backend='ast-structural', detail='adverb-chain branch not found')
    return dict(name=name, ok=not bad, backend='ast-structural', prod='ir-mirror',
                detail=('; '.join(bad[:3]) + ' - the IR does not mirror the expression node') if bad else
                       'every return is None or a tuple tagged with the node kind; chains become (reduce|scan, op, IR(arg))')


def call_guard(src):
    """(established, calls, guarded, guard text): every call of compiled code `fn(*args)` in the interpreter sits under
    `if self._compiled_for(args)`, and _compiled_for admits exactly int, float and ndarray.  When this is established, compiled code never
    runs on a kind it was not admitted for - whatever the compile-time admission test and whatever stays in the caches - so the
    compile-time mechanisms (admission by exact type, cache cleared on rebinding, Define through __setitem__) are no longer NEEDED for the
    property and their obligations are discharged by it; when it is not established they are required as before."""
    t_ = src.tree('klongpy/interpreter.py')
    calls, guarded = 0, 0
    is_call = lambda c: isinstance(c, ast.Call) and isinstance(c.func, ast.Name) and c.func.id == 'fn' and any(isinstance(a, ast.Starred) for a in c.args)
    for node in ast.walk(t_):
        if isinstance(node, ast.If) and ast.unparse(node.test) == 'self._compiled_for(args)':
            guarded += sum(1 for b in node.body for c in ast.walk(b) if is_call(c))
        if is_call(node):
            calls += 1
    guard = src.find('klongpy/interpreter.py::KlongInterpreter._compiled_for')
    gtxt = ast.unparse(guard.body[-1]) if guard is not None else None
    want = 'return all((type(a) is int or type(a) is float or isinstance(a, nd) for a in args))'
    nd_ok = guard is not None and any(isinstance(s, ast.Assign) and ast.unparse(s) == 'nd = self._backend.np.ndarray' for s in guard.body) and \
        sum(1 for s in guard.body if not (isinstance(s, ast.Expr) and isinstance(s.value, ast.Constant))) == 2
    return (calls >= 3 and guarded == calls and gtxt == want and nd_ok), calls, guarded, gtxt


def admission_row(src):
    name = f"{CO}::_ast_to_ir#admits-scalars-by-exact-type"
    fn = src.find(f"{CO}::_ast_to_ir")
    if fn is None:
        return dict(name=name, ok=False, undecided=True, backend='ast-structural', detail='_ast_to_ir not found')
    sym_branch = None
    for n in ast.walk(fn):
        if isinstance(n, ast.If) and 'KGSym' in ast.unparse(n.test):
            sym_branch = n
            break
    if sym_branch is None:
        return dict(name=name, ok=False, undecided=True, backend='ast-structural', detail='symbol branch not found')
    type_alias = {t.targets[0].id for t in ast.walk(sym_branch) if isinstance(t, ast.Assign) and isinstance(t.targets[0], ast.Name)
                  and isinstance(t.value, ast.Call) and dotted(t.value.func) == 'type'}
    guards = []
    for n in ast.walk(sym_branch):
        if isinstance(n, ast.If) and any(isinstance(r, ast.Return) and isinstance(r.value, ast.Tuple) and r.value.elts and
                                         isinstance(r.value.elts[0], ast.Constant) and r.value.elts[0].value == 'var' for r in ast.walk(n)):
            if n is not sym_branch:
                guards.append(n.test)
    bad = []
    for g in guards:
        parts = g.values if isinstance(g, ast.BoolOp) and isinstance(g.op, ast.Or) else [g]
        for p in parts:
            txt = ast.unparse(p)
            exact = isinstance(p, ast.Compare) and len(p.ops) == 1 and isinstance(p.ops[0], ast.Is) and isinstance(p.comparators[0], ast.Name) \
                and p.comparators[0].id in ('int', 'float') and ((isinstance(p.left, ast.Name) and p.left.id in type_alias) or
                                                                 (isinstance(p.left, ast.Call) and dotted(p.left.func) == 'type'))
            arr = isinstance(p, ast.Call) and dotted(p.func) == 'isinstance' and 'ndarray' in txt and 'int' not in txt.replace('ndarray', '') and 'float' not in txt
            if not (exact or arr):
                bad.append(txt)
    if not guards:
        return dict(name=name, ok=False, undecided=True, backend='ast-structural', detail="no guard of a ('var', ...) return found")
    if bad and call_guard(src)[0]:
        return dict(name=name, ok=True, backend='ast-structural', prod='admission',
                    detail=f"variables are admitted at compile time under {bad}, wider than the exact-type test; discharged by the call-time "
                           f"guard (KlongInterpreter.eval#compiled-code-called-only-on-admitted-kinds): compiled code is only CALLED on exact "
                           f"int / float / ndarray values, every other value goes through the interpreter")
    return dict(name=name, ok=not bad, backend='ast-structural', prod='admission',
                detail=(f"variable admitted under {bad}: not an exact-type test (type(v) is int / is float) nor an ndarray test - subclasses such as "
                        f"numpy.float64 or bool would be compiled, and they do not raise on division by zero") if bad
                else f"variables are admitted only under {[ast.unparse(g) for g in guards]}")
