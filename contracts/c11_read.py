"""C11 (sequential read-back): `eval_sys_read` (.r) of klongpy/sys_fn.py under contract.

Property sentence: what `.w` wrote is read back by `.r` - for several objects on one channel: by successive `.r` calls, each returning
the next object. That is a statement about the channel POSITION the reader leaves behind, not only about the value it returns.

Model of the input channel `klong['.sys.cin'].raw` (a seekable text stream): contents T (a string), position pos;
    tell() == pos,   read() == T[pos:] and pos := len(T),   seek(p, 0): pos := p        (assumed contracts of io.TextIOWrapper for
    the characters the writer emits - one code unit per character, see the assumptions).
Reader contract (assumed here, its own obligations are in contracts/c11.py / c12.py): kg_read_array(t, 0, ...) returns (i, a) with
0 <= i <= len(t), a the object encoded by t[0:i].  Ghost `given` = the text handed to the reader.

Contract of the real eval_sys_read, for every T and every 0 <= pos <= len(T):
    T[pos:] == ""  ==>  returns None and at_eof is set
    otherwise      ==>  the text handed to the reader is a suffix T[p:] of the channel with p >= old(pos), the returned object is the
                        reader's object, and the position left behind is p + i - the end, within the channel, of the object that
                        was returned - or later by nothing but blanks: the next .r starts behind the object, never inside it.
"""
import z3

from pyvc.values import *

K = 'klongpy/sys_fn.py::eval_sys_read'
WS = (' ', '\t', '\n', '\r', '\x0b', '\x0c')      # ASCII white space (what str.lstrip() strips, for ASCII text)
Str_ = z3.StringSort()


def build(reg, src):
    T = z3.Const('channel_text', Str_)
    P0 = z3.Const('channel_pos', z3.IntSort())

    def setup(eng, st):
        raw = st.alloc('RawStream', {}, hint='raw', fresh=False)
        ch = st.alloc('KGChannel', {'raw': raw, 'at_eof': VBool(False)}, hint='cin', fresh=False)
        st.env['klong'] = st.alloc('Klong', {'_backend': VOpaque(hint='backend', nonnull=True)}, hint='klong', fresh=False)
        st.ghost['cin'] = ch
        st.ghost['pos'] = VInt(P0)
        st.ghost['given'] = NONE
        st.ghost['read_i'] = NONE
        st.ghost['read_a'] = NONE
        st.assume(z3.And(0 <= P0, P0 <= z3.Length(T)))

    def post(s, r):
        rest = z3.SubString(T, P0, z3.Length(T) - P0)
        given = s.g('given')
        if isinstance(given, VNoneT):
            # the reader was not called: only right when no object is left on the channel (nothing, or nothing but blanks / line ends)
            blank = z3.Star(z3.Union(*[z3.Re(z3.StringVal(c)) for c in WS]))
            return And(VBool(z3.InRe(rest, blank)), is_none(r), s.st.field(s.g('cin'), 'at_eof'))
        g, i, a = given.t, s.g('read_i').t, s.g('read_a')
        p = z3.Length(T) - z3.Length(g)
        end = s.g('pos').t
        blank = z3.Star(z3.Union(*[z3.Re(z3.StringVal(c)) for c in WS]))
        # behind the object that was returned; blanks after it may have been consumed as well (they carry no object)
        return And(VBool(z3.And(p >= P0, g == z3.SubString(T, p, z3.Length(g)), end >= p + i, end <= z3.Length(T),
                                z3.InRe(z3.SubString(T, p + i, end - (p + i)), blank))), same(r, a))
    reg.fn(K, setup=setup, returns='opaque', ensures=[post])
    reg.assumed_calls.update({'klong.current_module': 'opaque'})

    def reader(eng, st, args, kwargs, node):
        t = args[0]
        if not isinstance(t, VStr):
            raise Refuse("kg_read_array called on something that is not the channel text")
        if not (isinstance(args[1], VInt) and z3.is_int_value(z3.simplify(args[1].t)) and z3.simplify(args[1].t).as_long() == 0):
            raise Refuse("kg_read_array called with a start offset other than 0")
        if not isinstance(st.ghost['given'], VNoneT):
            raise Refuse("kg_read_array called twice in one .r")
        i = fresh(Int, 'read_i')
        a = VOpaque(hint='object', nonnull=True)
        st.assume(z3.And(0 <= i.t, i.t <= z3.Length(t.t)))
        st.ghost['given'], st.ghost['read_i'], st.ghost['read_a'] = t, i, a
        return [(st, VTuple([i, a]))] + eng.maybe_raise(st, 'kg_read_array', node)
    reg.externals['kg_read_array'] = reader
    reg.ctx_T, reg.ctx_P0 = T, P0
    reg.assumptions += [
        "input channel: a seekable text stream whose tell()/seek() offsets count characters (true for the ASCII text .w emits; a channel "
        "holding multi-byte characters is outside this contract - seek offsets are bytes there)",
        "kg_read_array(t, 0, ...) returns (i, a) with 0 <= i <= len(t), a the object encoded by t[0:i] (reader contract: contracts/c11.py, c12.py)",
    ]


def configure(eng):
    T, P0 = eng.reg.ctx_T, eng.reg.ctx_P0

    def index(e, v, i, st, node):
        if isinstance(v, VObj) and v.cls == 'Klong' and isinstance(i, VStr) and z3.is_string_value(i.t) and i.t.as_string() == '.sys.cin':
            return [(st, st.ghost['cin'])]
        return None
    eng.hooks['index'] = index

    def method(e, o, m, args, kwargs, st, node):
        if isinstance(o, VObj) and o.cls == 'RawStream':
            pos = st.ghost['pos'].t
            if m == 'tell' and not args:
                return [(st, VInt(pos))]
            if m == 'read' and not args:
                st.ghost['pos'] = VInt(z3.Length(T))
                return [(st, VStr(z3.SubString(T, pos, z3.Length(T) - pos)))]
            if m == 'seek' and isinstance(args[0], VInt) and (len(args) == 1 or (isinstance(args[1], VInt) and z3.is_int_value(args[1].t) and args[1].t.as_long() == 0)):
                st.ghost['pos'] = args[0]
                return [(st, args[0])]
            raise Refuse(f"channel method {m} is not modelled")
        if isinstance(o, VStr) and m == 'lstrip' and (not args or (len(args) == 1 and isinstance(args[0], VStr) and z3.is_string_value(z3.simplify(args[0].t)))):
            # s.lstrip(chars) == s[n:] where s[:n] consists of chars and s[n] (if any) is not one of them; no argument: ASCII white space
            chars = WS if not args else tuple(z3.simplify(args[0].t).as_string())
            if not chars:
                return [(st, o)]
            one = z3.Union(*[z3.Re(z3.StringVal(c)) for c in chars]) if len(chars) > 1 else z3.Re(z3.StringVal(chars[0]))
            n = fresh(Int, 'stripped')
            L = z3.Length(o.t)
            st.assume(z3.And(0 <= n.t, n.t <= L, z3.InRe(z3.SubString(o.t, 0, n.t), z3.Star(one)),
                             z3.Or(n.t == L, z3.Not(z3.InRe(z3.SubString(o.t, n.t, 1), one)))))
            return [(st, VStr(z3.SubString(o.t, n.t, L - n.t)))]
        return None
    eng.hooks['method'] = method
    eng.hooks['getattr:RawStream'] = lambda e, v, attr, st, node: [(st, VFunc(f"<method {attr}>", self_obj=v, model=None, key=('builtin_method', attr)))]
    eng.hooks['getattr:Klong'] = lambda e, v, attr, st, node: ([(st, VFunc(attr, key=('opaque_method',), self_obj=VOpaque(hint='klong', nonnull=True)))]
                                                                   if attr == 'current_module' else None)
    eng.opaque_methods |= {'current_module'}
