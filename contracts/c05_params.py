"""C05 (positional agreement, parameter side): `BackendProvider._collect_params` and its recursive closure `_walk` under contract - an
unbounded proof (structural recursion over IR trees of any depth) of what the bounded enumeration "all IR trees up to depth 3" sampled.

An IR tree is a Python tuple tree; the obligations only use its tag `node[0]` and its items `node[i]`:
    TAG(n): Str,  ITEM(n, i): value at position i,  SIZE(n) >= 0 with SIZE(child) < SIZE(n) for the child positions of each tag
(SIZE is the termination measure: tuples are finite, acyclic trees - assumption, stated in the evidence).

Specification: the list of DISTINCT variable names in order of FIRST OCCURRENCE of a left-to-right walk, as a pair of functions over
(node, names-so-far P, set-of-names-so-far S), by recursion on the tree:
    var x            : P ++ [x] if x not in S else P ;  S + {x}
    binop/cmp o l r  : walk r after walk l
    negate c         : walk c            reduce/scan o c : walk c            anything else: unchanged
Contract of `_walk(node)` (modular: the two recursive calls use this contract; `decreases SIZE(node)`):
    ensures  params == FOP(node, old(params), old(seen))  and  seen == FOS(node, old(seen))
Contract of `_collect_params(ir)`:   ensures  ret == FOP(ir, [], {})
The captured list and set are local to `_collect_params` (created there, bound to one name each, handed to nothing): `append` / `add`
rebind that name; `name not in seen` reads the set.
"""
import ast

import z3

from pyvc.values import *

K = 'klongpy/backends/base.py::BackendProvider._collect_params'
KW = K + '._walk'
SeqObj = z3.SeqSort(Obj)
SetObj = z3.ArraySort(Obj, z3.BoolSort())
S_ = z3.StringSort()
TAG = z3.Function('ir:tag', Obj, S_)
ITEM = z3.Function('ir:item', Obj, z3.IntSort(), Obj)
SIZE = z3.Function('ir:size', Obj, z3.IntSort())
FOP = z3.Function('fo:params', Obj, SeqObj, SetObj, SeqObj)
FOS = z3.Function('fo:seen', Obj, SetObj, SetObj)
EMPTY_SET = z3.K(Obj, z3.BoolVal(False))


class VSet(V):
    """a set created by set(): a fresh object bound to one local name"""
    def __init__(self, t): self.t = t
    def __repr__(self): return f"VSet({self.t})"


def sv(x): return z3.StringVal(x)


def spec_axioms():
    n = z3.Const('n!ir', Obj)
    P = z3.Const('P!ir', SeqObj)
    S = z3.Const('S!ir', SetObj)
    tag = TAG(n)
    is_var = tag == sv('var')
    is_bin = z3.Or(tag == sv('binop'), tag == sv('cmp'))
    is_neg = tag == sv('negate')
    is_red = z3.Or(tag == sv('reduce'), tag == sv('scan'))
    x, l, r, c1, c2 = ITEM(n, 1), ITEM(n, 2), ITEM(n, 3), ITEM(n, 1), ITEM(n, 2)
    fop = z3.If(is_var, z3.If(z3.Select(S, x), P, z3.Concat(P, z3.Unit(x))),
                z3.If(is_bin, FOP(r, FOP(l, P, S), FOS(l, S)),
                      z3.If(is_neg, FOP(c1, P, S), z3.If(is_red, FOP(c2, P, S), P))))
    fos = z3.If(is_var, z3.Store(S, x, True),
                z3.If(is_bin, FOS(r, FOS(l, S)), z3.If(is_neg, FOS(c1, S), z3.If(is_red, FOS(c2, S), S))))
    ax = [z3.ForAll([n, P, S], FOP(n, P, S) == fop, patterns=[FOP(n, P, S)]),
          z3.ForAll([n, S], FOS(n, S) == fos, patterns=[FOS(n, S)]),
          # finite trees: the measure (assumption about tuples)
          z3.ForAll([n], z3.And(SIZE(n) >= 0,
                                z3.Implies(is_bin, z3.And(SIZE(l) < SIZE(n), SIZE(r) < SIZE(n))),
                                z3.Implies(is_neg, SIZE(c1) < SIZE(n)),
                                z3.Implies(is_red, SIZE(c2) < SIZE(n))), patterns=[SIZE(n)])]
    return ax


def pseq(v):
    if isinstance(v, VList) and not v.items:
        return z3.Empty(SeqObj)
    if isinstance(v, VSeq) and v.t.sort() == SeqObj:
        return v.t
    raise Refuse(f"`params` is not a list of names here: {v!r}")


def pset(v):
    if isinstance(v, VSet):
        return v.t
    raise Refuse(f"`seen` is not a set created by set() here: {v!r}")


def build(reg, src):
    ax = spec_axioms()

    def walk_setup(eng, st):
        st.env['node'] = VOpaque(z3.Const('node', Obj), nonnull=True)
        st.env['params'] = VSeq(z3.Const('params0', SeqObj))
        st.env['seen'] = VSet(z3.Const('seen0', SetObj))
        me = VFunc('_walk', node=src.find(KW), closure=None, defaults=[])      # the closure's own name (recursion goes through the contract)
        me.contract_key = KW
        st.env['_walk'] = me
        for a in ax:
            st.assume(a)

    def walk_modifies(eng, st, s):
        # the closure's frame: the two captured collections (found in the caller's locals - the closure shares them)
        pseq(st.env['params']), pset(st.env['seen'])
        st.env['params'] = VSeq(z3.Const(fresh_name('params'), SeqObj))
        st.env['seen'] = VSet(z3.Const(fresh_name('seen'), SetObj))

    def walk_post(s, r):
        P0, S0 = pseq(s.old.env['params']), pset(s.old.env['seen'])
        return VBool(z3.And(pseq(s.st.env['params']) == FOP(s.node.t, P0, S0), pset(s.st.env['seen']) == FOS(s.node.t, S0)))

    reg.fn(KW, setup=walk_setup, returns=None, raises=[], modifies=walk_modifies, ensures=[walk_post],
           pre_hints=[lambda s: VBool(SIZE(s.node.t) >= 0)],
           decreases=lambda s: VInt(SIZE(s.node.t)))

    def outer_setup(eng, st):
        st.env['ir'] = VOpaque(z3.Const('ir', Obj), nonnull=True)
        for a in ax:
            st.assume(a)

    def outer_post(s, r):
        return VBool(pseq(r) == FOP(s.ir0.t, z3.Empty(SeqObj), EMPTY_SET))
    reg.fn(K, setup=outer_setup, returns='opaque', raises=[], ensures=[outer_post])
    reg.assumptions += [
        "IR values are finite tuple trees (SIZE: a non-negative measure that decreases to the child positions of each tag) - true of any "
        "tuple built bottom-up, as _ast_to_ir does; an IR node's tag is a str and `==`/`in` on it are string comparisons",
        "`params = []` / `seen = set()` create fresh collections local to _collect_params; list.append / set.add / `in` have their usual "
        "meaning (each collection is bound to one name and handed to nobody: checked at every mutation, otherwise refused)",
        "spec renderings: FOP/FOS (SMT) and contracts.c05.check_positional.first_occ (Python) are paired by hand; the bounded enumeration "
        "compares first_occ with the real function on every run",
    ]


def configure(eng):
    eng.feas_timeout_ms = 300     # path-feasibility probes carry the quantified spec axioms: an `unknown` only keeps the path (sound)
    def index(e, v, i, st, node):
        if isinstance(v, VOpaque) and isinstance(i, VInt) and z3.is_int_value(z3.simplify(i.t)):
            k = z3.simplify(i.t).as_long()
            if k == 0:
                return [(st, VStr(TAG(v.t)))]
            if k > 0:
                return [(st, VOpaque(ITEM(v.t, k), nonnull=True))]
        return None
    eng.hooks['index'] = index

    def builtin_set(e, args, kwargs, st, node):
        if not args:
            return [(st, VSet(EMPTY_SET))]
        return None
    eng.hooks['builtin:set'] = builtin_set

    def single_name(st, o, what):
        if sum(1 for x in st.env.values() if x is o) != 1:
            raise Refuse(f"{what}: the collection is bound to {sum(1 for x in st.env.values() if x is o)} names")

    def method(e, o, m, args, kwargs, st, node):
        if isinstance(o, VSet) and m == 'add' and len(args) == 1:
            single_name(st, o, 'set.add')
            e.rebind(st, o, VSet(z3.Store(o.t, e.as_obj(args[0]), True)))
            return [(st, NONE)]
        if m == 'append' and len(args) == 1 and (isinstance(o, VSeq) and o.t.sort() == SeqObj or isinstance(o, VList) and not o.items):
            single_name(st, o, 'list.append')
            e.rebind(st, o, VSeq(z3.Concat(pseq(o), z3.Unit(e.as_obj(args[0])))))
            return [(st, NONE)]
        return None
    eng.hooks['method'] = method

    def contains(e, a, b, st, node):
        if isinstance(b, VSet):
            return z3.Select(b.t, e.as_obj(a))
        return None
    eng.hooks['contains'] = contains
