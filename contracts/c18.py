"""C18 - the file cache under concurrency (partial: monitor reasoning, sound for every interleaving).

 * lock discipline: the guarded fields (file_futures, file_access_times, current_memory_usage) are only read or written while
   this thread holds file_futures_lock (an obligation at each access);
 * monitor invariant G (= the in-lock invariant W of C16: accounting cur == sum of counted entries, 0 <= cur <= max, heap and
   table consistent, claims carry 0 bytes): at every acquire the guarded state is havocked and G assumed - other threads may
   have done anything that respects G - and at every release G is proved;
 * the source asserts are obligations under that havoc;
 * (GLoad) ghost `ltask[f]` = "a load task of f was submitted and has not ended"; GLoad: ltask[f] => f has an entry that is not a
   pending write and has no heap tuple; a write is only submitted when no load of the file is in flight
   (#submit-write.no-load-of-the-file-in-flight) - otherwise the load can read the file while the writer has truncated it.
   Both fail on the pinned code: RECORDED known finding (known_findings.json), see DESIGN.md 8.5;
 * (GL) a counted entry whose task has completed accounts exactly the length of the contents it caches (#release.GL) - a load that
   finishes late must not put ITS byte count on an entry that meanwhile belongs to a completed write;
 * an unfinished write owns its entry (GW): ghost `wtask[f]` = "a write task of f was submitted and has not ended" (its completion
   handler has not run and it has not failed: the entry's future is not done); GW: wtask[f] => f has an entry and it is flagged writing.  Set where update_file submits the writer, cleared (under the
   lock) by the writer's completion handler, assumed at every acquire, proved at every release (#release.GW).  Without it a
   client that removes the entry of a pending write (unload_file) lets a load read the old file next to the write: when everything
   has finished the cache serves the OLD contents although the update reported success.
Linearizability of the values returned by get / update is NOT decided (no instrument for interleavings of results here).
"""
import z3
from pyvc.values import *
from pyvc.state import Raised
from pyvc.contracts import loop
from . import fsmodel as fs
from . import filecache as fc
from . import c16
from .c16 import A, W, sel, fq, FKey, havoc_table, havoc_futures

F = fc.F
GUARDED = ('file_futures', 'file_access_times', 'current_memory_usage')
PUBLIC = ('update_file_futures_and_memory', 'update_file', 'get_file', 'unload_file')


def build(reg, src):
    c16.build(reg, src)
    # keep the helper contracts of C16 (they require the lock and W); drop the single-client contracts of the public operations
    for k in list(reg.fns):
        name = k.split('::')[1]
        if name.startswith('KeyValueStorage.') or name in ('FileCache.' + p for p in PUBLIC) or name in ('FileCache._write_file', 'FileCache._load_file', 'FileCache.__init__'):
            del reg.fns[k]
    reg.extra_checks[:] = []
    from contracts import c18_append
    reg.extra_checks.append(c18_append.append_lock_check)
    reg.replays[:] = []
    reg.assumptions[:] = [
        "monitor rule: between a release and the next acquire other threads change the guarded state arbitrarily within G; "
        "threading.Lock gives mutual exclusion; tasks submitted to the executor run on other threads at any time",
        "msum lemmas as in C16 (Lean); ghost file model; dict/heapq library contracts",
        "linearizability of returned values and progress in general (every call returns) are NOT decided; of progress only 'no lock is acquired while "
        "this thread holds it' is (lock-acquire-not-held); the per-file append lock of PandasDataFrameCache.update is under its own "
        "contract (contracts/c18_append.py: guarantees g1-g4 proved, the rely on other threads assumed)",
    ]

    def setup(eng, st):
        fs.init_fs(st)
        st.env['self'] = fc.mk_cache(st, held=False)
        c16.valid_heap(st, st.field(st.env['self'], 'file_access_times'))
        st.ghost['concurrent'] = lift(True)
        st.ghost['wtask'] = fs.VArr(z3.Const('wtask0', fc.BoolArr))
        st.ghost['ltask'] = fs.VArr(z3.Const('ltask0', fc.BoolArr))

    not_held = lambda s, *a: VBool(z3.Not(A(s.st, s.self)['held']))

    reg.fn(F + 'update_file_futures_and_memory', params=c16.uffm_params(src), setup=setup, returns=None,
           requires=[not_held, lambda s: And(s.memory_usage >= 0, s.memory_usage <= VInt(A(s.st, s.self)['max']))],
           ensures=[not_held], ensures_exc=[not_held])
    reg.fn(F + 'unload_file', params=dict(file_name=FKey), setup=setup, returns=None, requires=[not_held], ensures=[not_held], ensures_exc=[not_held])

    def pub_setup(eng, st):
        setup(eng, st)
    reg.externals['self.executor.submit'] = submit_concurrent
    reg.fn(F + 'update_file', params=dict(file_name=FKey, new_file_contents=Str, use_fsync=Bool), setup=pub_setup, returns=Bool,
           requires=[not_held], ensures=[not_held], ensures_exc=[not_held])
    reg.fn(F + 'get_file', params=dict(file_name=FKey), setup=pub_setup, returns='opaque',
           requires=[not_held], ensures=[not_held], ensures_exc=[not_held])
    # a LOAD that completes while a write of the same file is pending must leave the write's entry alone: clearing its writing flag
    # would admit a second write next to the first (two writers race; disk, cache and accounting disagree for good)
    loaded_of = lambda s: s.loaded if s.has('loaded') else VBool(False)

    def load_passes_flag(s):
        return Implies(VBool('in_load_file' in s.st.ghost), loaded_of(s))

    def load_leaves_pending_write(s, r):
        snap = s.st.ghost.get('acq_arrays')
        if snap is None:
            return VBool(True)
        a1 = A(s.st, s.self)
        f = s.file_name.t
        same_entry = z3.And(*[sel(a1[k], f) == sel(snap[k], f) for k in ('dom', 'writing', 'bytes', 'fid', 'counted')])      # (other entries may have been evicted by recover_memory)
        return Implies(And(loaded_of(s), VBool(z3.And(sel(snap['dom'], f), sel(snap['writing'], f)))), VBool(same_entry))
    cu = reg.fns[F + 'update_file_futures_and_memory']
    cu.requires = list(cu.requires) + [load_passes_flag]
    cu.ensures = list(cu.ensures) + [load_leaves_pending_write]

    def lf_setup(eng, st):
        setup(eng, st)
        st.ghost['in_load_file'] = lift(True)
    reg.fn(F + '_load_file', params=dict(file_name=FKey), setup=lf_setup,
           requires=[not_held, lambda s: len_(s.g('os')[VU(fs.JOIN(A(s.st, s.self)['root'], s.file_name.t))]) <= VInt(A(s.st, s.self)['max'])],   # get_file checked the size
           returns='opaque', ensures=[not_held])

    # the writer task: the entry stops being a pending write (update_file_futures_and_memory clears the flag and counts the bytes) only
    # AFTER the file holds the new contents - otherwise a second update of the same file can be admitted while this write is still in
    # flight, and the two writes reach the disk in either order (cache and disk disagree for good)
    def wf_setup(eng, st):
        setup(eng, st)
        st.ghost['in_write_file'] = lift(True)

    def file_written(s):
        if 'in_write_file' not in s.st.ghost or 'wf_contents' not in s.st.ghost:
            return VBool(True)
        p = VU(fs.JOIN(A(s.st, s.self)['root'], s.file_name.t))
        return And(s.g('os')[p] == s.st.ghost['wf_contents'], s.g('os_ex')[p])

    reg.fns[F + 'update_file_futures_and_memory'].requires = list(reg.fns[F + 'update_file_futures_and_memory'].requires) + [file_written]

    def wf_full_setup(eng, st):
        wf_setup(eng, st)
        st.ghost['wf_contents'] = st.env['new_file_contents']
        # this task IS the unfinished write of file_name (update_file set wtask[file_name] when it submitted the task)
        st.assume(z3.Select(st.ghost['wtask'].t, st.env['file_name'].t))

    def completion_of_the_pending_write(s):
        # a call with loaded=False is the completion handler of the unfinished write of that file
        if 'wtask' not in s.st.ghost:
            return VBool(True)
        return Implies(Not(loaded_of(s)), VBool(z3.Select(s.st.ghost['wtask'].t, s.file_name.t)))
    reg.fns[F + 'update_file_futures_and_memory'].requires = list(reg.fns[F + 'update_file_futures_and_memory'].requires) + [completion_of_the_pending_write]
    reg.fn(F + '_write_file', params=dict(file_name=FKey, new_file_contents=Str, use_fsync=Bool), setup=wf_full_setup,
           requires=[not_held, lambda s: len_(s.new_file_contents) <= VInt(A(s.st, s.self)['max'])], returns='opaque', ensures=[not_held])
    from replay import c18 as rp

    # (bounded, labelled) "an update that reports failure has no effect"
    def failed_update(ctx):
        from pyvc.run import run_replay
        r = run_replay(lambda inputs, name: dict(rows=rp.failed_update_rows()), {}, 'failed-update', timeout_s=60)
        rows_ = r.get('rows') if isinstance(r, dict) else None
        if not rows_:
            return [dict(name='failed-update(bounded)::harness', ok=False, undecided=True, backend='native-execution (bounded)', detail=str(r)[:300])]
        return [dict(name=f"failed-update(bounded)::{g}", ok=bool(ok), backend='native-execution (bounded)', detail=d, confirmed=not ok) for g, ok, d in rows_]
    failed_update.__name__ = 'failed-update'
    reg.extra_checks.append(failed_update)
    reg.bounded.append(dict(check='failed-update', tool='native execution with one injected OSError in the writer', bound='one file, one fault, three follow-up operations', result='see rows'))
    reg.replays.append((r'update_file_futures_and_memory#release\.GL', rp.replay_late_load_accounting))
    reg.replays.append((r'update_file_futures_and_memory#(call|release|assert)', rp.replay_late_load_under_pressure))
    rp.replay_torn_read.demonstrates_known_finding = r'submit-write'      # its hit on the unchanged tree IS the recorded finding (thorough tier)
    reg.replays.append((r'submit-write\.no-load-of-the-file-in-flight|#release\.GLoad', rp.replay_torn_read))
    reg.replays.append((r'unload_file#release|#release\.GW', rp.replay_unload_during_write))
    reg.replays.append((r'update_file_futures_and_memory#assert', rp.replay_unload_during_load))
    reg.replays.append((r'update_file_futures_and_memory#release', rp.replay_double_count))
    reg.replays.append((r'_load_file|update_file_futures_and_memory#post', rp.replay_stale_load))
    rp.replay_append_lock.timeout_s = 90
    reg.replays.append((r'#append-lock\.', rp.replay_append_lock))       # sub-verification battery: run proactively by the thorough tier
    reg.replays.append((r'.', rp.replay_generic))


def GW(st, c):
    """an unfinished write owns its entry, and the future of that entry is not done"""
    a = A(st, c)
    fid = sel(a['fid'], fq)
    return VBool(z3.ForAll([fq], z3.Implies(z3.Select(st.ghost['wtask'].t, fq),
                                            z3.And(sel(a['dom'], fq), sel(a['writing'], fq), z3.Not(z3.Select(st.ghost['done_ids'].t, fid)),
                                                   z3.Not(z3.Select(st.ghost['failed_ids'].t, fid))))))


def GLoad(st, c):
    """an unfinished load has its entry in the table: not a pending write, no heap tuple, its future not done"""
    a = A(st, c)
    fid = sel(a['fid'], fq)
    return VBool(z3.ForAll([fq], z3.Implies(z3.Select(st.ghost['ltask'].t, fq),
                                            z3.And(sel(a['dom'], fq), z3.Not(sel(a['writing'], fq)), sel(a['cnt'], fq) == 0,
                                                   z3.Not(z3.Select(st.ghost['done_ids'].t, fid)), z3.Not(z3.Select(st.ghost['failed_ids'].t, fid))))))


def GL(st, c, at=None):
    """a counted entry whose task has completed accounts exactly the length of the contents it caches (at: one file instead of all)"""
    a = A(st, c)
    if at is not None:
        fid = sel(a['fid'], at)
        return VBool(z3.Implies(z3.And(sel(a['dom'], at), sel(a['counted'], at), z3.Select(st.ghost['done_ids'].t, fid),
                                       z3.Not(z3.Select(st.ghost['failed_ids'].t, fid))),
                                sel(a['bytes'], at) == z3.Length(z3.Select(st.ghost['res_of'].t, fid))))
    fid = sel(a['fid'], fq)
    return VBool(z3.ForAll([fq], z3.Implies(z3.And(sel(a['dom'], fq), sel(a['counted'], fq), z3.Select(st.ghost['done_ids'].t, fid),
                                                   z3.Not(z3.Select(st.ghost['failed_ids'].t, fid))),
                                            sel(a['bytes'], fq) == z3.Length(z3.Select(st.ghost['res_of'].t, fid)))))


def submit_concurrent(eng, st, args, kwargs, node):
    """the task runs on another thread at any later time: here only the future is created"""
    fid = st.ghost['next_fid']
    st.ghost['next_fid'] = fid + 1
    fut = st.alloc('Future', {'__id': fid, '__task': NONE, '__concurrent': lift(True)})
    st.ghost['submitted'] = st.ghost.get('submitted', lift(0)) + 1
    st.assume(And(Not(st.ghost['done_ids'][fid]), Not(st.ghost['failed_ids'][fid])))      # a future just created is not done
    fn = args[0] if args else None
    if 'ltask' in st.ghost and isinstance(fn, VFunc) and (fn.name == '_load_file' or str(fn.key or '').endswith('._load_file')) and len(args) > 1:
        st.ghost['ltask'] = st.ghost['ltask'].store(args[1], lift(True))          # an unfinished load of that file exists from now on
    if 'wtask' in st.ghost and isinstance(fn, VFunc) and (fn.name == '_write_file' or str(fn.key or '').endswith('._write_file')) and len(args) > 1:
        # one write of a file at a time: a second writer submitted next to an unfinished one races it to the disk, and the one that
        # loses still reports success
        eng.oblige(f"{eng.cur_key}#submit-write.no-write-of-the-file-in-flight@{eng.site_ordinal('submitw', node)}", st,
                   z3.Not(z3.Select(st.ghost['wtask'].t, lift(args[1]).t)), kind='monitor-invariant')
        st.ghost['wtask'] = st.ghost['wtask'].store(args[1], lift(True))          # an unfinished write of that file exists from now on
        if 'ltask' in st.ghost:
            # ... and no load of it may be in flight: the writer truncates the file before it writes (a torn read for the getter)
            eng.oblige(f"{eng.cur_key}#submit-write.no-load-of-the-file-in-flight@{eng.site_ordinal('submitwl', node)}", st,
                       z3.Not(z3.Select(st.ghost['ltask'].t, lift(args[1]).t)), kind='monitor-invariant', regions=_regions(st))
    return [(st, fut)]


_regions = lambda st: {}
REGIONS = {
    'load-of-the-file-in-flight-at-acquire': lambda inputs, o: o.meta.get('regions', {}).get('load-of-the-file-in-flight-at-acquire'),
    'entry-absent-at-acquire': lambda inputs, o: o.meta.get('regions', {}).get('entry-absent-at-acquire'),
    'entry-already-counted-at-acquire': lambda inputs, o: o.meta.get('regions', {}).get('entry-already-counted-at-acquire'),
}


def configure(eng):
    c16.configure(eng)

    def regions(st):
        c = st.env.get('self')
        f = st.env.get('file_name')
        snap = st.ghost.get('acq_arrays')
        if snap is None or not isinstance(f, VU):
            return {}
        r = {'entry-absent-at-acquire': z3.Not(sel(snap['dom'], f.t)),
             'entry-already-counted-at-acquire': sel(snap['counted'], f.t)}
        if 'ltask_acq' in st.ghost:
            r['load-of-the-file-in-flight-at-acquire'] = z3.Select(st.ghost['ltask_acq'].t, f.t)
        return r
    global _regions
    _regions = regions

    def on_acquire(e, st, lock, node):
        if 'concurrent' not in st.ghost:
            return
        c = st.env['self']
        havoc_table(st, c)
        havoc_futures(st)
        st.assume(W(st, c))                       # the monitor invariant holds whenever the lock is free
        a = A(st, c)
        st.ghost['acq_arrays'] = dict(dom=a['dom'], counted=a['counted'], writing=a['writing'], bytes=a['bytes'], fid=a['fid'], cur=a['cur'])
        st.ghost['acquires'] = st.ghost.get('acquires', lift(0)) + 1
        if 'wtask' in st.ghost:
            # other threads submit writes and complete their own; only the owner clears its flag (rely): the flag of the write that
            # is executing this code survives
            mine = None
            if e.cur_key.endswith('FileCache.update_file_futures_and_memory') and 'loaded' in st.env and 'file_name' in st.env:
                mine = z3.And(z3.Not(e.truth(st.env['loaded'])), z3.Select(st.ghost['wtask'].t, st.env['file_name'].t))
            new = fs.VArr(z3.Const(fresh_name('wtask'), fc.BoolArr))
            if mine is not None:
                st.assume(z3.Implies(mine, z3.Select(new.t, st.env['file_name'].t)))
            st.ghost['wtask'] = new
            st.assume(GW(st, c))
            st.assume(GL(st, c))
        if 'ltask' in st.ghost:
            st.ghost['ltask'] = fs.VArr(z3.Const(fresh_name('ltask'), fc.BoolArr))
            st.assume(GLoad(st, c))
            st.ghost['ltask_acq'] = st.ghost['ltask']

    def on_release(e, st, lock, node):
        if 'concurrent' not in st.ghost:
            return
        c = st.env['self']
        e.oblige(f"{e.cur_key}#release.G@{e.site_ordinal('release', node)}", st, W(st, c), kind='monitor-invariant', regions=regions(st))
        if 'wtask' in st.ghost:
            if e.cur_key.endswith('FileCache.update_file_futures_and_memory') and 'loaded' in st.env and 'file_name' in st.env:
                # the writer's completion handler: its write is finished when it leaves the critical section
                w = st.ghost['wtask'].t
                st.ghost['wtask'] = fs.VArr(z3.If(e.truth(st.env['loaded']), w, z3.Store(w, st.env['file_name'].t, z3.BoolVal(False))))
            e.oblige(f"{e.cur_key}#release.GW@{e.site_ordinal('releaseGW', node)}", st, GW(st, c), kind='monitor-invariant', regions=regions(st))
            if 'file_name' in st.env and isinstance(st.env['file_name'], VU):
                # the instance for the file this call is about (ground: decided at once; the quantified form covers the others)
                e.oblige(f"{e.cur_key}#release.GL[file_name]@{e.site_ordinal('releaseGL1', node)}", st, GL(st, c, at=st.env['file_name'].t),
                         kind='monitor-invariant', regions=regions(st))
            e.oblige(f"{e.cur_key}#release.GL@{e.site_ordinal('releaseGL', node)}", st, GL(st, c), kind='monitor-invariant', regions=regions(st))
        if 'ltask' in st.ghost:
            if e.cur_key.endswith('FileCache.update_file_futures_and_memory') and 'loaded' in st.env and 'file_name' in st.env:
                # the load's completion handler: its load is finished when it leaves the critical section
                l = st.ghost['ltask'].t
                st.ghost['ltask'] = fs.VArr(z3.If(e.truth(st.env['loaded']), z3.Store(l, st.env['file_name'].t, z3.BoolVal(False)), l))
            e.oblige(f"{e.cur_key}#release.GLoad@{e.site_ordinal('releaseGLoad', node)}", st, GLoad(st, c), kind='monitor-invariant', regions=regions(st))
    eng.hooks['on_acquire'] = on_acquire
    eng.hooks['on_release'] = on_release

    def getattr_cache(e, v, attr, st, node):
        if attr in GUARDED and 'concurrent' in st.ghost:
            lock = st.field(v, 'file_futures_lock')
            e.oblige(f"{e.cur_key}#guarded-field-accessed-under-lock[{attr}]@{e.site_ordinal('guard', node)}", st, st.field(lock, '__held'), kind='lock-discipline')
        return None
    eng.hooks['getattr:FileCache'] = getattr_cache
    prev_setattr = eng.hooks.get('setattr:FileCache')

    def setattr_cache(e, o, attr, v, st, node):
        if attr in GUARDED and 'concurrent' in st.ghost:
            lock = st.field(o, 'file_futures_lock')
            e.oblige(f"{e.cur_key}#guarded-field-written-under-lock[{attr}]@{e.site_ordinal('guardw', node)}", st, st.field(lock, '__held'), kind='lock-discipline')
        return prev_setattr(e, o, attr, v, st, node) if prev_setattr else False
    eng.hooks['setattr:FileCache'] = setattr_cache

    # futures of other threads' tasks: result() returns (or raises) whenever that task is finished - no assumption on the table
    prev_fm = eng.hooks['getattr:Future']

    def future_method(e, v, attr, st, node):
        if 'concurrent' in st.ghost and attr == 'result':
            def model(e2, s, args, kwargs, n):
                lock = [flds['__held'] for flds in s.heap.values() if '__held' in flds][0]
                e2.oblige(f"{e2.cur_key}#future.result-with-lock-released@{e2.site_ordinal('result', n)}", s, Not(lock), kind='lock')
                s2 = s.fork()
                return [(s, VOpaque(hint='result')), e2.exc(s2, '<any>', n)]
            return [(st, VFunc('result', model=model))]
        return prev_fm(e, v, attr, st, node)
    eng.hooks['getattr:Future'] = future_method

    # the source asserts carry the acquisition regions
    orig_oblige = eng.oblige

    def oblige(name, st, goal, kind='', **meta):
        if kind == 'assert' and 'concurrent' in st.ghost:
            meta['regions'] = regions(st)
        return orig_oblige(name, st, goal, kind=kind, **meta)
    eng.oblige = oblige
