"""C04 (evaluation depends only on the text and the state): the parse cache of `KlongInterpreter.__call__`.

The parser's frame (C12) is exactly: fresh nodes + the interpreter's `_module` (a `.module(:m)` statement switches the module WHILE THE TEXT
IS PARSED, and the names that follow are qualified with it).  `__call__` memoises the parsed program by (text, module).  Evaluating a
memoised program equals parsing the text again only if parsing it has no effect of its own - so:

    obligation  __call__#parse-cache.store-only-effect-free-parses :
        at every store into `self._parse_cache`, `self._module` is what it was when `self.prog(text)` was called.

A program whose parsing switched the module must be parsed again the next time (the switch is the program's effect); with it memoised, the
second `.module(:m)` of a session is evaluated without switching anything and the definitions that follow land in the wrong module.
The evaluator contracts of contracts/c03.py carry `__call__`; `prog` is the assumed parser contract with `_module` in its frame.
Runs as its own sub-verification inside the C04 check."""
import z3

from pyvc.values import *
from contracts import c03
from contracts.ctxmodel import KI


def build(reg, src):
    c03.build(reg, src, verify_evaluator=False)
    reg.replays[:] = []
    reg.extra_checks[:] = []
    c = reg.fns[KI + '__call__']
    c.verify = True

    def prog_modifies(eng, st, s):
        # the parser may switch the module (its frame, C12); remember what it was when parsing began
        k = st.env.get('self')
        if isinstance(k, VObj):
            st.ghost['module_at_parse'] = st.field(k, '_module')
            st.setfield(k, '_module', VOpaque(hint='module_after_parse'))
    reg.fns[KI + 'prog'].modifies = prog_modifies
    reg.assumptions += ["parser frame: KlongInterpreter.prog writes nothing of the interpreter but `_module` (C12's frame contract)"]


def configure(eng):
    c03.configure(eng)
    prev = eng.hooks.get('setitem')

    def store_item(e, obj, key, v, st, node):
        k = st.env.get('self')
        if isinstance(k, VObj) and isinstance(obj, VOpaque) and obj.t.eq(st.field(k, '_parse_cache').t) and e.cur_key == KI + '__call__':
            at = st.ghost.get('module_at_parse')
            now = st.field(k, '_module')
            # `is` or `==`: module names are symbols (or None), equal names are the same module
            goal = VBool(True) if at is None else Or(same(now, at), now == at, at == now)
            e.oblige(f"{e.cur_key}#parse-cache.store-only-effect-free-parses@{e.site_ordinal('pcstore', node)}", st, goal, kind='frame')
        return prev(e, obj, key, v, st, node) if prev else None
    eng.hooks['setitem'] = store_item
