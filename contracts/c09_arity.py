"""C09 (and C20 / C13 through the wrapper): the arity a Klong function is given at parse time.

`KGFnWrapper.__call__` rejects a call whose argument count differs from `fn.arity`, web routes skip handlers that are not monads, remote
function references carry the arity - all of that is only right if the arity IS the number of distinct function variables x, y, z that
occur anywhere in the function body.  `get_fn_arity._e` computes it by structural recursion over the parse tree; contract:
    _e(f, level=1)  ==  occ(f)        the set of reserved symbols occurring in the tree f
    _e(f, level=0)  ==  |occ(f)|
with the spec function occ given by its defining equations for each node shape (the property's sentence, not the code):
    occ(KGFn(a, args)) = occ(a) U occ(args)      WHATEVER args is: a list of nodes, a single node (monadic operator) or None
    occ([n1 ... nk])   = occ(n1) U ... U occ(nk)
    occ(symbol s)      = {s} if s is x, y, z (reserved) else {}
    occ(anything else) = {}
The recursion is modular (the recursive calls use this contract).  Own registry/engine, run inside the C09 check."""
import ast
import z3

from pyvc import smt
from pyvc.contracts import Registry, loop
from pyvc.engine import Engine
from pyvc.values import *

KEY = 'klongpy/types.py::get_fn_arity._e'
SetO = z3.ArraySort(Obj, z3.BoolSort())
SeqO = z3.SeqSort(Obj)
OCC = z3.Function('occ', Obj, SetO)
OCCSEQ = z3.Function('occ_seq', SeqO, Int, SetO)         # union of occ over the first k members
CARD = z3.Function('card', SetO, Int)
RES = z3.Function('is_reserved_fn_symbol', Obj, z3.BoolSort())
EMPTY = z3.K(Obj, z3.BoolVal(False))
union = lambda a, b: z3.Map(z3.Function('or!', z3.BoolSort(), z3.BoolSort(), z3.BoolSort()), a, b) if False else z3.SetUnion(a, b)


class VSetSym(V):
    def __init__(self, t): self.t = t


def occ_seq_facts(seq):
    k = z3.Const(fresh_name('k'), Int)
    return z3.And(OCCSEQ(seq, 0) == z3.EmptySet(Obj),
                  z3.ForAll([k], z3.Implies(z3.And(k >= 0, k < z3.Length(seq)), OCCSEQ(seq, k + 1) == z3.SetUnion(OCCSEQ(seq, k), OCC(seq[k])))))


def build(reg, src):
    fnode = src.find(KEY)

    def common(eng, st):
        st.env['level'] = fresh(Int, 'level')
        st.env['reserved_fn_symbols'] = VOpaque(hint='reserved_fn_symbols', nonnull=True)
        v = VFunc('_e', key=KEY, node=fnode)
        v.contract_key = KEY
        st.env['_e'] = v

    def fn_case(kind):
        def f(eng, st):
            common(eng, st)
            a = VOpaque(hint='a', nonnull=True)
            if kind == 'list':
                args = VSeq(z3.Const('args_seq', SeqO))
                occ_args = OCCSEQ(args.t, z3.Length(args.t))
                st.assume(occ_seq_facts(args.t))
            elif kind == 'single':
                args = VOpaque(hint='arg', nonnull=True)
                st.assume(z3.Not(args.pred('isinst:list').t))
                occ_args = OCC(args.t)
            else:
                args = NONE
                occ_args = z3.EmptySet(Obj)
            o = st.alloc('KGFn', dict(a=a, args=args, arity=VOpaque(hint='arity')), hint='f', fresh=False)
            st.env['f'] = o
            st.ghost['spec'] = VSetSym(z3.SetUnion(OCC(a.t), occ_args))
        return f

    def list_case(eng, st):
        common(eng, st)
        s = VSeq(z3.Const('f_seq', SeqO))
        st.env['f'] = s
        st.assume(occ_seq_facts(s.t))
        st.ghost['spec'] = VSetSym(OCCSEQ(s.t, z3.Length(s.t)))

    def sym_case(eng, st):
        common(eng, st)
        f = VOpaque(hint='f', nonnull=True)
        st.assume(z3.And(f.pred('isinst:KGSym').t, z3.Not(f.pred('isinst:KGFn').t), z3.Not(f.pred('isinst:list').t)))
        st.env['f'] = f
        st.ghost['spec'] = VSetSym(z3.If(RES(f.t), z3.SetAdd(z3.EmptySet(Obj), f.t), z3.EmptySet(Obj)))

    def other_case(eng, st):
        common(eng, st)
        f = VOpaque(hint='f')
        st.assume(z3.And(z3.Not(f.pred('isinst:KGSym').t), z3.Not(f.pred('isinst:KGFn').t), z3.Not(f.pred('isinst:list').t)))
        st.env['f'] = f
        st.ghost['spec'] = VSetSym(z3.EmptySet(Obj))

    def post(s, r):
        if not s.has('x'):
            # at a (recursive) call site (the callee's locals do not exist): the result is occ of the argument
            fo = s._entry['f']
            t = fo.t if isinstance(fo, (VOpaque, VObj)) else z3.Function('inj:seq', SeqO, Obj)(fo.t) if isinstance(fo, VSeq) else None
            if isinstance(r, VSetSym) and t is not None:
                return VBool(r.t == OCC(t))
            return VBool(True)
        spec = s.g('spec').t
        lvl = s._entry['level'].t
        if isinstance(r, VSetSym):
            return VBool(z3.And(lvl != 0, r.t == spec))
        if isinstance(r, VInt):
            return VBool(z3.And(lvl == 0, r.t == CARD(spec)))
        return VBool(False)
    reg.fn(KEY, cases=[('fn-args-list', fn_case('list')), ('fn-arg-single', fn_case('single')), ('fn-args-none', fn_case('none')),
                       ('list', list_case), ('symbol', sym_case), ('other', other_case)],
           returns=lambda hint: VSetSym(z3.Const(fresh_name('occ_ret'), SetO)), ensures=[post], raises=[],
           loops={0: loop(invariant=[lambda s: VBool(s.x.t == z3.SetUnion(OCC(s.st.field(s._cur['f'], 'a').t), OCCSEQ(s.st.field(s._cur['f'], 'args').t, s.g('__for_i').t)))],
                          havoc=dict(x=lambda h: VSetSym(z3.Const(fresh_name(h), SetO)), q='opaque')),
                  1: loop(invariant=[lambda s: VBool(s.x.t == OCCSEQ(s._cur['f'].t, s.g('__for_i').t))],
                          havoc=dict(x=lambda h: VSetSym(z3.Const(fresh_name(h), SetO)), q='opaque'))})
    reg.assumptions += ["the parse tree is finite and acyclic (termination of the structural recursion is not claimed here)",
                        "occ is given by its defining equations per node shape; a list node is a Python list, a function node a KGFn"]


def configure(eng):
    eng.opaque_classes |= {'KGSym', 'KGCall', 'KGOp', 'KGAdverb', 'KGCond', 'KGLambda'}

    def builtin_set(e, args, kwargs, st, node):
        if not args:
            return [(st, VSetSym(z3.EmptySet(Obj)))]
        v = args[0]
        if isinstance(v, VList):
            t = z3.EmptySet(Obj)
            for x in v.items:
                t = z3.SetAdd(t, e.as_obj(x))
            return [(st, VSetSym(t))]
        raise Refuse("set(...) of a symbolic collection")
    eng.hooks['builtin:set'] = builtin_set

    def builtin_len(e, args, kwargs, st, node):
        if isinstance(args[0], VSetSym):
            return [(st, VInt(CARD(args[0].t)))]
        return None
    eng.hooks['builtin:len'] = builtin_len

    def method(e, o, m, args, kwargs, st, node):
        if isinstance(o, VSetSym) and m == 'update' and len(args) == 1 and isinstance(args[0], VSetSym):
            e.rebind(st, o, VSetSym(z3.SetUnion(o.t, args[0].t)))
            return [(st, NONE)]
        return None
    eng.hooks['method'] = method

    def contains(e, item, container, st, node):
        if isinstance(container, VOpaque) and 'reserved_fn_symbols' in str(container.t):
            return RES(e.as_obj(item))            # membership in the constant table of function variables
        return None
    eng.hooks['contains'] = contains


def arity_check(ctx):
    src = ctx['src']
    reg = Registry('C09')
    build(reg, src)
    eng = Engine(src, reg)
    eng._names = set()
    configure(eng)
    try:
        eng.verify_fn(KEY)
    except Refuse as e:
        rows = [dict(name=KEY + '#refused', ok=False, undecided=True, backend='z3', detail=f"refused: {e}")]
        return _battery(rows)
    smt.discharge(eng.obligations, timeout_s=20 if ctx['tier'] == 'quick' else 90)
    rows = []
    for o in eng.obligations:
        if o.meta.get('kind') in ('vacuity-neg', 'vacuity-cover'):
            continue
        if o.result == 'unsat':
            rows.append(dict(name=o.name, ok=True, backend=o.backend, detail=f"trail={o.meta.get('trail')}", time=o.time))
        elif o.result == 'sat':
            rows.append(dict(name=o.name, ok=False, backend=o.backend, detail=f"the set of function variables computed on path {o.meta.get('trail')} is not occ(f)"))
        else:
            rows.append(dict(name=o.name, ok=False, undecided=True, backend=o.backend, detail=f"undecided: {getattr(o, 'why', '')}"))
    if not rows:
        rows.append(dict(name=KEY + '#zero-obligations', ok=False, undecided=True, backend='z3', detail='no obligation generated'))
    # the entry point: get_fn_arity(f) IS _e(f) - no path returns anything else (a special case that looks only at some of the nodes
    # gives another number, or fails on nodes it cannot hash)
    outer = src.find('klongpy/types.py::get_fn_arity')
    rets = [n for n in ast.walk(outer) if isinstance(n, ast.Return)] if outer is not None else []
    inner = src.find(KEY)
    own = [n for n in rets if not any(n is m for m in ast.walk(inner))] if inner is not None else rets
    bad = [ast.unparse(n) for n in own if ast.unparse(n) != 'return _e(f)']
    rows.append(dict(name='klongpy/types.py::get_fn_arity#every-path-returns-_e(f)', ok=bool(own) and not bad, backend='ast-structural',
                     detail=('the only result is _e(f)' if own and not bad else f"a path returns {bad[:1] or 'nothing'} instead of _e(f)")))
    ctx['eng'].verified[KEY] = dict(sha=src.sha(src.find(KEY)), paths=eng.paths.get(KEY), backend='z3 (own registry)')
    return _battery(rows)


def _battery(rows):
    bad = [r for r in rows if not r['ok']]
    if bad:
        from pyvc.run import run_replay
        import replay.c09 as rp
        r = run_replay(rp.replay_arity, {}, bad[0]['name'], timeout_s=60)
        for b in bad:
            if r.get('confirmed'):
                b['confirmed'], b['undecided'] = True, False
                b['detail'] += f" | real code: {r.get('detail')}"
            b['replay'] = dict(result=r)
    return rows


arity_check.__name__ = 'fn-arity'
