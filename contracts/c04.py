"""C04 - values are immutable: frame conditions on the verbs, adverbs and evaluator (partial).

What is decided (for every input, by ownership typing over the real AST - see pyvc/frames.py):
  (1) no verb, adverb or backend helper writes through an operand: every write site of every function of dyads.py, monads.py,
      adverbs.py, types.merge_projections and the backend's vec_fn/vec_fn2/rec_fn/kg_asarray/str_to_chr_arr targets an object
      allocated in that invocation - alias-aware: slices are views, asarray/kg_asarray/reshape/to_numpy may return their
      argument, shallow copies share members.  The only operand writes are the documented ones: Join with a dictionary on either
      side and Drop on a dictionary, each under a dictionary test on that operand;
  (2) the evaluator (eval, call, _eval_fn, _resolve_fn) never writes into the program tree it evaluates except the memo
      field `_compiled`; `_resolve_fn` appends to its `f_args` parameter and every call site passes a list allocated by the caller;
  (3) the copy-before-write steps named by the property are the allocation sites the typing relies on (Amend: array clone,
      Amend-in-depth: array clone at every level, Reshape: copy before patching the shape, Join: a new list).
Literal dictionaries (deep copy per evaluation) are C10's obligations, cache clearing on (re)binding C05/C09's; both are also
listed in DESIGN.md under C04.  NOT decided: that memoised parse trees / compiled code are unobservable over histories
(a relation between two runs), arity fields written on operator nodes during parsing.
"""
import ast
import os
import time

from pyvc.frames import FrameAnalysis

VERB_FILES = ['klongpy/dyads.py', 'klongpy/monads.py', 'klongpy/adverbs.py']
EXTRA_KEYS = [
    'klongpy/types.py::merge_projections',
    'klongpy/interpreter.py::KlongInterpreter.eval', 'klongpy/interpreter.py::KlongInterpreter.call',
    'klongpy/interpreter.py::KlongInterpreter._eval_fn', 'klongpy/interpreter.py::KlongInterpreter._resolve_fn',
    'klongpy/backends/base.py::BackendProvider.vec_fn', 'klongpy/backends/base.py::BackendProvider.vec_fn2',
    'klongpy/backends/base.py::BackendProvider.rec_fn', 'klongpy/backends/base.py::BackendProvider.kg_asarray',
    'klongpy/backends/base.py::BackendProvider.str_to_chr_arr',
    'klongpy/backends/numpy_backend.py::NumpyBackendProvider.kg_asarray',
    'klongpy/backends/numpy_backend.py::NumpyBackendProvider.str_to_char_array',
]
OWNERSHIP = {
    'klongpy/dyads.py::eval_dyad_join': dict(inplace_dict={'a', 'b'}),
    'klongpy/dyads.py::eval_dyad_drop': dict(inplace_dict={'b'}),
    'klongpy/interpreter.py::KlongInterpreter.eval': dict(memo_attrs={'_compiled'}),
    'klongpy/interpreter.py::KlongInterpreter._resolve_fn': dict(mutates={'f_args'}),
}
# copy-before-write allocation sites the property names: (function, text that must occur in a call on the path to the write)
ALLOCATION_SITES = [
    ('klongpy/dyads.py::eval_dyad_amend', 'array'), ('klongpy/dyads.py::_e_dyad_amend_in_depth', 'array'),
    ('klongpy/dyads.py::eval_dyad_reshape', 'copy'),
]
REGIONS = {}


def build(reg, src):
    reg.assumptions += [
        "allocation contracts of NumPy/builtins as tabulated in pyvc/frames.py: array/copy/tile/concatenate/resize/append/tolist/"
        "astype/flatten/... return a new object (members shared), deepcopy/str_to_chr_arr/ones/zeros/arithmetic return objects "
        "sharing nothing mutable, asarray/kg_asarray/reshape/ravel/to_numpy/flip/array_split may return their argument or a view",
        "callees that are neither in those tables nor functions of the repository (function values passed in, klong.call, ufuncs) "
        "do not write their arguments; their result may alias any argument",
        "NumPy writes through views reach the base array; an index into an array may be a row view (rows_are_views)",
        "torch backend methods are not under contract (numpy backend)",
        "closures capture the enclosing bindings flow-insensitively",
    ]

    def frames(ctx):
        t0 = time.time()
        fa = FrameAnalysis(src, OWNERSHIP)
        fa.rows_are_views = True
        keys = [f"{rel}::{n}" for rel in VERB_FILES for n in src.module_funcs.get(rel, {})] + EXTRA_KEYS
        res, missing = [], []
        seen = set()
        functions = set()
        unknown = set()
        for k in keys:
            s = fa.summary(k)
            if s is None:
                missing.append(k)
                continue
            functions.add(k)
            unknown |= s.unknown_calls
            for site in s.sites:
                ident = (site.fn_key, site.node.lineno, site.node.col_offset, site.kind)
                if ident in seen:
                    continue
                seen.add(ident)
                name = f"{site.fn_key}#frame.{site.kind}[{site.ordinal}]"
                if site.ok:
                    detail = f"line {site.node.lineno}: `{site.text}` writes " + \
                             (f"an operand, allowed: {site.allowed}" if site.allowed else "only objects allocated in this invocation")
                else:
                    detail = f"line {site.node.lineno}: `{site.text}` may write through operand(s) {sorted(site.labels)} (an object the caller still holds)"
                res.append(dict(name=name, ok=site.ok, backend='ownership-typing', detail=detail, fn=site.fn_key))
        for k in missing:
            res.append(dict(name=f"{k}#frame.function-present", ok=False, undecided=True, backend='ownership-typing',
                            detail='function under frame contract not found in the source'))
        # the verbs named by the property must still allocate before they write (vacuity guard for (3))
        for k, word in ALLOCATION_SITES:
            node = src.find(k)
            has_write = has_alloc = False
            if node is not None:
                for n in ast.walk(node):
                    if isinstance(n, ast.Call) and isinstance(n.func, ast.Attribute) and n.func.attr == word:
                        has_alloc = True
                    if isinstance(n, (ast.Assign, ast.AugAssign)) and any(isinstance(t, ast.Subscript) for t in (n.targets if isinstance(n, ast.Assign) else [n.target])):
                        has_write = True
                    if isinstance(n, ast.Call) and isinstance(n.func, ast.Attribute) and n.func.attr == 'put':
                        has_write = True
            res.append(dict(name=f"{k}#frame.reachability.write-site-present", ok=bool(node is not None and has_write), backend='ast-structural',
                            undecided=not (node is not None and has_write),
                            detail='the updating verb still contains a write site (else its frame obligations would be vacuous)'))
        for k in sorted(functions):
            node = src.find(k)
            ctx['eng'].verified[k] = dict(sha=src.sha(node), write_sites=sum(1 for r in res if r.get('fn', '').startswith(k)),
                                          paths='all (flow-sensitive typing with joins)', backend='ownership-typing')
        reg.assumptions.append("callees treated as unknown (assumed not to write their arguments; result may alias any argument): "
                               + ', '.join(sorted(unknown)))
        bad = [r for r in res if not r['ok'] and not r.get('undecided')]
        if bad:
            # no solver model for a typing failure: look for a failing input on the real code with the fixed battery
            from pyvc.run import run_replay
            import replay.c04 as rp
            r = run_replay(lambda inputs, name: rp.seek(), {}, bad[0]['name'], timeout_s=120)
            for b in bad:
                b['confirmed'] = bool(r.get('confirmed'))
                b['replay'] = dict(harness='replay/c04.py: seek()', result=r, typing_output=b['detail'])
                if r.get('confirmed'):
                    b['detail'] += f" | real code: {r.get('input')}: {r.get('detail')}"
        dt = time.time() - t0
        for r in res:
            r['time'] = dt / max(1, len(res))
        return res
    frames.__name__ = 'frames'
    reg.extra_checks.append(frames)

    # rebinding by a program (the Define verb) must go through KlongInterpreter.__setitem__, which clears the compiled cache: otherwise
    # the result of a text depends on what was evaluated before the rebinding.  The obligation is C05's contract of eval_dyad_define,
    # re-verified here with its own registry (one function, ~1 s).
    def define_clears_caches(ctx):
        from pyvc.contracts import Registry
        from pyvc.engine import Engine
        from pyvc import smt
        from pyvc.values import Refuse
        from contracts import c05
        reg2 = Registry('C04')
        c05.build(reg2, src)
        reg2.extra_checks[:] = []
        eng2 = Engine(src, reg2)
        eng2._names = set()
        c05.configure(eng2)
        key = 'klongpy/dyads.py::eval_dyad_define'
        try:
            eng2.verify_fn(key)
        except Refuse as e:
            return [dict(name=key + '#refused', ok=False, undecided=True, backend='z3', detail=f"refused: {e}")]
        smt.discharge(eng2.obligations, timeout_s=20)
        rows = []
        for o in eng2.obligations:
            if o.meta.get('kind') in ('vacuity-neg', 'vacuity-cover'):
                continue
            if o.result == 'unsat':
                rows.append(dict(name=o.name, ok=True, backend=o.backend, detail='rebinding goes through __setitem__ (cache cleared: C09)'))
            elif o.result == 'sat':
                from pyvc.run import run_replay
                import replay.c05 as rp5
                r = run_replay(rp5.replay_rebinding, {}, o.name, timeout_s=60)
                rows.append(dict(name=o.name, ok=False, backend=o.backend, confirmed=bool(r.get('confirmed')), replay=dict(result=r, goal=str(o.goal)[:800]),
                                 detail='Define writes the context without going through KlongInterpreter.__setitem__: the compiled cache keeps code of the old binding'
                                        + (f" | real code: {r.get('detail')}" if r.get('confirmed') else '')))
            else:
                rows.append(dict(name=o.name, ok=False, undecided=True, backend=o.backend, detail='undecided'))
        ctx['eng'].verified[key] = dict(sha=src.sha(src.find(key)), backend='z3 (own registry, contract of contracts/c05.py)')
        return rows
    define_clears_caches.__name__ = 'define-clears-caches'
    reg.extra_checks.append(define_clears_caches)

    # ... and __setitem__ / __delitem__ themselves clear the compiled cache on EVERY rebinding (also inside a function body): C09's
    # contracts of the two methods, re-verified here
    def setitem_clears_caches(ctx):
        from pyvc.subverify import subverify
        from contracts import c09
        import replay.c05 as rp5
        KI_ = 'klongpy/interpreter.py::KlongInterpreter.'
        rows, _ = subverify(src, 'C04', c09, [KI_ + '__setitem__', KI_ + '__delitem__'], replay=rp5.replay_rebinding,
                            why='every (re)binding and deletion clears the compiled-expression cache')
        for k in (KI_ + '__setitem__', KI_ + '__delitem__'):
            ctx['eng'].verified[k] = dict(sha=src.sha(src.find(k)), backend='z3 (contract of contracts/c09.py)')
        return rows
    setitem_clears_caches.__name__ = 'setitem-clears-caches'
    reg.extra_checks.append(setitem_clears_caches)

    # evaluation leaves the scope stack as it found it - also when the body of a called function raises: otherwise the NEXT evaluation
    # depends on the history (dead locals stay visible).  C03's contract of _eval_fn, re-verified here
    def frames_popped_on_every_exit(ctx):
        from pyvc.subverify import subverify
        from contracts import c03
        import replay.c03 as rp3
        KI_ = 'klongpy/interpreter.py::KlongInterpreter.'
        rows, _ = subverify(src, 'C04', c03, [KI_ + '_eval_fn'], replay=rp3.replay_application,
                            why='the scope pushed for a call is popped on the normal and on the exceptional exit')
        ctx['eng'].verified[KI_ + '_eval_fn (scope stack restored)'] = dict(sha=src.sha(src.find(KI_ + '_eval_fn')), backend='z3 (contract of contracts/c03.py)')
        return rows
    frames_popped_on_every_exit.__name__ = 'frames-popped-on-every-exit'
    reg.extra_checks.append(frames_popped_on_every_exit)

    # ... and the parse cache of __call__ may only memoise texts whose parsing has no effect of its own (the parser switches the module
    # at `.module`): otherwise the same text in the same state is evaluated differently the second time (contracts/c04_parsecache.py)
    def parse_cache_is_effect_free(ctx):
        from pyvc.subverify import subverify
        from contracts import c04_parsecache as pc
        import replay.c04 as rp4
        key = 'klongpy/interpreter.py::KlongInterpreter.__call__'
        rows, _ = subverify(src, 'C04', pc, [key], replay=rp4.replay_parse_cache_module,
                            why='a parsed program is memoised only if parsing it left the active module unchanged')
        rows = [r for r in rows if 'parse-cache' in r['name'] or r.get('undecided')]      # __call__'s other obligations belong to C03 / C05
        if not any('parse-cache' in r['name'] for r in rows):
            rows.append(dict(name=key + '#parse-cache.no-store-found', ok=False, undecided=True, backend='z3', detail='no store into _parse_cache met'))
        if src.find(key) is not None:
            ctx['eng'].verified[key + ' (parse cache)'] = dict(sha=src.sha(src.find(key)), backend='z3 (contracts/c04_parsecache.py)')
        return rows
    parse_cache_is_effect_free.__name__ = 'parse-cache-is-effect-free'
    reg.extra_checks.append(parse_cache_is_effect_free)

    # ... and the per-node memo of the compile decision must not make a later evaluation depend on what the variables held EARLIER:
    # compiled code is only called on the kinds of value it was admitted for (C05's structural obligation, also a C04 matter)
    def compiled_memo_is_history_free(ctx):
        from contracts import c05
        return c05.compiled_calls_guarded(ctx)
    compiled_memo_is_history_free.__name__ = 'compiled-memo-is-history-free'
    reg.extra_checks.append(compiled_memo_is_history_free)
