"""C13 - remote evaluation over IPC equals evaluation on the server (partial: transport and request construction).

 (1) encode_message(id, m) = id.bytes ++ be32(|p|) ++ p with p = dumps(m); a body of 2^32 bytes or more raises;
 (2) ghost stream and cursor: if the stream at the cursor starts with the frame of (id, m), stream_recv_msg returns
     (id, loads(p)) and advances the cursor by exactly 20 + |p| - consecutive frames are delivered one by one, in order, from
     any cursor; how the bytes were chunked is invisible by the contract of StreamReader.readexactly (assumed);
 (3) request construction: f(:name,args) -> KGRemoteFnCall(name, args); the function proxy passes the first `arity` of x,y,z;
     dictionary get/set build the matching commands; the listener answers under the SAME message id;
 (4) :undefined must still test as undefined (an identity test) after transport: KGUndefined pickles by reference.
"""
import ast
import z3
from pyvc.values import *
from pyvc.state import Raised
from pyvc.contracts import loop
from . import ipcmodel as im
from . import ctxmodel as cm
from .ipcmodel import IPC, DUMPS, LOADS, BE32, UNBE32, BYTES, UUIDOF


def build(reg, src):
    from contracts import c14 as _c14
    reg.extra_checks.append(lambda ctx: _c14.reply_is_the_result_rows(src))
    reg.assumptions += [
        "pickle: loads(dumps(v)) is structurally equal to v for data values and the same object only for objects pickled by reference "
        "(premise checked on the class statement of KGUndefined); struct '!I' and uuid bytes are inverse codecs on their domains",
        "asyncio.StreamReader.readexactly(n) returns the next n bytes of the stream regardless of how they arrived, or raises "
        "IncompleteReadError at end of stream: THIS is the assumption that carries 'however the byte stream is split'",
        "the server-side evaluation itself (klong(str(command)) etc.) and value equivalence of pickled values are not decided",
    ]
    # ---------------- codec
    def enc_setup(eng, st):
        st.env['msg_id'] = VOpaque(hint='msg_id', nonnull=True)
        st.env['msg'] = VOpaque(hint='msg')
    reg.fn(IPC + 'encode_message', setup=enc_setup, returns=Str,
           ensures=[lambda s, r: VBool(r.t == im.frame(s.msg_id0.t, s.msg0.t)) if isinstance(r, VStr) else VBool(False),
                    lambda s, r: VBool(z3.Length(DUMPS(s.msg0.t)) < im.TWO32)])
    reg.fn(IPC + 'decode_message_len', params=dict(raw_msglen=Str), returns=Int,
           ensures=[lambda s, r: VBool(r.t == UNBE32(s.raw_msglen0.t))])
    reg.fn(IPC + 'decode_message', params=dict(raw_msg_id=Str, data=Str), returns=('opaque', 'opaque'),
           ensures=[lambda s, r: And(VBool(r[0].t == UUIDOF(s.raw_msg_id0.t)), VBool(r[1].t == LOADS(s.data0.t)))])

    # ---------------- receive: one frame from any cursor
    def recv_setup(eng, st):
        im.init_stream(st)
        st.env['reader'] = im.mk_reader(st)
        # ghost description of the frame at the cursor
        st.env['__id'] = VOpaque(hint='id', nonnull=True)
        st.env['__m'] = VOpaque(hint='m')
        idt, mt = st.env['__id'].t, st.env['__m'].t
        im.codec_facts(st, n=z3.Length(DUMPS(mt)), idt=idt, msgt=mt)

    def frame_at_cursor(s):
        """sigma[c:] starts with FRAME(id, m)  (positional rendering)"""
        sig, c = s.g0('sigma').t, s.g0('cursor').t
        idt, mt = s._cur['__id'].t, s._cur['__m'].t
        p = DUMPS(mt)
        n = z3.Length(p)
        return VBool(z3.And(n < im.TWO32, c + 20 + n <= z3.Length(sig), z3.SubString(sig, c, 16) == BYTES(idt),
                            z3.SubString(sig, c + 16, 4) == BE32(n), z3.SubString(sig, c + 20, n) == p))

    def recv_post(s, r):
        if '__id' not in s._cur:
            return VBool(True)
        idt, mt = s._cur['__id'].t, s._cur['__m'].t
        return Implies(frame_at_cursor(s), And(VBool(r[0].t == idt), VBool(r[1].t == mt),
                                               s.g('cursor') == s.g0('cursor') + 20 + VInt(z3.Length(DUMPS(mt)))))

    reg.fn(IPC + 'stream_recv_msg', setup=recv_setup, returns=('opaque', 'opaque'), ensures=[recv_post, lambda s, r: s.g('reads') == 3 if '__id' in s._cur else VBool(True)],
           # a frame that is completely in the stream is never refused
           ensures_exc=[lambda s, e: Not(frame_at_cursor(s)) if ('__id' in s._cur and e.cls != '<any>') else VBool(True)])

    def send_setup(eng, st):
        im.init_stream(st)
        st.env['writer'] = im.mk_writer(st)
        st.env['msg_id'] = VOpaque(hint='msg_id', nonnull=True)
        st.env['msg'] = VOpaque(hint='msg')

    def send_post(s, r):
        if 'sent' not in s.st.ghost:
            return VBool(True)
        sent = s.st.ghost['sent'].items
        return VBool(len(sent) == 1) & (VBool(sent[0].t == im.frame(s.msg_id0.t, s.msg0.t)) if len(sent) == 1 else VBool(False))
    reg.fn(IPC + 'stream_send_msg', setup=send_setup, returns=None, ensures=[send_post],
           modifies=lambda eng, st, s: 'sent' in st.ghost and st.ghost.__setitem__('sent', VList([VStr(im.frame(eng.as_obj(s.msg_id), eng.as_obj(s.msg)))])),
           ghost_at_call=lambda eng, st, s, r: 'sent_frames' in st.ghost and st.ghost.__setitem__('sent_frames', VList(st.ghost['sent_frames'].items + [VTuple([s.msg_id, s.msg])])))

    # ---------------- request construction on the client
    def nc_setup(eng, st):
        cm.init_ghost(st)
        st.env['self'] = st.alloc('NetworkClient', {}, fresh=False)
        st.ghost['nc_calls'] = VList([])

    def ncc_setup(kind):
        def f(eng, st):
            nc_setup(eng, st)
            st.env['_'] = VOpaque(hint='klong')
            ctx = VOpaque(hint='ctx', nonnull=True)
            st.env['ctx'] = ctx
            x = VOpaque(hint='x', nonnull=True)
            st.ghost['x'] = x
            if kind == 'fn-call':
                st.assume(VBool(z3.Function('assumed:is_list', Obj, Bool)(x.t)))
                st.assume(VBool(z3.Function('len:obj', Obj, Int)(x.t) > 0))
            elif kind == 'text':
                st.assume(Not(VBool(z3.Function('assumed:is_list', Obj, Bool)(x.t))))
            # ctx[x-symbol] is x
            key = z3.Const('SYM_x', Obj)
            st.ghost['has'] = cm.VArr(z3.Store(st.ghost['has'].t, ctx.t, z3.Store(z3.Select(st.ghost['has'].t, ctx.t), key, True)))
            st.ghost['mem'] = cm.VArr(z3.Store(st.ghost['mem'].t, ctx.t, z3.Store(z3.Select(st.ghost['mem'].t, ctx.t), key, x.t)))
        return f

    def ncc_post(s, r):
        calls = s.st.ghost['nc_calls'].items
        if len(calls) != 1:
            return VBool(False)
        msg = calls[0]
        x = s.st.ghost['x']
        rec = s.st.ghost.get('fncall:' + str(msg.t)) if isinstance(msg, VOpaque) else None
        head_is_sym = VOpaque(z3.Function('item0', Obj, Obj)(x.t)).pred('isinst:KGSym')
        islist = VBool(z3.And(z3.Function('assumed:is_list', Obj, Bool)(x.t), z3.Function('len:obj', Obj, Int)(x.t) > 0))
        if rec is not None:
            name, params = rec.items
            return And(islist, head_is_sym, VBool(name.t == z3.Function('item0', Obj, Obj)(x.t)), VBool(params.t == z3.Function('rest1', Obj, Obj)(x.t)))
        return And(same(msg, x), Not(And(islist, head_is_sym)))
    reg.fn(IPC + 'NetworkClient.__call__', cases=[('fn-call', ncc_setup('fn-call')), ('text', ncc_setup('text'))], returns='opaque', ensures=[ncc_post])
    reg.fn(IPC + 'NetworkClient.call', verify=False, returns='opaque',
           ghost_at_call=lambda eng, st, s, r: 'nc_calls' in st.ghost and st.ghost.__setitem__('nc_calls', VList(st.ghost['nc_calls'].items + [s.msg])))

    def proxy_setup(n):
        def f(eng, st):
            cm.init_ghost(st)
            nc = st.alloc('NetworkClient', {}, fresh=False)
            st.ghost['nc_calls'] = VList([])
            st.env['self'] = st.alloc('KGRemoteFnProxy', {'nc': nc, 'sym': VOpaque(hint='sym', nonnull=True), 'args': VList([lift(a) for a in 'xyz'[:n]])}, fresh=False)
            st.env['_'] = VOpaque(hint='klong')
            st.env['ctx'] = VOpaque(hint='ctx', nonnull=True)
        return f

    def proxy_post(s, r):
        calls = s.st.ghost['nc_calls'].items
        if len(calls) != 1 or not isinstance(calls[0], VOpaque):
            return VBool(False)
        rec = s.st.ghost.get('fncall:' + str(calls[0].t))
        if rec is None:
            return VBool(False)
        name, params = rec.items
        n = len(s.old.field(s.self, 'args').items)
        if not isinstance(params, VList) or len(params.items) != n:
            return VBool(False)
        parts = [same(name, s.old.field(s.self, 'sym'))]
        for i in range(n):
            want = z3.Select(z3.Select(s.old.ghost['mem'].t, s.ctx0.t), z3.Const('SYM_' + 'xyz'[i], Obj))
            parts.append(VBool(params.items[i].t == want))
        return And(*parts)
    reg.fn(IPC + 'KGRemoteFnProxy.__call__', cases=[(f"arity{n}", proxy_setup(n)) for n in range(4)], returns='opaque', ensures=[proxy_post])

    def dh_setup(eng, st):
        cm.init_ghost(st)
        nc = st.alloc('NetworkClient', {}, fresh=False)
        st.ghost['nc_calls'] = VList([])
        st.env['self'] = st.alloc('NetworkClientDictHandle', {'nc': nc}, fresh=False)

    def dh_get_post(s, r):
        calls = s.st.ghost['nc_calls'].items
        if len(calls) != 1 or not isinstance(calls[0], VOpaque):
            return VBool(False)
        rec = s.st.ghost.get('dictget:' + str(calls[0].t))
        return same(rec.items[0], s.x0) if rec is not None else VBool(False)

    def dh_set_post(s, r):
        calls = s.st.ghost['nc_calls'].items
        if len(calls) != 1 or not isinstance(calls[0], VOpaque):
            return VBool(False)
        rec = s.st.ghost.get('dictset:' + str(calls[0].t))
        return And(same(rec.items[0], s.x0), same(rec.items[1], s.y0)) if rec is not None else VBool(False)
    reg.fn(IPC + 'NetworkClientDictHandle.get', setup=dh_setup, returns='opaque', ensures=[dh_get_post])
    reg.fn(IPC + 'NetworkClientDictHandle.set', setup=dh_setup, returns='opaque', ensures=[dh_set_post])

    # ---------------- the listener answers under the same id (shared with C14's _listen contract)
    from . import c14
    c14.build_listen(reg, only_echo=True)

    # ---------------- :undefined survives transport: pickled by reference
    def check_undefined(ctx):
        t = ctx['src'].tree('klongpy/types.py')
        cls = next((n for n in t.body if isinstance(n, ast.ClassDef) and n.name == 'KGUndefined'), None)
        ok, detail = False, 'class KGUndefined not found'
        if cls is not None:
            red = next((m for m in cls.body if isinstance(m, ast.FunctionDef) and m.name in ('__reduce__', '__reduce_ex__')), None)
            if red is None:
                detail = "KGUndefined defines no __reduce__: pickle re-creates a NEW instance, so a transported :undefined fails the identity test of eval_monad_undefined"
            else:
                rets = [r.value for r in ast.walk(red) if isinstance(r, ast.Return)]
                ok = len(rets) == 1 and isinstance(rets[0], ast.Constant) and rets[0].value == 'KLONG_UNDEFINED'
                detail = f"__reduce__ returns {ast.unparse(rets[0]) if rets else None}"
            # the premise: a module-level name KLONG_UNDEFINED bound to an instance
            bound = any(isinstance(n, ast.Assign) and any(getattr(x, 'id', None) == 'KLONG_UNDEFINED' for x in n.targets) for n in t.body)
            ok = ok and bound
        # eval_monad_undefined tests identity
        m = ctx['src'].find('klongpy/monads.py::eval_monad_undefined')
        ident = m is not None and any(isinstance(n, ast.Compare) and isinstance(n.ops[0], ast.Is) for n in ast.walk(m))
        return [dict(name='klongpy/types.py::KGUndefined#pickles-by-reference(transport-preserves-identity)', ok=ok, backend='ast-structural', detail=detail,
                     confirmed=False, replay=dict(kind='undefined')),
                dict(name='klongpy/monads.py::eval_monad_undefined#tests-identity', ok=ident, backend='ast-structural', detail='identity test found' if ident else 'no `is` test found')]
    reg.extra_checks.append(check_undefined)
    reg.extra_checks.append(lambda ctx: frame_written_atomically(ctx))
    from replay import c13 as rp
    reg.extra_checks.append(rp.confirm_undefined)
    reg.replays.append((r'KGRemoteFnProxy|NetworkClientDictHandle|execute_server_command', rp.replay_remote_values))
    reg.replays.append((r'.', rp.replay_framing))


REGIONS = {}


def configure(eng):
    from . import c14
    c14.configure(eng)
    eng.opaque_classes |= {'KGRemoteFnCall', 'KGRemoteDictGetCall', 'KGRemoteDictSetCall', 'KGRemoteFnRef', 'KGRemoteFnProxy', 'KGSym',
                           'KGRemoteCloseConnection'}
    eng.globals_v['reserved_fn_args'] = VList([lift(n) for n in 'xyz'])
    eng.globals_v['reserved_fn_symbol_map'] = VOpaque(z3.Const('reserved_fn_symbol_map', Obj), nonnull=True)
    eng.reg.assumed_calls.update({'is_list': Bool})
    eng.reg.pure_calls |= {'is_list'}

    prev_index = eng.hooks['index']

    def index(e, obj, key, st, node):
        if obj is e.globals_v['reserved_fn_symbol_map'] and isinstance(key, VStr) and z3.is_string_value(key.t):
            return [(st, VOpaque(z3.Const('SYM_' + key.t.as_string(), Obj), nonnull=True))]
        if isinstance(obj, VOpaque) and isinstance(key, VInt) and z3.is_int_value(key.t) and key.t.as_long() == 0 and 'x' in st.ghost:
            return [(st, VOpaque(z3.Function('item0', Obj, Obj)(obj.t), nonnull=True))]
        return prev_index(e, obj, key, st, node)
    eng.hooks['index'] = index

    def slice_(e, v, lo, hi, st, node):
        if isinstance(v, VOpaque) and isinstance(lo, VInt) and z3.is_int_value(lo.t) and lo.t.as_long() == 1 and hi is None:
            return [(st, VOpaque(z3.Function('rest1', Obj, Obj)(v.t), nonnull=True))]
        return None
    eng.hooks['slice'] = slice_

    def mk_rec(tag):
        def h(e, args, kwargs, st, node):
            o = e.mk_opaque_instance({'fncall': 'KGRemoteFnCall', 'dictget': 'KGRemoteDictGetCall', 'dictset': 'KGRemoteDictSetCall'}[tag], st)
            st.ghost[tag + ':' + str(o.t)] = VTuple(list(args))
            return [(st, o)]
        return h
    eng.hooks['new:KGRemoteFnCall'] = mk_rec('fncall')
    eng.hooks['new:KGRemoteDictGetCall'] = mk_rec('dictget')
    eng.hooks['new:KGRemoteDictSetCall'] = mk_rec('dictset')


def frame_written_atomically(ctx):
    """one connection has several senders (NetworkClient.call from the interpreter thread, the listen loop's replies): a frame stays in
    one piece only if stream_send_msg hands the WHOLE frame to the writer in one write() call before its first await (StreamWriter.write
    never suspends; everything between two awaits is atomic on the event loop).  Structural obligation on the real function."""
    import ast
    src = ctx['src']
    K_ = 'klongpy/sys_fn_ipc.py::stream_send_msg'
    fn = src.find(K_)
    if fn is None:
        return [dict(name=K_ + '#frame-written-in-one-piece', ok=False, undecided=True, backend='ast-structural', detail='function not found')]
    writes = [n for n in ast.walk(fn) if isinstance(n, ast.Call) and isinstance(n.func, ast.Attribute) and n.func.attr in ('write', 'writelines')]
    loops = [n for n in ast.walk(fn) if isinstance(n, (ast.For, ast.While, ast.AsyncFor))]
    in_loop = [w for w in writes if any(w in list(ast.walk(l)) for l in loops)]
    awaits = [n for n in ast.walk(fn) if isinstance(n, ast.Await)]
    first_write = min((w.lineno, w.col_offset) for w in writes) if writes else None
    await_before = [a for a in awaits if first_write and (a.lineno, a.col_offset) < first_write]
    whole = len(writes) == 1 and 'encode_message' in ast.unparse(writes[0])
    ok = bool(writes) and whole and not in_loop and not await_before
    why = ('the frame (encode_message(...)) is passed to one write() call before the first await' if ok else
           f"{len(writes)} write call(s), {len(in_loop)} of them in a loop, {len(await_before)} await(s) before the first write: a second sender can write between the pieces")
    row = dict(name=K_ + '#frame-written-in-one-piece', ok=ok, backend='ast-structural', detail=why, confirmed=False)
    if not ok:
        from pyvc.run import run_replay
        import replay.c13 as rp13
        r = run_replay(rp13.replay_concurrent_senders, {}, row['name'], timeout_s=60)
        row['confirmed'] = bool(r.get('confirmed'))
        row['replay'] = dict(result=r)
        if r.get('confirmed'):
            row['detail'] += f" | real code: {r.get('detail')}"
    return [row]
