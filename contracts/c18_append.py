"""C18 (table cache): the per-file append lock of `PandasDataFrameCache.update` under contract.

`update` is a read-merge-write on one file; what makes two appends to the same table serialise is that both run the read-merge-write
under THE lock registered for that file in `append_locks` (a WeakValueDictionary: a lock is registered as long as some appender holds
a reference to it).  That is a rely/guarantee argument over threads; the per-thread GUARANTEES are obligations on the real code here:

 g1  `append_locks` is only read or written while this thread holds `file_futures_lock`            (#append-locks-accessed-under-lock)
 g2  a lock is registered for a file only when - in the SAME critical section - none is registered    (#append-lock-registered-only-when-absent)
     (check-then-act is atomic: acquiring `file_futures_lock` havocs this thread's view of the registry unless it holds a reference
     to the registered lock, which keeps it registered)
 g3  the read-merge-write runs under the lock this thread saw registered (or registered itself) in its last critical section, and
     get_file / update_file of the merge are called with that lock held                             (#merge-under-the-registered-lock)
 g4  no lock is acquired while this thread already holds it (threading.Lock is not re-entrant: the call would never return - C18's
     "every call returns"); `update` itself REQUIRES that the lock registered for the file is not held by the caller, which is what
     its own retry has to establish                                                                (#lock-acquire-not-held, #call…update.pre)

RELY (assumed of the other threads, and it is what g1-g3 give for each of them): others register only when absent and only under
`file_futures_lock`.  With that, two threads inside the read-merge-write of one file hold the same lock object - impossible.
Runs as its own small verification (separate registry/engine) inside the C18 check."""
import z3

from pyvc import smt
from pyvc.contracts import Registry
from pyvc.engine import Engine
from pyvc.values import *
from contracts.filecache import with_lock, lock_method

D = 'klongpy/db/df_cache.py::PandasDataFrameCache.'
F = 'klongpy/db/file_cache.py::FileCache.'


def _reg_lock(st):
    """(present, lock object or None) - this thread's view of append_locks[file_name]"""
    return st.ghost['al_present'], st.ghost['al_lock']


def build(reg, src):
    def setup(eng, st):
        cl = st.alloc('Lock', {'__held': lift(False)}, hint='file_futures_lock', fresh=False)
        al = st.alloc('AppendLocks', {}, hint='append_locks', fresh=False)
        o = st.alloc('PandasDataFrameCache', dict(file_futures_lock=cl, append_locks=al), hint='self', fresh=False)
        st.env['self'] = o
        st.env['file_name'] = VOpaque(hint='file_name', nonnull=True)
        st.env['new_df'] = VOpaque(hint='new_df', nonnull=True)
        # the registry entry of file_name at entry: unknown; if a lock is registered this thread does not hold it (requires)
        L0 = st.alloc('Lock', {'__held': lift(False)}, hint='registered0', fresh=False)
        st.ghost['al_present'] = VBool(z3.Const(fresh_name('present'), Bool))
        st.ghost['al_lock'] = L0
        st.ghost['al_mine'] = NONE          # the registered lock this thread holds a reference to (keeps it registered)
        st.ghost['cache_lock'] = cl

    def caller_does_not_hold_the_registered_lock(s):
        st = s.st
        mine = st.ghost.get('al_mine')
        if isinstance(mine, VObj):
            return VBool(z3.Not(st.field(mine, '__held').t))
        return VBool(True)

    def cache_lock_free(s):
        return VBool(z3.Not(s.st.field(s.st.ghost['cache_lock'], '__held').t))
    reg.fn(D + 'update', setup=setup, returns='opaque', requires=[cache_lock_free, caller_does_not_hold_the_registered_lock], ensures=[])

    def merge_locked(s):
        mine = s.st.ghost.get('al_mine')
        if not isinstance(mine, VObj):
            return VBool(False)
        return VBool(s.st.field(mine, '__held').t)
    reg.fn(F + 'get_file', params=dict(file_name='opaque'), returns='nonnull', raises=['FileNotFoundError'], verify=False,
           requires=[cache_lock_free, merge_locked])
    reg.fn(F + 'update_file', returns=Bool, raises=['MemoryError', 'OSError'], verify=False, requires=[cache_lock_free, merge_locked])
    reg.externals['serialize_df'] = lambda e, st, a, k, n: [(st, VOpaque(hint='bytes', nonnull=True))]
    reg.externals['threading.Lock'] = lambda e, st, a, k, n: [(st, st.alloc('Lock', {'__held': lift(False)}, hint='newlock'))]
    reg.externals['pd.concat'] = lambda e, st, a, k, n: [(st, VOpaque(hint='concat', nonnull=True))]
    reg.assumptions += [
        "RELY of the append-lock argument: every other thread registers an append lock only when none is registered and only under "
        "file_futures_lock (the guarantees g1-g3 proved here for this code, assumed of its other invocations); WeakValueDictionary keeps "
        "an entry exactly while a strong reference to the lock exists (CPython reference counting)",
        "linearizability of the values returned by update is NOT decided - only the lock protocol that serialises the read-merge-write",
    ]


def configure(eng):
    eng.module_names |= {'pd', 'threading'}
    eng.opaque_methods |= {'sort_index', 'duplicated'}
    eng.stable_opaque_attrs |= {'index'}
    eng.opaque_ops_may_raise = False
    eng.hooks['unaryop'] = lambda e, op, v, st, node: [(st, VOpaque(hint='notmask', nonnull=True))] if isinstance(v, VOpaque) else None
    eng.hooks['index'] = lambda e, v, i, st, node: [(st, VOpaque(hint='sel', nonnull=True))] if isinstance(v, VOpaque) else None
    enter0, exit0 = with_lock()

    def is_cache_lock(st, cm):
        return cm.oid == st.ghost['cache_lock'].oid

    def enter(e, st, cm, node):
        if not is_cache_lock(st, cm):
            mine = st.ghost.get('al_mine')
            e.oblige(f"{e.cur_key}#merge-under-the-registered-lock@{e.site_ordinal('flock', node)}", st,
                     VBool(isinstance(mine, VObj) and mine.oid == cm.oid).t, kind='lock-protocol')
        outs = enter0(e, st, cm, node)
        if is_cache_lock(st, cm):
            # another thread may have registered / the entry may have died since this thread last looked - unless it holds a reference
            if not isinstance(st.ghost.get('al_mine'), VObj):
                st.ghost['al_present'] = VBool(z3.Const(fresh_name('present'), Bool))
                st.ghost['al_lock'] = st.alloc('Lock', {'__held': lift(False)}, hint='registered', fresh=False)
        return outs
    eng.hooks['with:Lock'] = (enter, exit0)
    eng.hooks['getattr:Lock'] = lock_method

    def guarded(e, st, node, what):
        e.oblige(f"{e.cur_key}#append-locks-accessed-under-lock[{what}]@{e.site_ordinal('al', node)}", st,
                 st.field(st.ghost['cache_lock'], '__held').t, kind='lock-discipline')
        return st.field(st.ghost['cache_lock'], '__held')

    def al_method(e, v, attr, st, node):
        if attr == 'get':
            def model(e2, s, args, kwargs, n):
                held = guarded(e2, s, n, 'get')
                outs = []
                for s2, present in e2.branch(s, s.ghost['al_present'].t, 'append_locks.get'):
                    if present:
                        L = s2.ghost['al_lock']
                        # a reference obtained under the cache lock keeps the entry alive; one obtained outside pins nothing that
                        # this thread may rely on (the view was not current)
                        for s3, h in e2.branch(s2, held.t, 'cache-lock-held'):
                            if h:
                                s3.ghost['al_mine'] = L
                            outs.append((s3, L))
                    else:
                        outs.append((s2, args[1] if len(args) > 1 else NONE))
                return outs
            return [(st, VFunc('get', model=model))]
        return None
    eng.hooks['getattr:AppendLocks'] = al_method

    def setitem(e, obj, key, val, st, node):
        if isinstance(obj, VObj) and obj.cls == 'AppendLocks':
            held = guarded(e, st, node, 'store')
            e.oblige(f"{e.cur_key}#append-lock-registered-only-when-absent@{e.site_ordinal('alreg', node)}", st,
                     z3.Not(st.ghost['al_present'].t), kind='lock-protocol')
            if not isinstance(val, VObj) or val.cls != 'Lock':
                raise Refuse("append_locks[...] = something that is not a lock")
            st.ghost['al_present'] = VBool(True)
            st.ghost['al_lock'] = val
            outs = []
            for s3, h in e.branch(st, held.t, 'cache-lock-held'):
                if h:
                    s3.ghost['al_mine'] = val
                outs.append(('fall', s3, None))
            return outs
        return None
    eng.hooks['setitem'] = setitem


def append_lock_check(ctx):
    src = ctx['src']
    reg = Registry('C18')
    build(reg, src)
    eng = Engine(src, reg)
    eng._names = set()
    configure(eng)
    K = D + 'update'
    try:
        eng.verify_fn(K)
    except Refuse as e:
        return _with_battery([dict(name=K + '#append-lock.refused', ok=False, undecided=True, backend='z3', detail=f"refused: {e}")])
    obls = eng.obligations
    smt.discharge(obls, timeout_s=20 if ctx['tier'] == 'quick' else 90)
    rows, n_real = [], 0
    for o in obls:
        kind = o.meta.get('kind')
        nm = o.name.replace('update#', 'update#append-lock.')
        if kind in ('vacuity-neg', 'vacuity-cover'):
            if o.result == 'unsat':
                rows.append(dict(name=nm, ok=False, undecided=True, backend=o.backend, detail='vacuity probe unsatisfiable'))
            continue
        n_real += 1
        if o.result == 'unsat':
            rows.append(dict(name=nm, ok=True, backend=o.backend, detail=f"trail={o.meta.get('trail')}", time=o.time))
        elif o.result == 'sat':
            rows.append(dict(name=nm, ok=False, backend=o.backend, detail=f"fails on path {o.meta.get('trail')}: {str(o.goal)[:200]}"))
        else:
            rows.append(dict(name=nm, ok=False, undecided=True, backend=o.backend, detail=f"undecided on path {o.meta.get('trail')}"))
    if n_real == 0:
        rows.append(dict(name=K + '#append-lock.zero-obligations', ok=False, undecided=True, backend='z3', detail='no obligation generated'))
    ctx['eng'].verified[K + ' (append-lock protocol)'] = dict(sha=src.sha(src.find(K)), paths=eng.paths.get(K), backend='z3 (own registry)')
    return _with_battery(rows)


def _with_battery(rows):
    bad = [r for r in rows if not r['ok']]
    if bad:
        from pyvc.run import run_replay
        import replay.c18 as rp
        r = run_replay(rp.replay_append_lock, {}, bad[0]['name'], timeout_s=90)
        for b in bad:
            if r.get('confirmed'):
                b['confirmed'] = True
                b['undecided'] = False
                b['detail'] += f" | real code: {r.get('detail')}"
            b['replay'] = dict(result=r)
    return rows


append_lock_check.__name__ = 'append-lock'
