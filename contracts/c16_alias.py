"""C16 (table store): a table handed out by the store does not share its frame with the cache entry - ownership typing of the real AST.

`TableStorage.get` returns `Table(df)` where `df` is the very frame object the cache serves to every later reader; `Table.set`
(adding a column), `Table.set_index`, `reset_index` and the indexed commit all write `self._df` IN PLACE.  "A get returns the value of
the latest set" therefore needs a frame condition: what a reader does to the table it fetched must not reach the cache entry.
Obligations (pyvc/frames.py - may-alias labels over the real source, no solver):
  * `Table.__init__#owns._df[k]`       wherever the argument `data` is not known to be a dict of columns (the frame branch), the frame
                                        stored in `self._df` shares nothing mutable with `data` (DataFrame.copy() is a new object - deep by
                                        default, Copy-on-Write otherwise: pandas==3.0.0 is pinned by pyproject.toml; assumed pandas
                                        contract; the frame object itself is not);
  * `TableStorage.get#returns-a-new-table`   what get returns is a newly constructed object (or the :undefined constant), never the
                                        frame the cache holds.
Replay: set, get, change the fetched table (add a column; index it), get again - through the real TableStorage."""
from pyvc.frames import FrameAnalysis, is_operand_label

T = 'klongpy/db/sys_fn_db.py::Table.__init__'
G = 'klongpy/db/sys_fn_kvs.py::TableStorage.get'


def table_ownership_check(ctx):
    src = ctx['src']
    fa = FrameAnalysis(src, {})
    fa.extra_deep_fresh_methods = {'copy'}
    fa.constructors = True
    fa.copy_on_write = True     # pandas==3.0.0 (pinned in pyproject.toml): a shallow copy is a new object whose writes never reach the original
    rows = []
    sm = fa.summary(T)
    if sm is None:
        rows.append(dict(name=T + '#owns.function-present', ok=False, undecided=True, backend='ownership-typing', detail='not found'))
    else:
        stores = [x for x in sm.field_stores if x[0] == '_df']
        for i, (attr, node, v, dicts) in enumerate(stores):
            labels = sorted(l for l in v.all() if is_operand_label(l) and l.rstrip('*') == 'data')
            in_dict_branch = 'data' in dicts
            ok = not labels or in_dict_branch
            rows.append(dict(name=f"{T}#owns._df[{i}]", ok=ok, backend='ownership-typing', confirmed=False,
                             detail=f"line {node.lineno}: `{__import__('ast').unparse(node)[:90]}` " +
                                    ("stores a frame created here" if not labels else
                                     "shares the caller's column dict (documented copy=False; data is a dict here)" if in_dict_branch else
                                     f"stores a frame that may be / share memory with the frame passed in ({labels})")))
        if not stores:
            rows.append(dict(name=T + '#owns.reachability', ok=False, undecided=True, backend='ownership-typing', detail='no store to self._df found (vacuity guard)'))
        ctx['eng'].verified[T + ' (frame ownership)'] = dict(sha=src.sha(src.find(T)), backend='ownership-typing', stores=len(stores))
    sg = fa.summary(G)
    if sg is None or sg.ret is None:
        rows.append(dict(name=G + '#returns-a-new-table.function-present', ok=False, undecided=True, backend='ownership-typing', detail='not found / returns nothing'))
    else:
        outer = sorted(l for l in sg.ret.flat().outer if not l.startswith('@global:'))     # a module-level constant is not the cache's frame
        rows.append(dict(name=G + '#returns-a-new-table', ok=not outer, backend='ownership-typing', confirmed=False,
                         detail="returns a newly constructed Table (or the :undefined constant)" if not outer else
                                f"may return an object that is not created by the call - the cache's own frame ({outer})"))
        ctx['eng'].verified[G + ' (frame ownership)'] = dict(sha=src.sha(src.find(G)), backend='ownership-typing')
    bad = [r for r in rows if not r['ok'] and not r.get('undecided')]
    if bad:
        from pyvc.run import run_replay
        import replay.c16 as rp
        r = run_replay(rp.replay_table_ownership, {}, bad[0]['name'], timeout_s=60)
        for b in bad:
            b['confirmed'] = bool(r.get('confirmed'))
            b['replay'] = dict(result=r)
            if r.get('confirmed'):
                b['detail'] += f" | real code: {r.get('detail')}"
    return rows


table_ownership_check.__name__ = 'table-ownership'
