"""C20 - web routes and websocket messages reach their Klong handler exactly once, intact (partial).

 * HTTP: the handler closure created for a route calls ITS handler exactly once with dict(query) / dict(form), answers with
   str(result); any exception in the handler (or a wrong method) yields status 400 and escapes nowhere else;
 * the closure registered in an iteration of the route loops carries that iteration's handler and route (default-argument
   capture), wraps Klong functions in KGFnWrapper (re-resolution at every request), and routes whose handler is not a monad or
   is a call are skipped;
 * .webc: shutdown cancels the server task and cleans the runner up, exactly once, only for a live handle;
 * websocket: _listen receives one message, decodes it and dispatches it to .ws.m exactly once before reading the next;
   the connection is pushed as .ws.h for the call and popped on every exit; the handler is called once with (connection, message)
   and its result or failure is delivered to the waiting future exactly once; call() sends json.dumps(msg, cls=NumpyEncoder).
aiohttp routing / request parsing, websockets and JSON are assumed.
"""
import z3
from pyvc.values import *
from pyvc.state import Raised
from pyvc.contracts import loop
from . import ctxmodel as cm

WEB = 'klongpy/web/sys_fn_web.py::'
WS = 'klongpy/ws/sys_fn_ws.py::'
DICT = z3.Function('dict_of', Obj, Obj)
STROF = z3.Function('str:obj', Obj, Str)


def same_pair(a, b):
    return isinstance(a, VTuple) and isinstance(b, VTuple) and all(x is y for x, y in zip(a.items, b.items))


def handler_model(eng, st, args, kwargs, node):
    st.ghost['hcalls'] = VList(st.ghost['hcalls'].items + [VTuple(list(args))])
    r = VOpaque(hint='hresult')
    st.ghost['hret'] = r
    s2 = st.fork()
    return [(st, r), eng.exc(s2, '<any>', node)]


def build(reg, src):
    reg.assumptions += [
        "aiohttp: route matching, request parsing (rel_url.query, post()), web.Response; websockets recv/send; json dumps/loads: assumed",
        "'after .webc the port no longer answers': only that shutdown cancels the task and cleans the runner (the rest is aiohttp)",
        "unregistered paths reach no handler: aiohttp routing (assumed)",
    ]
    # ---------------- request handlers
    def req_setup(eng, st):
        cm.init_ghost(st)
        st.env['request'] = VOpaque(hint='request', nonnull=True)
        st.env['fn'] = VFunc('handler', model=handler_model)
        st.env['route'] = VOpaque(hint='route', nonnull=True)
        st.ghost['hcalls'] = VList([])
        st.ghost['responses'] = VList([])

    def resp_of(r, s):
        return s.st.ghost.get('resp:' + str(r.t)) if isinstance(r, VOpaque) else None

    def handler_post(kind):
        def post(s, r):
            rec = resp_of(r, s)
            if rec is None:
                return VBool(False)
            text, status = rec.items
            calls = s.st.ghost['hcalls'].items
            req = s.request0.t
            method_ok = VOpaque(z3.Function('attr:method', Obj, Obj)(req)).__eq__(lift(kind))
            ok_resp = VBool(False)
            if len(calls) == 1 and isinstance(status, VNoneT):
                (arg,) = calls[0].items
                if kind == 'GET':
                    want = DICT(z3.Function('attr:query', Obj, Obj)(z3.Function('attr:rel_url', Obj, Obj)(req)))
                else:
                    form = s.st.ghost.get('posted')
                    want = DICT(form.t) if form is not None else None
                if want is not None:
                    ok_resp = And(method_ok, VBool(arg.t == want), VBool(text.t == STROF(s.st.ghost['hret'].t)) if isinstance(text, VStr) else VBool(False))
            bad_resp = And(VBool(len(calls) <= 1), same(status, lift(400)) if isinstance(status, VInt) else VBool(False))
            return Or(ok_resp, bad_resp)
        return post

    reg.fn(WEB + 'eval_sys_fn_create_web_server._get', setup=req_setup, returns='opaque', raises=[], ensures=[handler_post('GET')])
    reg.fn(WEB + 'eval_sys_fn_create_web_server._post', setup=req_setup, returns='opaque', raises=[], ensures=[handler_post('POST')])
    for k in ('_get', '_post'):
        reg.fns[WEB + 'eval_sys_fn_create_web_server.' + k].runtime_asserts = True

    # ---------------- route registration
    def srv_setup(eng, st):
        cm.init_ghost(st)
        st.env['klong'] = VOpaque(hint='klong', nonnull=True)
        st.env['x'] = VOpaque(hint='addr', nonnull=True)
        st.env['y'] = VOpaque(hint='get_routes', nonnull=True)
        st.env['z'] = VOpaque(hint='post_routes', nonnull=True)
        st.ghost['registered'] = VList([])

    def srv_post(s, r):
        parts = []
        for reg_ in s.st.ghost['registered'].items:
            kind, route, clo, elem = reg_.items
            if not isinstance(clo, VFunc) or clo.defaults is None or len(clo.defaults) != 2 or not isinstance(elem, VTuple):
                return VBool(False)              # the handler closure must capture its handler and route at definition time
            eroute, efn = elem.items
            dfn, droute = clo.defaults
            want_name = '_get' if kind == 'get' else '_post'
            if not same_pair(elem, s.st.ghost.get('generic_pair')):
                continue                                  # registered by an earlier iteration: already checked there
            parts += [VBool(clo.name == want_name), same(route, eroute), same(droute, eroute)]
            isfn = efn.pred('isinst:KGFn')
            w = s.st.ghost.get('wrapper:' + str(dfn.t)) if isinstance(dfn, VOpaque) else None
            wrapped = And(same(w.items[0], s.klong0), same(w.items[1], efn)) if w is not None else VBool(False)
            parts.append(If(isfn, wrapped, same(dfn, efn)))
            parts.append(Not(efn.pred('isinst:KGCall')))
            arity = If(isfn, VOpaque(z3.Function('attr:arity', Obj, Obj)(efn.t)).__eq__(lift(1)), VBool(True))
            parts.append(arity)
        return And(*parts) if parts else VBool(True)

    reg.fn(WEB + 'eval_sys_fn_create_web_server', setup=srv_setup, returns='opaque', ensures=[srv_post],
           # the registration made by an iteration is checked at the end of that iteration (loop invariant)
           loops={0: loop(invariant=[lambda s: srv_post(s, None)], havoc=dict(arity='opaque', fn_wrapped='opaque', _get='opaque')),
                  1: loop(invariant=[lambda s: srv_post(s, None)], havoc=dict(arity='opaque', fn_wrapped='opaque', _post='opaque'))})

    # ---------------- shutdown
    def sh_setup(eng, st):
        st.env['self'] = st.alloc('WebServerHandle', {'bind': VOpaque(hint='bind'), 'port': VOpaque(hint='port'),
                                                      'runner': VOpaque(hint='runner', nonnull=True), 'task': VOpaque(hint='task', nonnull=True)}, fresh=False)
        st.ghost['events'] = VList([])
        st.ghost['verifying_shutdown'] = lift(True)
    reg.fn(WEB + 'WebServerHandle.shutdown', setup=sh_setup, returns=None,
           ensures=[lambda s, r: VBool([e for e in s.st.ghost['events'].items] == ['cancel', 'cleanup']) if 'verifying_shutdown' in s.st.ghost else VBool(True),
                    lambda s, r: And(is_none(s.st.field(s.self, 'runner')), is_none(s.st.field(s.self, 'task')))],
           sets=lambda s, r: [(s.self, 'runner', NONE), (s.self, 'task', NONE)])

    # ---------------- .webc(x): x is what .web(...) returned and a Klong program holds - the WebServerHandle itself.  For a live handle
    # the server is shut down exactly once and 1 is returned (anything else returns 0 without touching a server)
    def webc_setup(eng, st):
        h = st.alloc('WebServerHandle', {'bind': VOpaque(hint='bind'), 'port': VOpaque(hint='port'),
                                         'runner': VOpaque(hint='runner', nonnull=True), 'task': VOpaque(hint='task', nonnull=True)}, fresh=False)
        st.env['x'] = h
        st.env['klong'] = VOpaque(hint='klong', nonnull=True)
        st.ghost['shutdowns'] = lift(0)
    reg.fns[WEB + 'WebServerHandle.shutdown'].ghost_at_call = lambda eng, st, s, r: 'shutdowns' in st.ghost and st.ghost.__setitem__('shutdowns', st.ghost['shutdowns'] + 1)
    reg.fn(WEB + 'eval_sys_fn_shutdown_web_server', setup=webc_setup, returns='opaque',
           ensures=[lambda s, r: And(s.g('shutdowns') == 1, (r == 1) if isinstance(r, VInt) else VBool(False))])
    reg.externals['asyncio.run_coroutine_threadsafe'] = lambda e, st, a, k, n: [(st, VTuple(['cfuture', a[0]]))]
    reg.externals['print'] = lambda e, st, a, k, n: [(st, NONE)]

    # ---------------- websocket
    def ws_listen_setup(eng, st):
        cm.init_ghost(st)
        st.env['self'] = st.alloc('NetworkClient', {'websocket': VOpaque(hint='ws', nonnull=True), 'klongloop': VOpaque(hint='klongloop'),
                                                    'klong': VOpaque(hint='klong')}, fresh=False)
        st.env['on_message'] = VOpaque(hint='on_message')
        st.ghost['events'] = VList([])

    def ws_listen_post(s, r):
        ev = s.st.ghost['events'].items
        kinds = [e.items[0] for e in ev]
        if kinds.count('recv') != 1 or kinds.count('dispatch') != 1 or kinds.index('recv') > kinds.index('dispatch'):
            return VBool(False)
        raw = [e for e in ev if e.items[0] == 'recv'][0].items[1]
        d = [e for e in ev if e.items[0] == 'dispatch'][0].items
        return And(same(d[1], lift('.ws.m')), VBool(d[2].t == z3.Function('assumed:json.loads', Obj, Obj)(raw.t)), same(d[3], s.self))
    reg.fn(WS + 'NetworkClient._listen', setup=ws_listen_setup, returns=None, ensures=[ws_listen_post],
           ensures_exc=[lambda s, e: VBool([x.items[0] for x in s.st.ghost['events'].items].count('dispatch') <= 1),
                        # a failure of the .ws.m handler stays inside this message: what escapes _listen ends the whole connection loop
                        # (_run), and every later message of the connection would be lost with it
                        lambda s, e: VBool([x.items[0] for x in s.st.ghost['events'].items].count('dispatch') == 0
                                           or e.cls == 'KlongWSConnectionFailureException')])
    reg.fn(WS + 'decode_message', inline=True)
    reg.fn(WS + 'encode_message', inline=True)
    reg.assumed_calls.update({'json.loads': 'opaque', 'json.dumps': 'nonnull'})
    reg.pure_calls |= {'json.loads'}

    def esc_setup(eng, st):
        k = cm.mk_klong(st, 'klong')
        st.env['future_loop'] = VOpaque(hint='future_loop', nonnull=True)
        st.env['result_future'] = VOpaque(hint='result_future', nonnull=True)
        st.env['sym'] = VOpaque(hint='sym', nonnull=True)
        st.env['command'] = VOpaque(hint='command')
        st.env['nc'] = VOpaque(hint='nc', nonnull=True)
        st.ghost['hcalls'] = VList([])
        st.ghost['delivered'] = VList([])

    def C(s): return s.st.field(s.klong, '_context')

    def esc_post(s, *a):
        calls = s.st.ghost['hcalls'].items
        dl = s.st.ghost['delivered'].items
        parts = [cm.stack_preserved(s, C(s)), VBool(len(calls) <= 1), VBool(len(dl) == 1)]      # pushed connection popped on every exit
        if len(calls) == 1:
            parts += [same(calls[0].items[0], s.nc0), same(calls[0].items[1], s.command0)]
        if len(dl) == 1 and dl[0].items[0] == 'result':
            parts += [VBool(len(calls) == 1), same(dl[0].items[1], s.st.ghost['hret'])]
        return And(*parts)
    reg.fn(WS + 'execute_server_command', setup=esc_setup, returns=None, raises=[], requires=[lambda s: cm.ctx_inv(s.st, C(s))],
           ensures=[esc_post])

    from replay import c20 as rp
    # (bounded, labelled) every JSON kind of websocket message reaches the handler BODY exactly once through klong['.ws.m'](conn, msg)
    def ws_kinds(ctx):
        from pyvc.run import run_replay
        r = run_replay(lambda inputs, name: dict(rows=rp.ws_message_kinds()), {}, 'ws-message-kinds', timeout_s=60)
        rows = r.get('rows') if isinstance(r, dict) else None
        if not rows:
            return [dict(name='ws-message-kinds(bounded)::harness', ok=False, undecided=True, backend='native-execution (bounded)', detail=str(r)[:200])]
        return [dict(name=f"ws-message-kinds(bounded)::{k}", ok=bool(ok), backend='native-execution (bounded)', detail=d, confirmed=not ok) for k, ok, d in rows]
    ws_kinds.__name__ = 'ws-message-kinds'
    reg.extra_checks.append(ws_kinds)
    reg.bounded.append(dict(check='ws-message-kinds', tool='native execution of klong[\'.ws.m\'](conn, msg)', bound='13 JSON kinds of message', result='see rows'))
    def ws_send(ctx):
        from pyvc.run import run_replay
        r = run_replay(lambda inputs, name: dict(rows=rp.ws_send_kinds()), {}, 'ws-send-kinds', timeout_s=60)
        rows = r.get('rows') if isinstance(r, dict) else None
        if not rows:
            return [dict(name='ws-send-kinds(bounded)::harness', ok=False, undecided=True, backend='native-execution (bounded)', detail=str(r)[:200])]
        return [dict(name=f"ws-send-kinds(bounded)::{k}", ok=bool(ok), backend='native-execution (bounded)', detail=d, confirmed=not ok) for k, ok, d in rows]
    ws_send.__name__ = 'ws-send-kinds'
    reg.extra_checks.append(ws_send)
    reg.bounded.append(dict(check='ws-send-kinds', tool='native execution of encode_message on values produced by the interpreter', bound='14 kinds of value (literal and computed)', result='see rows'))
    # "the handler is called exactly once per request / message": route handlers and .ws.m are stored as KGFnWrapper objects, so the
    # sentence rests on KGFnWrapper.__call__ evaluating the (re-resolved) function exactly once also when its body raises - its contract
    # is in contracts/c09.py; re-verified here, not assumed
    def handler_wrapper_calls_once(ctx):
        from pyvc.subverify import subverify
        from contracts import c09
        import replay.c09 as rp9
        key = 'klongpy/types.py::KGFnWrapper.__call__'
        rows, _ = subverify(src, 'C20', c09, [key], replay=rp9.replay_wrapper, why='a wrapped handler is evaluated exactly once per call, also when its body raises')
        if src.find(key) is not None:
            ctx['eng'].verified[key] = dict(sha=src.sha(src.find(key)), backend='z3 (contract of contracts/c09.py)')
        return rows
    handler_wrapper_calls_once.__name__ = 'handler-wrapper-calls-once'
    reg.extra_checks.append(handler_wrapper_calls_once)
    reg.replays.append((r'shutdown_web_server|WebServerHandle', rp.replay_webc))
    reg.replays.append((r'NetworkClient\._listen|decode_message', rp.replay_listen_kinds))
    reg.replays.append((r'.', rp.replay_web))


REGIONS = {}


def configure(eng):
    from . import c03
    cm.configure(eng)
    eng.reg.fn(cm.KC + 'push', verify=False, returns=None, raises=[],
               modifies=lambda e, st, s: st.setfield(s.self, '_context', VSeq(z3.Concat(z3.Unit(e.as_obj(s.d)), cm.seq_of(st, s.self)))))
    eng.reg.fn(cm.KC + 'pop', verify=False, returns='opaque', raises=[],
               modifies=lambda e, st, s: st.setfield(s.self, '_context', VSeq(z3.If(z3.Length(cm.seq_of(st, s.self)) > cm.min_of(st, s.self),
                                                                                    z3.SubSeq(cm.seq_of(st, s.self), 1, z3.Length(cm.seq_of(st, s.self)) - 1),
                                                                                    cm.seq_of(st, s.self)))))
    eng.opaque_classes |= {'KGFnWrapper', 'KGSym', 'KlongException', 'KGCall', 'KGFn', 'KGLambda', 'KlongWSConnectionFailureException', 'WebServerHandle'}
    eng.stable_opaque_attrs |= {'method', 'rel_url', 'query', 'arity'}
    eng.module_names |= {'web', 'concurrent', 'websockets'}
    eng.opaque_methods |= {'post', 'items', 'get_arity', 'add_get', 'add_post', 'cancel', 'cleanup', 'recv', 'send', 'split', 'set_result', 'call_soon_threadsafe', 'result', 'setup', 'start'}
    eng.src.EXTRA_BASES.update({'websockets.exceptions.ConnectionClosed': ['Exception'], 'ConnectionClosed': ['Exception']})

    prev_method = eng.hooks.get('method')

    def method_cf(e, o, m, args, kwargs, st, node):
        if isinstance(o, VTuple) and o.items and o.items[0] == 'cfuture' and m == 'result':
            return [(st, o.items[1])]
        return prev_method(e, o, m, args, kwargs, st, node) if prev_method else None
    eng.hooks['method'] = method_cf
    eng.module_names |= {'asyncio'}

    def b_dict(e, args, kwargs, st, node):
        if len(args) == 1 and isinstance(args[0], VOpaque):
            return [(st, VOpaque(DICT(args[0].t), nonnull=True))] + e.maybe_raise(st, 'dict', node)
        if not args and not kwargs:
            return None
        return None
    eng.hooks['builtin:dict'] = b_dict

    def response(e, st, args, kwargs, node):
        o = VOpaque(hint='response', nonnull=True)
        st.ghost['resp:' + str(o.t)] = VTuple([kwargs.get('text', NONE), kwargs.get('status', NONE)])
        return [(st, o)]
    eng.reg.externals['web.Response'] = response
    for nm in ('web.Application', 'web.AppRunner', 'web.TCPSite', 'concurrent.futures.Future', 'asyncio.create_task', 'asyncio.Future', 'asyncio.get_event_loop'):
        eng.reg.assumed_calls[nm] = 'nonnull'

    def new_wrapper(e, args, kwargs, st, node):
        o = e.mk_opaque_instance('KGFnWrapper', st)
        st.ghost['wrapper:' + str(o.t)] = VTuple([args[0], args[1]])
        return [(st, o)]
    eng.hooks['new:KGFnWrapper'] = new_wrapper

    prev_om = eng.hooks.get('opaque_method')

    def opaque_method(e, obj, name, args, kwargs, st, node):
        if name == 'post' and 'hcalls' in st.ghost:
            form = VOpaque(hint='form', nonnull=True)
            st.ghost['posted'] = form
            return [(st, form)] + e.maybe_raise(st, 'post', node)
        if name in ('add_get', 'add_post') and 'registered' in st.ghost:
            st.ghost['registered'] = VList(st.ghost['registered'].items + [VTuple([name[4:], args[0], args[1], st.ghost.get('generic_pair', NONE)])])
            return [(st, NONE)]
        if name in ('cancel', 'cleanup') and 'events' in st.ghost:
            st.ghost['events'] = VList(st.ghost['events'].items + [name])
            return [(st, NONE)]
        if name == 'recv' and 'events' in st.ghost:
            raw = VOpaque(hint='raw', nonnull=True)
            st.ghost['events'] = VList(st.ghost['events'].items + [VTuple(['recv', raw])])
            s2 = st.fork()
            return [(st, raw), (s2, Raised(VExc('websockets.exceptions.ConnectionClosed', site=node.lineno)))]
        if name == 'call_soon_threadsafe' and 'delivered' in st.ghost:
            kind = 'result' if (isinstance(args[0], VFunc) and args[0].name == 'set_result') else 'exception'
            st.ghost['delivered'] = VList(st.ghost['delivered'].items + [VTuple([kind, args[1] if len(args) > 1 else NONE])])
            return [(st, NONE)]
        if name == 'items':
            return [(st, VTuple(['items-of', obj]))]
        return prev_om(e, obj, name, args, kwargs, st, node) if prev_om else None
    eng.hooks['opaque_method'] = opaque_method

    def for_element(e, it, st, node):
        if isinstance(it, VTuple) and it.items and it.items[0] == 'items-of':
            pair = VTuple([VOpaque(hint='route', nonnull=True), VOpaque(hint='handler', nonnull=True)])
            st.ghost['generic_pair'] = pair
            return pair
        return None
    eng.hooks['for_element'] = for_element

    def call_opaque(e, fv, args, kwargs, st, node):
        if 'delivered' in st.ghost and 'hcalls' in st.ghost:
            return handler_model(e, st, args, kwargs, node)
        s2 = st.fork()
        return [(st, VOpaque(hint='r'))] + [e.exc(s2, '<any>', node)]
    eng.hooks['call_opaque'] = call_opaque
    eng.reg.externals['run_command_on_klongloop'] = dispatch

    # result_future.set_result / set_exception as values passed to call_soon_threadsafe
    orig_getattr = eng.getattr

    def getattr2(v, attr, st, node):
        if attr in ('set_result', 'set_exception') and isinstance(v, VOpaque) and not eng.method_position.get(id(node)):
            return [(st, VFunc(attr, self_obj=v, key=('opaque_method',)))]
        return orig_getattr(v, attr, st, node)
    eng.getattr = getattr2


def dispatch(e, st, args, kwargs, node):
    if 'events' in st.ghost:
        st.ghost['events'] = VList(st.ghost['events'].items + [VTuple(['dispatch', args[2], args[3], args[4]])])
    s2 = st.fork()
    return [(st, VOpaque(hint='result'))] + [e.exc(s2, '<any>', node)]
