"""Symbolic image of the IPC transport (klongpy/sys_fn_ipc.py) shared by C13 / C14.

  byte strings        -> z3 strings;   DUMPS / LOADS (pickle), BE32 / UNBE32 (struct '!I'), BYTES / UUIDOF (uuid) uninterpreted
                         with the inverse axioms of DESIGN section 3 (|BE32(n)| = 4, UNBE32(BE32 n) = n for 0 <= n < 2^32,
                         |BYTES(id)| = 16, UUIDOF(BYTES id) = id); LOADS(DUMPS m) == m is the pickle assumption
  StreamReader        -> ghost stream `sigma` and cursor: readexactly(n) returns the next n bytes regardless of how they arrived,
                         or raises IncompleteReadError at end of stream (asyncio contract: this is what makes fragmentation invisible)
  StreamWriter        -> ghost list `sent` of the byte strings written
  pending_responses   -> dictionary over the ghost maps of contracts/ctxmodel.py
"""
import z3
from pyvc.values import *
from pyvc.state import Raised
from . import ctxmodel as cm

IPC = 'klongpy/sys_fn_ipc.py::'
DUMPS = z3.Function('pickle_dumps', Obj, Str)
LOADS = z3.Function('pickle_loads', Str, Obj)
BE32 = z3.Function('be32', Int, Str)
UNBE32 = z3.Function('unbe32', Str, Int)
BYTES = z3.Function('uuid_bytes', Obj, Str)
UUIDOF = z3.Function('uuid_of_bytes', Str, Obj)
TWO32 = 2 ** 32


def frame(idt, msgt):
    p = DUMPS(msgt)
    return z3.Concat(BYTES(idt), BE32(z3.Length(p)), p)


def codec_facts(st, n=None, idt=None, msgt=None):
    """ground instances of the codec axioms at the terms in play"""
    if n is not None:
        st.assume(z3.And(z3.Length(BE32(n)) == 4, z3.Implies(z3.And(n >= 0, n < TWO32), UNBE32(BE32(n)) == n)))
    if idt is not None:
        st.assume(z3.And(z3.Length(BYTES(idt)) == 16, UUIDOF(BYTES(idt)) == idt))
    if msgt is not None:
        st.assume(LOADS(DUMPS(msgt)) == msgt)


def init_stream(st):
    st.ghost['sigma'] = fresh(Str, 'sigma')
    st.ghost['cursor'] = fresh(Int, 'cursor')
    st.assume(z3.And(st.ghost['cursor'].t >= 0, st.ghost['cursor'].t <= z3.Length(st.ghost['sigma'].t)))
    st.ghost['sent'] = VList([])


def mk_reader(st): return st.alloc('Reader', {}, fresh=False)
def mk_writer(st): return st.alloc('Writer', {}, fresh=False)


def configure(eng):
    cm.configure(eng)

    def getattr_reader(e, v, attr, st, node):
        if attr == 'readexactly':
            def model(e2, s, args, kwargs, n):
                k = args[0]
                if not isinstance(k, VInt):
                    raise Refuse("readexactly with a non-integer count")
                sig, c = s.ghost['sigma'], s.ghost['cursor']
                outs = []
                for s2, enough in e2.branch(s, z3.And(k.t >= 0, c.t + k.t <= z3.Length(sig.t)), 'readexactly'):
                    if enough:
                        data = VStr(z3.SubString(sig.t, c.t, k.t))
                        s2.ghost['cursor'] = c + k
                        s2.ghost['reads'] = s2.ghost.get('reads', lift(0)) + 1
                        outs.append((s2, data))
                    else:
                        outs.append(e2.exc(s2, 'IncompleteReadError', n))
                return outs
            return [(st, VFunc('readexactly', model=model))]
        return None
    eng.hooks['getattr:Reader'] = getattr_reader

    def getattr_writer(e, v, attr, st, node):
        if attr == 'write':
            def model(e2, s, args, kwargs, n):
                s.ghost['sent'] = VList(s.ghost['sent'].items + [args[0]])
                s2 = s.fork()
                return [(s, NONE), e2.exc(s2, 'OSError', n)]
            return [(st, VFunc('write', model=model))]
        if attr == 'drain':
            def model(e2, s, args, kwargs, n):
                s2 = s.fork()
                return [(s, NONE), e2.exc(s2, 'ConnectionResetError', n)]
            return [(st, VFunc('drain', model=model))]
        return None
    eng.hooks['getattr:Writer'] = getattr_writer

    def dumps(e, st, a, k, n):
        t = e.as_obj(a[0])
        codec_facts(st, msgt=t)
        return [(st, VStr(DUMPS(t)))] + e.maybe_raise(st, 'pickle.dumps', n)

    def loads(e, st, a, k, n):
        return [(st, VOpaque(LOADS(a[0].t)))] + e.maybe_raise(st, 'pickle.loads', n)

    def pack(e, st, a, k, n):
        if not (isinstance(a[0], VStr) and z3.is_string_value(a[0].t)):
            raise Refuse("struct.pack with a symbolic format")
        if a[0].t.as_string() != '!I':
            # another layout: an unrelated function of the value (the frame postcondition will not follow)
            f = z3.Function('struct_pack:' + a[0].t.as_string(), Int, Str)
            return [(st, VStr(f(a[1].t)))] + e.maybe_raise(st, 'struct.pack', n)
        nn = a[1]
        outs = []
        for s2, ok in e.branch(st, z3.And(nn.t >= 0, nn.t < TWO32), 'struct.pack'):
            if ok:
                codec_facts(s2, n=nn.t)
                outs.append((s2, VStr(BE32(nn.t))))
            else:
                outs.append(e.exc(s2, 'struct.error', n))
        return outs

    def unpack(e, st, a, k, n):
        if not (isinstance(a[0], VStr) and z3.is_string_value(a[0].t)):
            raise Refuse("struct.unpack with a symbolic format")
        if a[0].t.as_string() != '!I':
            f = z3.Function('struct_unpack:' + a[0].t.as_string(), Str, Int)
            return [(st, VTuple([VInt(f(a[1].t))]))] + e.maybe_raise(st, 'struct.unpack', n)
        raw = a[1]
        outs = []
        for s2, ok in e.branch(st, z3.Length(raw.t) == 4, 'struct.unpack'):
            if ok:
                v = VInt(UNBE32(raw.t))
                s2.assume(z3.And(v.t >= 0, v.t < TWO32))
                outs.append((s2, VTuple([v])))
            else:
                outs.append(e.exc(s2, 'struct.error', n))
        return outs

    def mk_uuid(e, st, a, k, n):
        b = k.get('bytes')
        outs = []
        for s2, ok in e.branch(st, z3.Length(b.t) == 16, 'uuid'):
            outs.append((s2, VOpaque(UUIDOF(b.t), nonnull=True)) if ok else e.exc(s2, 'ValueError', n))
        return outs

    def uuid4(e, st, a, k, n):
        u = VOpaque(hint='uuid', nonnull=True)
        # a fresh id is not a key of any table (uuid4 values are distinct: assumed)
        st.ghost['fresh_ids'] = VList(st.ghost.get('fresh_ids', VList([])).items + [u])
        return [(st, u)]
    eng.reg.externals.update({'pickle.dumps': dumps, 'pickle.loads': loads, 'struct.pack': pack, 'struct.unpack': unpack,
                              'uuid.UUID': mk_uuid, 'uuid.uuid4': uuid4})

    prev_getattr = None
    eng.stable_opaque_attrs |= {'sym', 'params', 'key', 'value', 'arity'}

    # msg_id.bytes : the 16 bytes of the id
    orig_getattr = eng.getattr

    def getattr_bytes(v, attr, st, node):
        if attr == 'bytes' and isinstance(v, VOpaque):
            codec_facts(st, idt=v.t)
            return [(st, VStr(BYTES(v.t)))]
        return orig_getattr(v, attr, st, node)
    eng.getattr = getattr_bytes
