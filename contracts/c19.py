"""C19 - a table holds exactly the rows inserted into it.

Abstract view  rows(t) = rows(t._df) ++ t.buffer.  Contracts on the real Table class (klongpy/db/sys_fn_db.py):
 * typestate: every read of t._df whose rows flow to a result happens with an empty insert buffer (an obligation at each
   syntactic read of `_df`, except inside commit / __init__ and for the column names read by schema());
 * insert / insertb extend the buffer by exactly the given rows, in order, and touch nothing else;
 * commit empties the buffer and is the only place that replaces `_df` while rows are pending;
 * .insert validates the column count before buffering; single rows go to insert, batches to insertb;
 * has_index <=> idx_cols is not None; set_index / reset_index keep idx_cols consistent and commit first.
pandas / DuckDB semantics (concat, sort, dedup, upsert) are assumed: the ordering / uniqueness sentences rest on them.
"""
import z3
from pyvc.values import *
from pyvc.state import Raised
from pyvc.contracts import loop

TB = 'klongpy/db/sys_fn_db.py::Table.'
DB = 'klongpy/db/sys_fn_db.py::'
SeqObj = z3.SeqSort(Obj)
UNDEF = VOpaque(z3.Const('KLONG_UNDEFINED', Obj), nonnull=True)
NO_TYPESTATE = ('Table.commit', 'Table.__init__', 'Table.schema')


def mk_table(st, name='self'):
    t = st.alloc('Table', {'_df': VOpaque(hint='df', nonnull=True), 'buffer': VSeq(z3.Const('buffer0', SeqObj)),
                           'columns': VOpaque(hint='columns', nonnull=True), 'idx_cols': VOpaque(hint='idx_cols')}, fresh=False)
    st.env[name] = t
    st.ghost['df_writes'] = lift(0)
    st.ghost['commits'] = lift(0)
    return t


def buf(st, t): return st.field(t, 'buffer').t
def empty(st, t): return VBool(z3.Length(buf(st, t)) == 0)


def build(reg, src):
    from contracts import c19_commit
    reg.extra_checks.append(c19_commit.commit_check)
    from contracts import c19_db
    reg.extra_checks.append(c19_db.db_view_check)

    # a table owns its frame: what .table is given, and what t?col hands out, shares no memory with it (the indexed commit writes
    # the frame IN PLACE) - ownership typing of the real AST (pyvc/frames.py), pandas==3.0.0 Copy-on-Write contracts as in C16
    def table_value_ownership(ctx):
        import ast as _ast
        from pyvc.frames import FrameAnalysis, is_operand_label
        src = ctx['src']
        fa = FrameAnalysis(src, {})
        fa.extra_deep_fresh_methods = {'copy'}
        fa.copy_on_write = True
        fa.copying_constructors = {'DataFrame'}
        fa.rows_are_views = True
        rows = []
        K1 = 'klongpy/db/sys_fn_db.py::Table.__init__'
        sm = fa.summary(K1)
        stores = [x for x in (sm.field_stores if sm else []) if x[0] == '_df']
        for i, (attr, node, v, dicts) in enumerate(stores):
            labels = sorted(l for l in v.all() if is_operand_label(l) and l.rstrip('*') == 'data')
            rows.append(dict(name=f"{K1}#owns-its-rows._df[{i}]", ok=not labels, backend='ownership-typing', confirmed=False,
                             detail=f"line {node.lineno}: `{_ast.unparse(node)[:90]}` " + ("stores a frame created here" if not labels else
                                    f"stores a frame that may share memory with what the caller passed ({labels}): another table built from the same columns shares its rows")))
        if not stores:
            rows.append(dict(name=K1 + '#owns-its-rows.reachability', ok=False, undecided=True, backend='ownership-typing', detail='no store to self._df found'))
        K2 = 'klongpy/db/sys_fn_db.py::Table.get'
        sg = fa.summary(K2)
        if sg is None or sg.ret is None:
            rows.append(dict(name=K2 + '#hands-out-a-copy.function-present', ok=False, undecided=True, backend='ownership-typing', detail='not found'))
        else:
            outer = sorted(l for l in sg.ret.flat().outer if not l.startswith('@global:'))
            rows.append(dict(name=K2 + '#hands-out-a-copy', ok=not outer, backend='ownership-typing', confirmed=False,
                             detail='the column handed out is a new array' if not outer else f"t?col may hand out a view of the table's own frame ({outer}): a later upsert changes a value read earlier"))
        bad = [r for r in rows if not r['ok'] and not r.get('undecided')]
        if bad:
            from pyvc.run import run_replay
            import replay.c19 as rp2
            r = run_replay(rp2.replay_table_value_ownership, {}, bad[0]['name'], timeout_s=60)
            for b in bad:
                b['confirmed'] = bool(r.get('confirmed'))
                b['replay'] = dict(result=r)
                if r.get('confirmed'):
                    b['detail'] += f" | real code: {r.get('detail')}"
        for kk in (K1, K2):
            ctx['eng'].verified[kk + ' (row ownership)'] = dict(sha=src.sha(src.find(kk)), backend='ownership-typing')
        return rows
    table_value_ownership.__name__ = 'table-value-ownership'
    reg.extra_checks.append(table_value_ownership)
    reg.assumptions += [
        "pandas (DataFrame construction, concat, sort_index, drop_duplicates, loc upsert, get, columns) and DuckDB are opaque: row order, "
        "uniqueness per key and SQL results rest on their semantics and are NOT decided",
        "np.concatenate([df.values] + [row.reshape(1,-1) ...]) appends the buffered rows after the existing ones in order (assumed)",
        "schema() reads only the column names, which pending rows cannot change: exempt from the typestate obligation",
    ]
    reg.assumed_calls.update({'pd.DataFrame': 'nonnull', 'np.concatenate': 'nonnull', 'np.array': 'nonnull', 'pd.concat': 'nonnull',
                              'self._create_index_from_cols': 'nonnull', 'backend_np.isarray': Bool})
    reg.pure_calls |= {'backend_np.isarray'}

    def setup(eng, st):
        mk_table(st)

    S = lambda s: s.self
    df_same = lambda s, *a: And(same(s.st.field(S(s), '_df'), s.old.field(S(s), '_df')), s.g('df_writes') == 0)
    others_same = lambda s, *a: And(same(s.st.field(S(s), 'columns'), s.old.field(S(s), 'columns')), same(s.st.field(S(s), 'idx_cols'), s.old.field(S(s), 'idx_cols')))

    def mod_table(eng, st, s, t=None):
        t = t or s.self
        st.setfield(t, '_df', VOpaque(hint='df', nonnull=True))
        st.setfield(t, 'buffer', VSeq(z3.Const(fresh_name('buffer'), SeqObj)))

    reg.fn(TB + 'insert', setup=setup, returns=None, raises=[],
           modifies=lambda eng, st, s: st.setfield(s.self, 'buffer', VSeq(z3.Const(fresh_name('buffer'), SeqObj))),
           ensures=[lambda s, r: VBool(buf(s.st, s.self) == z3.Concat(buf(s.old, s.self), z3.Unit(s.y.t))), df_same, others_same])

    def insertb_setup(eng, st):
        mk_table(st)
        st.env['y'] = VSeq(z3.Const('ys', SeqObj))
    reg.fn(TB + 'insertb', setup=insertb_setup, returns=None, raises=[],
           modifies=lambda eng, st, s: st.setfield(s.self, 'buffer', VSeq(z3.Const(fresh_name('buffer'), SeqObj))),
           ensures=[lambda s, r: VBool(buf(s.st, s.self) == z3.Concat(buf(s.old, s.self), s.y0.t)) if isinstance(s.y0, VSeq) else VBool(True),
                    df_same, others_same])

    reg.fn(TB + 'has_index', setup=setup, returns=Bool, raises=[], inline=True)
    reg.fn(TB + 'commit', setup=setup, returns=None, modifies=mod_table,
           ensures=[lambda s, r: empty(s.st, s.self), others_same,
                    # nothing pending: the frame is left alone
                    lambda s, r: Implies(empty(s.old, s.self), same(s.st.field(s.self, '_df'), s.old.field(s.self, '_df')))])
    reg.fn(TB + 'get_dataframe', setup=setup, returns='opaque', modifies=mod_table,
           ensures=[lambda s, r: empty(s.st, s.self), lambda s, r: same(r, s.st.field(s.self, '_df')), others_same])
    reg.fn(TB + 'get', setup=setup, returns='opaque', modifies=mod_table, ensures=[lambda s, r: empty(s.st, s.self), others_same])
    reg.fn(TB + 'set', setup=setup, returns=None, modifies=lambda eng, st, s: (mod_table(eng, st, s), st.setfield(s.self, 'columns', VOpaque(hint='columns', nonnull=True))),
           ensures=[lambda s, r: empty(s.st, s.self)])
    reg.fn(TB + '__getitem__', setup=setup, returns='opaque', modifies=mod_table, ensures=[lambda s, r: empty(s.st, s.self)])
    reg.fn(TB + '__setitem__', setup=setup, returns='opaque', modifies=lambda eng, st, s: (mod_table(eng, st, s), st.setfield(s.self, 'columns', VOpaque(hint='columns', nonnull=True))),
           ensures=[lambda s, r: empty(s.st, s.self)])
    reg.fn(TB + '__len__', setup=setup, returns='opaque', modifies=mod_table, ensures=[lambda s, r: empty(s.st, s.self), others_same])
    reg.fn(TB + '__str__', setup=setup, returns='opaque', modifies=mod_table, ensures=[lambda s, r: empty(s.st, s.self), others_same],
           idempotent_effects=True)
    reg.fn(TB + 'schema', setup=setup, returns='opaque', ensures=[df_same, others_same,
                                                                   lambda s, r: VBool(buf(s.st, s.self) == buf(s.old, s.self))])
    reg.fn(TB + 'set_index', setup=setup, returns=None,
           modifies=lambda eng, st, s: (mod_table(eng, st, s), st.setfield(s.self, 'idx_cols', VOpaque(hint='idx_cols'))),
           ensures=[lambda s, r: empty(s.st, s.self), lambda s, r: same(s.st.field(s.self, 'idx_cols'), s.idx_cols0)])
    reg.fn(TB + 'reset_index', setup=setup, returns=None,
           modifies=lambda eng, st, s: (mod_table(eng, st, s), st.setfield(s.self, 'idx_cols', VOpaque(hint='idx_cols'))),
           ensures=[lambda s, r: empty(s.st, s.self),
                    lambda s, r: Implies(Not(is_none(s.old.field(s.self, 'idx_cols'))), is_none(s.st.field(s.self, 'idx_cols')))])

    # ---------------- system functions
    def ins_setup(kind):
        def f(eng, st):
            if kind == 'table':
                mk_table(st, 'x')
            else:
                x = VOpaque(hint='x', nonnull=True)
                st.assume(Not(x.pred('isinst:Table')))
                st.env['x'] = x
                st.ghost['df_writes'] = lift(0)
            st.env['y'] = VOpaque(hint='y', nonnull=True)
            st.ghost['inserts'] = VList([])
        return f

    def ins_post(s, r):
        x = s.x0
        if not isinstance(x, VObj):
            return VBool(False)          # a non-table must be rejected
        ins = s.st.ghost['inserts'].items
        if len(ins) != 1:
            return VBool(False)
        kind, arg = ins[0].items
        y = s.y0
        batch = VBool(z3.Function('len:obj', Obj, Int)(z3.Function('attr:shape', Obj, Obj)(y.t)) > 1)
        ncols = z3.Function('len:obj', Obj, Int)(s.old.field(x, 'columns').t)
        width = z3.If(batch.t, z3.Function('len:obj', Obj, Int)(z3.Function('item0', Obj, Obj)(y.t)), z3.Function('len:obj', Obj, Int)(y.t))
        return And(same(r, x), same(arg, y), VBool(width == ncols),
                   If(batch, VBool(kind == 'insertb'), VBool(kind == 'insert')))

    reg.fn(DB + 'eval_sys_fn_insert_table', cases=[('table', ins_setup('table'))], returns='opaque',
           ensures=[ins_post], ensures_exc=[lambda s, e: VBool(len(s.st.ghost['inserts'].items) == 0)])   # a rejected insert buffers nothing
    reg.fns[TB + 'insert'].ghost_at_call = lambda eng, st, s, r: 'inserts' in st.ghost and st.ghost.__setitem__('inserts', VList(st.ghost['inserts'].items + [VTuple(['insert', s.y])]))
    reg.fns[TB + 'insertb'].ghost_at_call = lambda eng, st, s, r: 'inserts' in st.ghost and st.ghost.__setitem__('inserts', VList(st.ghost['inserts'].items + [VTuple(['insertb', s.y])]))

    def ri_setup(eng, st):
        mk_table(st, 'x')
    reg.fn(DB + 'eval_sys_fn_reset_index', setup=ri_setup, returns=Int,
           ensures=[lambda s, r: r == If(is_none(s.old.field(s.x0, 'idx_cols')), 0, 1),
                    lambda s, r: is_none(s.st.field(s.x0, 'idx_cols'))])

    # .index(t; cols): the key of the index is the list the user gave - those columns, in THAT order (the major column first)
    LISTOF = z3.Function('list-of', Obj, Obj)

    def ix_setup(eng, st):
        mk_table(st, 'x')
        st.assume(is_none(st.field(st.env['x'], 'idx_cols')))
        st.env['y'] = VOpaque(hint='y', nonnull=True)
        st.ghost['index_calls'] = VList([])
    reg.fns[TB + 'set_index'].ghost_at_call = lambda eng, st, s, r: 'index_calls' in st.ghost and st.ghost.__setitem__('index_calls', VList(st.ghost['index_calls'].items + [s.idx_cols]))

    def ix_post(s, r):
        calls = s.st.ghost['index_calls'].items
        if len(calls) != 1 or not isinstance(calls[0], VOpaque):
            return VBool(False)
        return VBool(calls[0].t == LISTOF(s.y0.t))
    reg.fn(DB + 'eval_sys_fn_index', setup=ix_setup, returns='opaque', ensures=[ix_post],
           loops={0: loop(invariant=[lambda s: VBool(len(s.st.ghost['index_calls'].items) == 0)], havoc=dict(q='opaque'))})

    from replay import c19 as rp
    rp.replay_table.timeout_s = 180
    reg.replays.append((r'eval_sys_fn_index', rp.replay_index_order))
    reg.replays.append((r'#db\.', rp.replay_db_view))                # sub-verification batteries: run proactively by the thorough tier
    reg.replays.append((r'#merge\.', rp.replay_indexed_commit))
    reg.replays.append((r'write\(idx_cols\)', rp.replay_index_change_pending))
    reg.replays.append((r'.', rp.replay_table))


REGIONS = {}


def configure(eng):
    eng.opaque_classes |= {'KlongDbException', 'Database'}
    eng.stable_opaque_attrs |= {'shape'}
    eng.module_names |= {'pd', 'np', 'backend_np'}

    def getattr_table(e, v, attr, st, node):
        if attr == '_df':
            fn = e.cur_key.split('::')[1]
            if fn not in NO_TYPESTATE and isinstance(getattr(node, 'ctx', None), __import__('ast').Load):
                e.oblige(f"{e.cur_key}#read(_df).buffer-empty@{e.site_ordinal('df', node)}", st,
                         VBool(z3.Length(st.field(v, 'buffer').t) == 0), kind='typestate')
        return None
    eng.hooks['getattr:Table'] = getattr_table

    def blist(e, args, kwargs, st, node):
        if len(args) == 1 and isinstance(args[0], VOpaque) and e.cur_key.endswith('eval_sys_fn_index'):
            return [(st, VOpaque(z3.Function('list-of', Obj, Obj)(args[0].t), nonnull=True))]
        return None
    eng.hooks['builtin:list'] = blist

    def setattr_table(e, o, attr, v, st, node):
        if attr == 'buffer' and isinstance(v, VList) and not v.items:
            st.heap[o.oid][attr] = VSeq(z3.Empty(SeqObj))
            return True
        if attr == '_df':
            fn = e.cur_key.split('::')[1]
            st.ghost['df_writes'] = st.ghost['df_writes'] + 1
            if fn not in ('Table.commit', 'Table.__init__'):
                e.oblige(f"{e.cur_key}#write(_df).buffer-empty@{e.site_ordinal('dfw', node)}", st,
                         VBool(z3.Length(st.field(o, 'buffer').t) == 0), kind='typestate')
        if attr == 'idx_cols' and e.cur_key.split('::')[1] != 'Table.__init__':
            # rows are buffered under the index rule in force when they were inserted (upsert by key / plain append); commit merges
            # them under the rule in force when it runs: the rule may only change while nothing is pending
            e.oblige(f"{e.cur_key}#write(idx_cols).buffer-empty@{e.site_ordinal('idxw', node)}", st,
                     VBool(z3.Length(st.field(o, 'buffer').t) == 0), kind='typestate')
        return False
    eng.hooks['setattr:Table'] = setattr_table

    def method(e, o, m, args, kwargs, st, node):
        if isinstance(o, VSeq) and m == 'append':
            item = z3.Const(fresh_name('batch'), Obj) if isinstance(args[0], VSeq) else e.as_obj(args[0])
            e.rebind(st, o, VSeq(z3.Concat(o.t, z3.Unit(item))))
            return [(st, NONE)]
        if isinstance(o, VSeq) and m == 'extend':
            if isinstance(args[0], VSeq):
                e.rebind(st, o, VSeq(z3.Concat(o.t, args[0].t)))
                return [(st, NONE)]
            raise Refuse("extend with a non-sequence")
        return None
    eng.hooks['method'] = method

    def index(e, obj, key, st, node):
        if isinstance(obj, VOpaque) and isinstance(key, VInt) and z3.is_int_value(key.t) and key.t.as_long() == 0:
            return [(st, VOpaque(z3.Function('item0', Obj, Obj)(obj.t)))] + e.maybe_raise(st, 'index', node)
        return None
    eng.hooks['index'] = index

    def setitem(e, obj, key, val, st, node):
        if isinstance(obj, VOpaque):
            return True          # column assignment on the (opaque) frame
        return None
    eng.hooks['setitem'] = setitem

    def call_opaque(e, fv, args, kwargs, st, node):
        return [(st, VOpaque(hint='r'))] + e.maybe_raise(st, 'call', node)
    eng.hooks['call_opaque'] = call_opaque
    eng.opaque_methods |= {'get', 'copy', 'tolist', 'reset_index', 'drop', 'head', 'to_string', 'intersection', 'isin', 'sort_index', 'reshape', 'join'}
    eng.globals_v['KLONG_UNDEFINED'] = UNDEF
