"""C17 - a completed key-value set survives a crash; an interrupted one harms no other key.

Obligations over the ghost three-level file model (contracts/fsmodel.py):
 (1) _write_file: at normal return os[path] == data, and use_fsync => disk[path] == data and the entry exists on disk;
 (2) at EVERY statement boundary of _write_file (and of its callees, through their frame contracts) every cell of every
     other path is what it was at entry  ("a crash at any instant affects only the key being written");
 (3) update_file / KeyValueStorage.set: when set returns, disk[path(k)] == ser(v)  (the caller waited for the task);
 (4) distinct normalised keys map to distinct paths (assumption on os.path.join, stated).
"""
import z3
from pyvc.values import *
from pyvc.contracts import loop
from . import fsmodel as fs
from . import filecache as fc

F = fc.F
KV = 'klongpy/db/sys_fn_kvs.py::KeyValueStorage.'
H = 'klongpy/db/helpers.py::'
SER = z3.Function('serialize_obj', Obj, Str)


def setup_cache(eng, st):
    fs.init_fs(st)
    st.env['self'] = fc.mk_cache(st)


def P(s):
    return fc.path_of(s.st, s.self, s.file_name)


def durable(s, data):
    p = P(s)
    return And(s.g('disk')[p] == data, s.g('disk_ex')[p])


def frame_others(s, *a):
    return fs.others_untouched(s.old, s.st, P(s))


def build(reg, src):
    reg.assumptions += [
        "POSIX-style three-level file model of contracts/fsmodel.py (Python buffer -> OS cache -> disk); a buffered writer may "
        "have pushed any prefix of the written bytes to the OS before flush; os.fsync copies the OS-cache cell to disk",
        "directory entries are durable on creation (the property's trace alphabet has no directory sync)",
        "os.path.join(root, .) is injective on normalised relative keys; keys with '..', empty or absolute components are outside the precondition",
        "file-system calls do not fail spuriously once open succeeded (IO errors are outside the crash model); a real process kill is outside this family",
        "single client: the submitted write task runs when its submitter waits for it (C18 drops this)",
        "FileCache._unload_file / update_file_futures_and_memory touch no file: their frame is verified under C16 (here: assumed contract)",
    ]
    reg.axioms += fs.path_axioms()
    reg.externals.update(fs.externals())
    reg.externals['self.executor.submit'] = fc.executor_submit
    reg.fn(F + 'process_contents', inline=True)
    reg.fn(H + 'key_to_file_path', inline=True)

    # callees verified under C16 (no file-system effect): assumed here
    reg.fn(F + 'update_file_futures_and_memory', verify=False, returns=None, raises=[],
           requires=[lambda s: Not(s.st.field(s.st.field(s.self, 'file_futures_lock'), '__held'))],
           modifies=lambda eng, st, s: havoc_cache(st, s.self))
    reg.fn(F + '_unload_file', verify=False, returns=None, raises=[],
           modifies=lambda eng, st, s: havoc_cache(st, s.self))

    def wf_modifies(eng, st, s):
        p = fc.path_of(st, s.self, s.file_name)
        for c, srt in (('os', Str), ('disk', Str), ('os_ex', Bool), ('disk_ex', Bool)):
            st.ghost[c] = st.ghost[c].store(p, fresh(srt, c + '_p'))
        st.ghost['dirs'] = fs.VArr(z3.Const(fresh_name('dirs'), fs.BoolArr))
        havoc_cache(st, s.self)

    def every_point(eng, st, s, node):
        g = fs.others_untouched(s.old, st, fc.path_of(st, s._entry['self'], s._entry['file_name']))
        if z3.is_true(z3.simplify(g.t)):
            return
        eng.oblige(f"{eng.cur_key}#crash-point-frame@line-ordinal{eng.site_ordinal('stmt', node)}", st, g, kind='frame-at-every-point')

    reg.fn(F + '_write_file', params=dict(file_name=fs.FKey, new_file_contents=Str, use_fsync=Bool), setup=setup_cache,
           requires=[lambda s: Not(s.st.field(s.st.field(s.self, 'file_futures_lock'), '__held'))],
           returns=Str, raises=['OSError'], modifies=wf_modifies, at_every_point=every_point,
           ensures=[lambda s, r: And(s.g('os')[P(s)] == s.new_file_contents, s.g('os_ex')[P(s)]),
                    lambda s, r: Implies(s.use_fsync, durable(s, s.new_file_contents)),
                    frame_others,
                    lambda s, r: r == s.new_file_contents],
           ensures_exc=[frame_others])

    def uf_modifies(eng, st, s):
        wf_modifies(eng, st, s)

    reg.fn(F + 'update_file', params=dict(file_name=fs.FKey, new_file_contents=Str, use_fsync=Bool), setup=setup_cache,
           requires=[lambda s: Not(s.st.field(s.st.field(s.self, 'file_futures_lock'), '__held')),
                     # single client at rest (C16's quiescent invariant): no write is in flight for this file
                     lambda s: Not(s.st.field(s.st.field(s.self, 'file_futures'), 'writing')[s.file_name])],
           returns=Bool, modifies=uf_modifies,
           ensures=[lambda s, r: Implies(Not(s.old.field(s.old.field(s.self, 'file_futures'), 'writing')[s.file_name]),
                                         And(r, Implies(s.use_fsync, durable(s, s.new_file_contents)),
                                             s.g('os')[P(s)] == s.new_file_contents)),
                    frame_others],
           ensures_exc=[frame_others])

    def kv_setup(eng, st):
        fs.init_fs(st)
        c = fc.mk_cache(st)
        st.env['self'] = st.alloc('KeyValueStorage', {'cache': c}, fresh=False)

    def kv_path(s):
        c = s.st.field(s.self, 'cache')
        return fc.path_of(s.st, c, s.x)

    def ser_model(eng, st, args, kwargs, node):
        return [(st, VStr(SER(eng.as_obj(args[0]))))]
    reg.externals['serialize_obj'] = ser_model

    reg.fn(KV + 'set', params=dict(x=fs.FKey), setup=kv_setup,
           requires=[lambda s: Not(s.st.field(s.st.field(s.st.field(s.self, 'cache'), 'file_futures_lock'), '__held')),
                     lambda s: Not(s.st.field(s.st.field(s.st.field(s.self, 'cache'), 'file_futures'), 'writing')[s.x])],
           returns=None,
           ensures=[lambda s, r: And(s.g('disk')[kv_path(s)] == VStr(SER(s.y.t)), s.g('disk_ex')[kv_path(s)]),
                    lambda s, r: fs.others_untouched(s.old, s.st, kv_path(s))],
           ensures_exc=[lambda s, e: fs.others_untouched(s.old, s.st, kv_path(s))])

    from replay import c17 as rp
    reg.replays.append((r'.', rp.replay_fsync_order))


def havoc_cache(st, c):
    ff = st.field(c, 'file_futures')
    for a, srt in (('dom', fc.BoolArr), ('writing', fc.BoolArr), ('bytes', fc.IntArr), ('fid', fc.IntArr), ('counted', fc.BoolArr)):
        st.setfield(ff, a, fs.VArr(z3.Const(fresh_name('M_' + a), srt)))
    st.setfield(c, 'current_memory_usage', fresh(Int, 'cur'))
    st.setfield(c, 'file_access_times', fc.VHeap(fs.VArr(z3.Const(fresh_name('H_cnt'), fc.IntArr)), fresh(Int, 'hsize')))


REGIONS = {}


def configure(eng):
    fc.configure(eng)
    eng.hooks['lock_of'] = lambda st: _find_lock(st)


def _find_lock(st):
    for oid, flds in st.heap.items():
        if '__held' in flds:
            return flds['__held']
    return VBool(False)
