"""C07 - gradient and Jacobian computation is observationally pure.

Frame postconditions on the real gradient entry points, on the normal AND the exceptional exit, with the differentiated
function an arbitrary callee that may raise at any of its calls:
 (1) every parameter symbol is bound to the same object as at entry (ghost `bind : symbol -> object`);
 (2) the contents of the caller's arrays are unchanged - alias-aware: np.asarray(x, dtype) may return x itself, basic
     element assignment writes in place (ghost `contents` per array object, WRITE/READ with the two array axioms);
 (3) by construction each probe of numeric_grad receives a copy (x.copy()) and the perturbed component is written back.
"""
import z3
from pyvc.values import *
from pyvc.state import Raised
from pyvc.contracts import loop

A = 'klongpy/autograd.py::'
DY = 'klongpy/dyads.py::'
BIND = z3.ArraySort(Obj, Obj)
READ = z3.Function('arr_read', Obj, Obj, Obj)
WRITE = z3.Function('arr_write', Obj, Obj, Obj, Obj)
CONV = z3.Function('arr_convert', Obj, Obj)


class VArr(V):
    def __init__(self, t): self.t = t


def arr_axioms():
    c, i, v, w = z3.Consts('c!a i!a v!a w!a', Obj)
    return [('write-write', z3.ForAll([c, i, v, w], WRITE(WRITE(c, i, v), i, w) == WRITE(c, i, w), patterns=[WRITE(WRITE(c, i, v), i, w)])),
            ('write-back-read', z3.ForAll([c, i], WRITE(c, i, READ(c, i)) == c, patterns=[WRITE(c, i, READ(c, i))]))]


def mk_array(st, hint='arr', fresh_obj=True, contents=None):
    return st.alloc('ndarray', {'__c': contents if contents is not None else VOpaque(hint=hint + '_contents', nonnull=True)}, hint=hint, fresh=fresh_obj)


def contents(st, a): return st.field(a, '__c')


def all_caller_arrays_unchanged(s, *a):
    parts = []
    for oid, flds in s.old.heap.items():
        if '__c' in flds and oid not in s.old.fresh_objs:
            parts.append(same(s.st.heap[oid]['__c'], flds['__c']))
    return And(*parts) if parts else VBool(True)


def bind_same(s, *a):
    return VBool(s.st.ghost['bind'].t == s.old.ghost['bind'].t)


def user_fn_model(eng, st, args, kwargs, node):
    """the differentiated function (any Klong or Python function): arbitrary value, may raise at any call; by the rely
    condition it does not rebind the symbols under differentiation and does not write arrays in place (C04)"""
    st.ghost['fcalls'] = st.ghost.get('fcalls', lift(0)) + 1
    s2 = st.fork()
    s2.trail.append(f"user-function-raises@{getattr(node, 'lineno', '?')}")
    return [(st, VOpaque(hint='fval')), eng.exc(s2, '<any>', node)]


def base_setup(eng, st):
    st.ghost['bind'] = VArr(z3.Const('bind0', BIND))
    st.env['backend'] = VOpaque(hint='backend', nonnull=True)


def build(reg, src):
    # torch backend (torch is not installed here; its source is): the gradient helpers may not switch gradient tracking on, or
    # write, on a tensor the caller still holds.  Ownership typing (pyvc/frames.py): a method whose name ends in '_' works in
    # place; x.float()/x.to()/x.cpu() may return x itself; x.clone() and x.detach() are new tensor OBJECTS (detach shares the
    # storage, but requires_grad_ is a flag of the object) - assumed torch contracts.
    def torch_frames(ctx):
        from pyvc.frames import FrameAnalysis
        fa = FrameAnalysis(src, {})
        fa.rows_are_views = True
        fa.extra_fresh_methods = {'clone', 'detach'}
        T = 'klongpy/backends/torch_backend.py::TorchBackendProvider.'
        res = []
        for n in ('create_grad_tensor', 'compute_autograd', 'compute_multi_autograd', 'compute_jacobian'):
            k = T + n
            sm = fa.summary(k)
            if sm is None:
                res.append(dict(name=f"{k}#frame.function-present", ok=False, undecided=True, backend='ownership-typing', detail='not found'))
                continue
            ctx['eng'].verified[k] = dict(sha=src.sha(src.find(k)), backend='ownership-typing', write_sites=len(sm.sites))
            for site in sm.sites:
                res.append(dict(name=f"{site.fn_key}#frame.{site.kind}[{site.ordinal}]", ok=site.ok, backend='ownership-typing',
                                detail=f"line {site.node.lineno}: `{site.text}` " + ("acts on a tensor created in this call" if site.ok else
                                       f"acts IN PLACE on a tensor that may be the caller's own ({sorted(site.labels)}): e.g. x.float() returns x itself when x is already float32"),
                                confirmed=False))
            if not sm.sites and n == 'create_grad_tensor':
                res.append(dict(name=f"{k}#frame.reachability", ok=False, undecided=True, backend='ownership-typing', detail='no in-place site found (vacuity guard)'))
        return res
    torch_frames.__name__ = 'torch-frames'
    reg.extra_checks.append(torch_frames)
    reg.assumptions.append("torch: clone()/detach() return new tensor objects, float()/to()/cpu() may return the receiver, methods ending in '_' work in place "
                           "(assumed contracts; torch itself is not installed, a failing obligation of the torch helpers cannot be replayed here)")
    reg.assumptions += [
        "NumPy: np.asarray(x, dtype) returns x itself when x already is an ndarray of that dtype (both outcomes explored); np.array / "
        "copy / flatten / zeros_like return fresh arrays; element assignment writes in place; element read-after-write axioms",
        "the differentiated function does not rebind the symbols under differentiation and does not write arrays in place "
        "(deliberate assignments to other globals are allowed by the property)",
        "klong[s] = v followed by lookup of s yields v (for non-callable v) and leaves other names alone: composition of the "
        "C03/C09 context contracts, used here as the ghost map `bind`",
        "torch's compute_autograd / compute_multi_autograd / compute_jacobian (external) are not under contract",
        "termination of the nditer loop is not part of this property (no variant)",
    ]
    reg.assumed_calls.update({'backend.is_backend_array': Bool, '_get_float_dtype': 'nonnull', '_scalar_value': 'nonnull',
                              'backend.supports_autograd': Bool, 'backend.create_grad_tensor': 'nonnull', 'is_list': Bool,
                              'backend.compute_autograd': 'nonnull', 'backend.compute_jacobian': 'nonnull', 'backend.compute_multi_autograd': 'nonnull'})
    reg.pure_calls |= {'backend.is_backend_array', 'backend.supports_autograd', '_get_float_dtype', 'is_list'}
    reg.fn(A + '_to_func_input', inline=True)

    # ---------------- numeric_grad / numeric_jacobian
    def ng_case(kind):
        def f(eng, st):
            base_setup(eng, st)
            st.env['x'] = mk_array(st, 'x', fresh_obj=False) if kind == 'ndarray' else VOpaque(hint='x', nonnull=True)
            st.env['func'] = VFunc('func', model=user_fn_model)
            st.env['eps'] = VOpaque(hint='eps')
        return f

    def ng_inv(s):
        # at the loop head the (possibly aliased) working array holds its entry contents again
        x = s._cur['x']
        return all_caller_arrays_unchanged(s)

    reg.fn(A + 'numeric_grad', cases=[('point-is-ndarray', ng_case('ndarray')), ('point-is-other', ng_case('other'))],
           returns='opaque', loops={0: loop(invariant=[ng_inv, bind_same], havoc=dict(idx='opaque', orig='opaque', f_pos='opaque', f_neg='opaque'),
                                            modifies=lambda eng, st: havoc_fresh_arrays(st))},
           ensures=[all_caller_arrays_unchanged, bind_same], ensures_exc=[all_caller_arrays_unchanged, bind_same])
    reg.fn(A + 'numeric_jacobian', cases=[('point-is-ndarray', ng_case('ndarray')), ('point-is-other', ng_case('other'))],
           returns='opaque', loops={0: loop(invariant=[all_caller_arrays_unchanged, bind_same],
                                            havoc=dict(x_plus='opaque', x_minus='opaque', f_plus='opaque', f_minus='opaque', j=Int),
                                            modifies=lambda eng, st: havoc_fresh_arrays(st))},
           ensures=[all_caller_arrays_unchanged, bind_same], ensures_exc=[all_caller_arrays_unchanged, bind_same])

    # ---------------- rebinding closures
    def klong_env(st):
        st.env['klong'] = st.alloc('KI7', {'_backend': VOpaque(hint='backend', nonnull=True)}, fresh=False)

    def cfwt_setup(n):
        def f(eng, st):
            base_setup(eng, st)
            klong_env(st)
            syms = [VOpaque(hint=f's{i}', nonnull=True) for i in range(n)]
            st.env['param_syms'] = VList(syms)
            st.env['tensors'] = VList([VOpaque(hint=f't{i}', nonnull=True) for i in range(n)])
            st.env['fn'] = VOpaque(hint='loss', nonnull=True)
        return f
    reg.fn(A + '_invoke_fn', setup=lambda e, st: (base_setup(e, st), klong_env(st)), returns='opaque', ensures=[bind_same, all_caller_arrays_unchanged],
           ensures_exc=[bind_same, all_caller_arrays_unchanged])
    reg.fn(A + 'multi_grad_of_fn.call_fn_with_tensors', cases=[(f"{n}-params", cfwt_setup(n)) for n in (1, 2, 3)], returns='opaque',
           ensures=[bind_same], ensures_exc=[bind_same])

    def spf_setup(eng, st):
        base_setup(eng, st)
        klong_env(st)
        st.env['s'] = VOpaque(hint='s', nonnull=True)
        st.env['orig'] = VOpaque(z3.Select(st.ghost['bind'].t, st.env['s'].t), nonnull=True)      # orig was read from the binding of s
        st.env['v'] = VOpaque(hint='v', nonnull=True)
        st.env['call_fn'] = VFunc('call_fn', model=user_fn_model)
    reg.fn(A + 'multi_jacobian_of_fn.single_param_fn', setup=spf_setup, returns='opaque', ensures=[bind_same], ensures_exc=[bind_same])
    reg.fns[A + 'multi_jacobian_of_fn.single_param_fn'].closure_requires = [
        lambda s: same(s.orig, VOpaque(z3.Select(s.st.ghost['bind'].t, s.s.t), nonnull=True)) if s.has('orig') and s.has('s') else VBool(True)]

    def func_setup(eng, st):
        base_setup(eng, st)
        klong_env(st)
        st.env['a'] = VOpaque(hint='a', nonnull=True)
        st.env['orig'] = VOpaque(z3.Select(st.ghost['bind'].t, st.env['a'].t), nonnull=True)
        st.env['v'] = VOpaque(hint='v', nonnull=True)
        st.env['call_fn'] = VFunc('call_fn', model=user_fn_model)
    reg.fn(DY + 'eval_dyad_grad.func', setup=func_setup, returns='opaque', ensures=[bind_same], ensures_exc=[bind_same])
    # what func's setup assumes about its captured `orig` is an obligation where eval_dyad_grad creates the closure
    reg.fns[DY + 'eval_dyad_grad.func'].closure_requires = [
        lambda s: same(s.orig, VOpaque(z3.Select(s.st.ghost['bind'].t, s.a.t), nonnull=True)) if s.has('orig') and s.has('a') else VBool(False)]

    # ---------------- entry points: both exits leave bindings and arrays alone (callees by contract)
    def mj_setup(n):
        def f(eng, st):
            base_setup(eng, st)
            klong_env(st)
            st.env['param_syms'] = VList([VOpaque(hint=f's{i}', nonnull=True) for i in range(n)])
            st.env['fn'] = VOpaque(hint='g', nonnull=True)
        return f
    reg.fn(A + 'multi_jacobian_of_fn', cases=[(f"{n}-params", mj_setup(n)) for n in (1, 2)], returns='opaque',
           ensures=[bind_same, all_caller_arrays_unchanged], ensures_exc=[bind_same, all_caller_arrays_unchanged])
    reg.fn(A + 'multi_grad_of_fn', cases=[(f"{n}-params", mj_setup(n)) for n in (1, 2)], returns='opaque',
           ensures=[bind_same, all_caller_arrays_unchanged], ensures_exc=[bind_same, all_caller_arrays_unchanged])

    def grad_setup(kind):
        def f(eng, st):
            base_setup(eng, st)
            klong_env(st)
            a = VOpaque(hint='a', nonnull=True)
            st.assume(a.pred('isinst:KGSym') if kind == 'symbol' else Not(a.pred('isinst:KGSym')))
            st.env['a'] = a
            st.env['b'] = VOpaque(hint='f', nonnull=True)
            if kind == 'symbol':
                # the variable's value is an array object of the caller
                arr = mk_array(st, 'value_of_a', fresh_obj=False)
                st.ghost['bind'] = VArr(z3.Store(st.ghost['bind'].t, a.t, arr.t))
                st.ghost['arr_of_a'] = arr
        return f
    reg.fn(DY + 'eval_dyad_grad', cases=[('point-is-symbol', grad_setup('symbol')), ('point-is-value', grad_setup('value'))], returns='opaque',
           ensures=[bind_same, all_caller_arrays_unchanged], ensures_exc=[bind_same, all_caller_arrays_unchanged])
    reg.fn(A + 'grad_of_fn', setup=lambda e, st: (base_setup(e, st), klong_env(st), st.env.__setitem__('x', mk_array(st, 'x', fresh_obj=False))), returns='opaque',
           ensures=[bind_same, all_caller_arrays_unchanged], ensures_exc=[bind_same, all_caller_arrays_unchanged])
    reg.fn(A + 'jacobian_of_fn', setup=lambda e, st: (base_setup(e, st), klong_env(st), st.env.__setitem__('x', mk_array(st, 'x', fresh_obj=False))), returns='opaque',
           ensures=[bind_same, all_caller_arrays_unchanged], ensures_exc=[bind_same, all_caller_arrays_unchanged])

    from replay import c07 as rp
    reg.replays.append((r'.', rp.replay_grad_purity))


def havoc_fresh_arrays(st):
    for oid, flds in st.heap.items():
        if '__c' in flds and oid in st.fresh_objs:
            flds['__c'] = VOpaque(hint='c', nonnull=True)


REGIONS = {}


def configure(eng):
    eng.opaque_classes |= {'KGCall', 'KGSym', 'KGFn', 'KGLambda'}
    eng.module_names |= {'backend'}
    eng.opaque_methods |= {'supports_float64', 'item'}

    def np_asarray(e, st, args, kwargs, node):
        x = args[0]
        if isinstance(x, VObj) and x.cls == 'ndarray':
            s2 = st.fork()
            s2.trail.append('np.asarray:copy')
            st.trail.append('np.asarray:alias')
            return [(st, x), (s2, mk_array(s2, 'converted', contents=VOpaque(CONV(contents(s2, x).t), nonnull=True)))]
        return [(st, mk_array(st, 'converted'))]

    def np_fresh(e, st, args, kwargs, node):
        x = args[0] if args else None
        c = VOpaque(CONV(contents(st, x).t), nonnull=True) if isinstance(x, VObj) and x.cls == 'ndarray' else None
        return [(st, mk_array(st, 'fresh', contents=c))]

    def to_numpy(e, st, args, kwargs, node):
        x = args[0]
        if isinstance(x, VObj) and x.cls == 'ndarray':
            return np_asarray(e, st, args, kwargs, node)
        return [(st, mk_array(st, 'from_backend'))]

    def nditer(e, st, args, kwargs, node):
        st.ghost['x_contents_at_loop'] = contents(st, args[0])
        return [(st, st.alloc('nditer', {'__arr': args[0]}))]
    for name, m in (('np.asarray', np_asarray), ('np.array', np_fresh), ('np.zeros_like', np_fresh), ('np.zeros', np_fresh), ('np.copy', np_fresh),
                    ('backend.to_numpy', to_numpy), ('np.nditer', nditer)):
        eng.reg.externals[name] = m

    def getattr_arr(e, v, attr, st, node):
        if attr in ('copy', 'flatten'):
            return [(st, VFunc(attr, model=lambda e2, s, a, k, n: [(s, mk_array(s, attr, contents=VOpaque(CONV(contents(s, v).t), nonnull=True)))]))]
        if attr in ('ravel', 'reshape', 'view'):
            def alias_or_copy(e2, s, a, k, n):
                s2 = s.fork()
                return [(s, v), (s2, mk_array(s2, attr))]
            return [(st, VFunc(attr, model=alias_or_copy))]
        if attr in ('ndim', 'size', 'shape', 'dtype', 'flat'):
            return [(st, VOpaque(hint=attr))]
        return None
    eng.hooks['getattr:ndarray'] = getattr_arr
    eng.hooks['truth:ndarray'] = lambda e, v: z3.Const(fresh_name('arr_truth'), Bool)

    def getattr_it(e, v, attr, st, node):
        if attr == 'finished':
            return [(st, fresh(Bool, 'finished'))]
        if attr == 'multi_index':
            return [(st, VOpaque(hint='idx', nonnull=True))]
        if attr == 'iternext':
            return [(st, VFunc('iternext', model=lambda e2, s, a, k, n: [(s, NONE)]))]
        return None
    eng.hooks['getattr:nditer'] = getattr_it

    def index(e, obj, key, st, node):
        if isinstance(obj, VObj) and obj.cls == 'ndarray':
            return [(st, VOpaque(READ(contents(st, obj).t, e.as_obj(key)), nonnull=True))]
        if isinstance(obj, VObj) and obj.cls in ('KI7', 'KC7'):
            return [(st, VOpaque(z3.Select(st.ghost['bind'].t, e.as_obj(key)), nonnull=True)), e.exc(st.fork(), 'KeyError', node)]
        return None
    eng.hooks['index'] = index

    def setitem(e, obj, key, val, st, node):
        if isinstance(obj, VObj) and obj.cls == 'ndarray':
            c, i, v = contents(st, obj).t, e.as_obj(key), e.as_obj(val)
            new = WRITE(c, i, v)
            # ground instances of the two array axioms at this write (no quantifiers: counter-models stay constructible):
            #   write-write  WRITE(WRITE(c1,i,v1),i,v) == WRITE(c1,i,v)      write-back-read  WRITE(c1,i,READ(c1,i)) == c1
            if z3.is_app(c) and c.decl().eq(WRITE) and c.arg(1).eq(i):
                c1 = c.arg(0)
                st.assume(new == WRITE(c1, i, v))
                st.assume(z3.Implies(v == READ(c1, i), new == c1))
            st.assume(z3.Implies(v == READ(c, i), new == c))
            st.setfield(obj, '__c', VOpaque(new, nonnull=True))
            return True
        if isinstance(obj, VObj) and obj.cls in ('KI7', 'KC7'):
            st.ghost['bind'] = VArr(z3.Store(st.ghost['bind'].t, e.as_obj(key), e.as_obj(val)))
            st.ghost['rebinds'] = st.ghost.get('rebinds', lift(0)) + 1
            return True
        if isinstance(obj, VOpaque):
            return True        # a write into a dictionary/list allocated by the function itself
        return None
    eng.hooks['setitem'] = setitem

    def getattr_klong(e, v, attr, st, node):
        if attr == '_context':
            return [(st, st.alloc('KC7', {}, fresh=False))]
        if attr == 'call':
            return [(st, VFunc('klong.call', model=user_fn_model))]
        return None
    eng.hooks['getattr:KI7'] = getattr_klong

    def bfloat(e, args, kwargs, st, node):
        if args and isinstance(args[0], VOpaque):
            return [(st, args[0])] + e.maybe_raise(st, 'float', node)      # float() of an array element is that element's value
        return None
    eng.hooks['builtin:float'] = bfloat

    def call_opaque(e, fv, args, kwargs, st, node):
        return user_fn_model(e, st, args, kwargs, node)
    eng.hooks['call_opaque'] = call_opaque

    def dict_from_pairs(e, st, pairs):
        return VList([VTuple(list(p.items)) for p in pairs])        # originals: a concrete association list
    eng.hooks['dict_from_pairs'] = dict_from_pairs

    def method(e, o, m, args, kwargs, st, node):
        if isinstance(o, VList) and m == 'items' and all(isinstance(x, VTuple) for x in o.items):
            return [(st, o)]
        return None
    eng.hooks['method'] = method
