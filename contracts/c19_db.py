"""C19 (SQL through .db): `Database.__call__` under contract - every query sees the tables as they are NOW.

"SQL queries through .db reflect exactly the rows inserted so far": a Table's frame object is REPLACED by commit (the unindexed merge
builds a new DataFrame, the indexed one rebinds `_df` via concat, reset_index returns a new frame), and commit runs on every read path
of the table.  So the only frame of table k that reflects the rows inserted so far is the one `tables[k].get_dataframe()` returns
during THIS invocation (get_dataframe = commit + `_df`: its own contract in contracts/c19.py).  Contract of the real function:

   at the call of `con.execute(sql)`:  for every name k of `self.tables`, the frame bound to k for the SQL (the `locals()[k] = …`
   binding DuckDB's replacement scan reads) is `NOW(tables[k])` - the value returned by get_dataframe() of that table in this invocation.

Loop contract of `for k, v in self.tables.items()`: ghost set `done` of the names visited; invariant: every done name is bound to
NOW(tables[name]); the iteration visits every name (assumed of dict.items()).  A frame remembered from an earlier query
(`self._frames[k]`) is some other object: nothing relates it to NOW(...), and the obligation fails.
Runs as its own small verification (separate registry/engine) inside the C19 check."""
import z3

from pyvc import smt
from pyvc.contracts import Registry, loop
from pyvc.engine import Engine
from pyvc.values import *

K = 'klongpy/db/sys_fn_db.py::Database.__call__'
AOO = z3.ArraySort(Obj, Obj)
AOB = z3.ArraySort(Obj, Bool)
NOW = z3.Function('table:frame-now', Obj, Obj)
kq = z3.Const('k!db', Obj)


class G(V):
    def __init__(self, t): self.t = t


def all_bound(st, which):
    """every name in `which` (an Obj->Bool array) is bound, for the SQL, to the current frame of its table"""
    g = st.ghost
    return z3.ForAll([kq], z3.Implies(z3.And(z3.Select(g['dom'].t, kq), z3.Select(which, kq)),
                                      z3.Select(g['view'].t, kq) == NOW(z3.Select(g['tbl'].t, kq))))


def build(reg, src):
    def setup(eng, st):
        tables = st.alloc('Tables', {}, hint='tables', fresh=False)
        loc = st.alloc('Locals', {}, hint='locals', fresh=False)
        o = st.alloc('Database', dict(tables=tables, con=VOpaque(hint='con', nonnull=True)), hint='self', fresh=False)
        st.env['self'] = o
        st.env['_'] = VOpaque(hint='klong')
        st.env['ctx'] = VOpaque(hint='ctx', nonnull=True)
        st.ghost['dom'] = G(z3.Const('tables:dom', AOB))
        st.ghost['tbl'] = G(z3.Const('tables:tbl', AOO))
        st.ghost['view'] = G(z3.Const('sql:view0', AOO))
        st.ghost['done'] = G(z3.K(Obj, z3.BoolVal(False)))
        st.ghost['locals'] = loc
        st.ghost['executed'] = lift(0)

    def inv(s):
        return VBool(all_bound(s.st, s.st.ghost['done'].t))

    def havoc(eng, st):
        st.ghost['view'] = G(z3.Const(fresh_name('sql:view'), AOO))
        st.ghost['done'] = G(z3.Const(fresh_name('done'), AOB))
    reg.fn(K, setup=setup, returns='opaque', requires=[], raises=None,
           loops={0: loop(invariant=[inv], havoc=dict(k='opaque', v='opaque'), modifies=havoc)},
           ensures=[lambda s, r: VBool(s.st.ghost['executed'].t == 1)])
    reg.assumptions += [
        "DuckDB resolves a table name of the SQL to the object bound to that name by `locals()[name] = frame` in Database.__call__ "
        "(replacement scan over the Python frame) and computes the query over that frame: external, not under contract",
        "dict.items() visits every key of self.tables exactly once; Table.get_dataframe() returns the table's committed frame (its contract "
        "is in contracts/c19.py: commit, then self._df)",
    ]


def configure(eng):
    eng.opaque_classes |= {'KlongDbException'}
    eng.opaque_methods |= {'fetchdf', 'squeeze'}
    eng.opaque_ops_may_raise = True

    def tables_method(e, v, attr, st, node):
        if attr == 'items':
            return [(st, VFunc('items', model=lambda e2, s, a, k, n: [(s, VTuple(['tblitems', v]))]))]
        raise Refuse(f"self.tables.{attr}: only .items() is modelled")
    eng.hooks['getattr:Tables'] = tables_method

    def for_element(e, it, st, node):
        if isinstance(it, VTuple) and it.items and it.items[0] == 'tblitems':
            name = VOpaque(hint='name', nonnull=True)
            st.assume(z3.And(z3.Select(st.ghost['dom'].t, name.t), z3.Not(z3.Select(st.ghost['done'].t, name.t))))
            st.ghost['cur'] = name
            return VTuple([name, VOpaque(z3.Select(st.ghost['tbl'].t, name.t), nonnull=True)])
        return None
    eng.hooks['for_element'] = for_element

    def for_iter_end(e, it, st, node):
        if isinstance(it, VTuple) and it.items and it.items[0] == 'tblitems':
            st.ghost['done'] = G(z3.Store(st.ghost['done'].t, st.ghost['cur'].t, z3.BoolVal(True)))
    eng.hooks['for_iter_end'] = for_iter_end

    def for_exit(e, it, st, node):
        if isinstance(it, VTuple) and it.items and it.items[0] == 'tblitems':
            st.assume(z3.ForAll([kq], z3.Select(st.ghost['done'].t, kq) == z3.Select(st.ghost['dom'].t, kq)))
    eng.hooks['for_exit'] = for_exit
    eng.hooks['builtin:locals'] = lambda e, args, kwargs, st, node: [(st, st.ghost['locals'])]

    def setitem(e, obj, key, val, st, node):
        if isinstance(obj, VObj) and obj.cls == 'Locals':
            # publishing a frame under a table's name in the function's own namespace only works for names the function does not
            # use itself: a table called x, k, v, df, e, ctx or self is shadowed by (or shadows) a local variable
            import ast as _ast
            own = sorted({a.arg for a in e.cur_node.args.args} | {n.id for n in _ast.walk(e.cur_node) if isinstance(n, _ast.Name) and isinstance(n.ctx, _ast.Store)}
                         | {h.name for h in _ast.walk(e.cur_node) if isinstance(h, _ast.ExceptHandler) and h.name})
            if isinstance(key, VOpaque):
                e.oblige(f"{e.cur_key}#table-name-is-not-a-local-variable@{e.site_ordinal('tblname', node)}", st,
                         z3.And(*[z3.Not((key == lift(nm)).t) for nm in own]) if own else z3.BoolVal(True), kind='db-view', locals=own)
            st.ghost['view'] = G(z3.Store(st.ghost['view'].t, e.as_obj(key), e.as_obj(val)))
            return True
        if isinstance(obj, VOpaque):
            return True
        return None
    eng.hooks['setitem'] = setitem

    def opaque_method(e, o, name, args, kwargs, st, node):
        if name == 'get_dataframe' and not args and not kwargs:
            return [(st, VOpaque(NOW(o.t), nonnull=True))]
        if name == 'register' and len(args) == 2 and not kwargs:
            # con.register(name, frame): DuckDB's own binding of a name to a frame
            st.ghost['view'] = G(z3.Store(st.ghost['view'].t, e.as_obj(args[0]), e.as_obj(args[1])))
            return [(st, VOpaque(hint='con', nonnull=True))]
        if name == 'execute':
            e.oblige(f"{e.cur_key}#sql-sees-the-current-frame-of-every-table@{e.site_ordinal('exec', node)}", st,
                     all_bound(st, st.ghost['dom'].t), kind='db-view')
            st.ghost['executed'] = st.ghost['executed'] + 1
            s2 = st.fork()
            return [(st, VOpaque(hint='cursor', nonnull=True)), e.exc(s2, 'Exception', node)]
        return None
    eng.hooks['opaque_method'] = opaque_method
    eng.opaque_methods |= {'get_dataframe', 'execute', 'register'}


def db_view_check(ctx):
    src = ctx['src']
    reg = Registry('C19')
    build(reg, src)
    eng = Engine(src, reg)
    eng._names = set()
    configure(eng)
    try:
        eng.verify_fn(K)
    except Refuse as e:
        return _with_battery([dict(name=K + '#db.refused', ok=False, undecided=True, backend='z3', detail=f"refused: {e}")])
    obls = eng.obligations
    smt.discharge(obls, timeout_s=20 if ctx['tier'] == 'quick' else 90)
    rows, n_real = [], 0
    for o in obls:
        kind = o.meta.get('kind')
        nm = o.name.replace('__call__#', '__call__#db.')
        if kind in ('vacuity-neg', 'vacuity-cover'):
            if o.result == 'unsat':
                rows.append(dict(name=nm, ok=False, undecided=True, backend=o.backend, detail='vacuity probe unsatisfiable'))
            continue
        n_real += 1
        if o.result == 'unsat':
            rows.append(dict(name=nm, ok=True, backend=o.backend, detail=f"trail={o.meta.get('trail')}", time=o.time))
        elif o.result == 'sat':
            rows.append(dict(name=nm, ok=False, backend=o.backend, detail=f"fails on path {o.meta.get('trail')}"))
        else:
            rows.append(dict(name=nm, ok=False, undecided=True, backend=o.backend, detail=f"undecided on path {o.meta.get('trail')}"))
    if not any(r['name'].split('@')[0].endswith('sql-sees-the-current-frame-of-every-table') for r in rows):
        rows.append(dict(name=K + '#db.reachability', ok=False, undecided=True, backend='z3', detail='con.execute is never reached (vacuity guard)'))
    ctx['eng'].verified[K + ' (SQL view)'] = dict(sha=src.sha(src.find(K)), paths=eng.paths.get(K), backend='z3 (own registry)')
    return _with_battery(rows)


def _with_battery(rows):
    bad = [r for r in rows if not r['ok']]
    if bad:
        from pyvc.run import run_replay
        import replay.c19 as rp
        r = run_replay(rp.replay_db_view, {}, bad[0]['name'], timeout_s=90)
        for b in bad:
            if r.get('confirmed'):
                b['confirmed'] = True
                b['undecided'] = False
                b['detail'] += f" | real code: {r.get('detail')}"
            b['replay'] = dict(result=r)
    return rows


db_view_check.__name__ = 'db-view'
