"""C14 - every remote call gets its own answer or an error (partial: safety only).

 (1) _listen resolves exactly the future stored under the received id, with that frame's message, and removes it; a frame with
     an unknown id never touches a pending future; a request is answered under the SAME id, exactly once;
 (2) _cleanup_pending_responses requires an exception instance unless the table is empty, hands it to every pending future
     and leaves the table empty;
 (3) every iteration of _run's connection loop executes the cleanup exactly once (finally), on every exit path, with its
     precondition satisfied - whatever interleaves at the awaits (running may flip, calls may register futures).
Liveness ("never hangs"), the is_open-then-register window between threads and close racing with calls are NOT decided.
"""
import ast
import z3
from pyvc.values import *
from pyvc.state import Raised
from pyvc.contracts import loop
from . import ipcmodel as im
from . import ctxmodel as cm
from .ipcmodel import IPC

NC = IPC + 'NetworkClient.'


def mk_nc(st, running=None):
    cm.init_ghost(st)
    im.init_stream(st)
    pr = VOpaque(hint='pending_responses', nonnull=True)
    nc = st.alloc('NetworkClient', {'reader': im.mk_reader(st), 'writer': im.mk_writer(st), 'pending_responses': pr,
                                    'running': fresh(Bool, 'running') if running is None else lift(running),
                                    'klongloop': VOpaque(hint='klongloop'), 'klong': VOpaque(hint='klong'),
                                    'conn_provider': VOpaque(hint='conn_provider', nonnull=True),
                                    '_run_exit_event': VOpaque(hint='exit_event', nonnull=True)}, fresh=False)
    st.env['self'] = nc
    st.ghost['resolved'] = VList([])
    st.ghost['failed_with'] = VList([])
    st.ghost['sent_frames'] = VList([])
    st.ghost['cleanups'] = lift(0)
    st.ghost['connects'] = lift(0)
    return nc


def PR(st, nc): return st.field(nc, 'pending_responses').t
def has(st, pr, k): return z3.Select(z3.Select(st.ghost['has'].t, pr), k)
def mem(st, pr, k): return z3.Select(z3.Select(st.ghost['mem'].t, pr), k)
kq = z3.Const('k!q', Obj)


def build_listen(reg, only_echo=False):
    def listen_setup(eng, st):
        mk_nc(st)
        st.ghost['verifying_listen'] = lift(True)

    def listen_post(s, r):
        if 'msg_id' not in s._cur:
            # at call sites only the frame effect (listen_effect) is used; in _listen itself a normal return without a received frame
            # means a frame (possibly the response of a pending call) was swallowed or nothing was read
            return VBool('verifying_listen' not in s.st.ghost)
        st, old = s.st, s.old
        pr = PR(old, s.self)
        mid, msg = s._cur['msg_id'], s._cur['msg']
        resolved, sent = st.ghost['resolved'].items, st.ghost['sent_frames'].items
        pending = has(old, pr, mid.t)
        others_same = z3.ForAll([kq], z3.Implies(kq != mid.t, z3.And(has(st, pr, kq) == has(old, pr, kq),
                                                                     z3.Implies(has(old, pr, kq), mem(st, pr, kq) == mem(old, pr, kq)))))
        was_pending = [VBool(len(resolved) == 1 and len(sent) == 0)]
        if len(resolved) == 1:
            fut, val = resolved[0].items
            was_pending += [VBool(fut.t == mem(old, pr, mid.t)), same(val, msg), VBool(z3.Not(has(st, pr, mid.t)))]
        not_pending = [VBool(len(resolved) == 0 and len(sent) == 1)]
        if len(sent) == 1:
            sid, sresp = sent[0].items
            not_pending += [same(sid, mid), VBool(has(st, pr, mid.t) == has(old, pr, mid.t))]       # answered under the SAME id
        return And(VBool(others_same), If(VBool(pending), And(*was_pending), And(*not_pending)))

    def listen_exc(s, e):
        st, old = s.st, s.old
        resolved, sent = st.ghost['resolved'].items, st.ghost['sent_frames'].items
        parts = [VBool(len(resolved) <= 1), VBool(len(sent) <= 1)]
        if 'msg_id' in s._cur and len(resolved) == 1:
            mid = s._cur['msg_id']
            pr = PR(old, s.self)
            fut, val = resolved[0].items
            parts += [VBool(has(old, pr, mid.t)), VBool(fut.t == mem(old, pr, mid.t))]      # never a future of another id
        return And(*parts)

    reg.fn(NC + '_listen', setup=listen_setup, returns=None, ensures=[listen_post], ensures_exc=[listen_exc],
           modifies=lambda eng, st, s: listen_effect(eng, st, s))
    reg.assumed_calls.update({'run_command_on_klongloop': 'opaque'})
    if IPC + 'stream_recv_msg' not in reg.fns:
        reg.fn(IPC + 'stream_recv_msg', verify=False, returns=('nonnull', 'opaque'), notes='under contract in C13')
    if IPC + 'stream_send_msg' not in reg.fns:
        reg.fn(IPC + 'stream_send_msg', verify=False, returns=None, notes='under contract in C13',
               ghost_at_call=lambda eng, st, s, r: 'sent_frames' in st.ghost and st.ghost.__setitem__('sent_frames', VList(st.ghost['sent_frames'].items + [VTuple([s.msg_id, s.msg])])))


def listen_effect(eng, st, s):
    """at call sites: _listen may pop / resolve one pending entry (table only shrinks by its own doing)"""
    nc = s.self
    pr = PR(st, nc)
    row = z3.Const(fresh_name('pending_row'), z3.ArraySort(Obj, Bool))
    st.ghost['has'] = cm.VArr(z3.Store(st.ghost['has'].t, pr, row))


def build(reg, src):
    reg.assumptions += [
        "asyncio: run-to-completion between awaits; Future.set_result / set_exception complete the future once and set_exception "
        "requires an exception instance (None raises TypeError); readexactly / drain may raise OSError family / IncompleteReadError",
        "interference at every await of _run: `running` may flip and the pending table may change arbitrarily (calls register futures "
        "from other threads); the table loses entries only through this class's own methods",
        "liveness ('never hangs', prompt failure after the connection is gone) and thread interleavings between call() and the listener "
        "are NOT decided by contracts",
        "stream_recv_msg / stream_send_msg are under contract in C13 (assumed here); the server-side command execution is opaque",
    ]
    build_listen(reg)

    # ---------------- _cleanup_pending_responses
    def cl_setup(eng, st):
        mk_nc(st)
        st.env['close_exception'] = VOpaque(hint='close_exception')

    def table_empty(st, nc):
        return VBool(z3.ForAll([kq], z3.Not(has(st, PR(st, nc), kq))))
    reg.fn(NC + '_cleanup_pending_responses', setup=cl_setup, returns=None, raises=[],
           requires=[lambda s: Or(Not(is_none(s.close_exception)), table_empty(s.st, s.self))],
           loops={0: loop()},
           modifies=lambda eng, st, s: st.ghost.__setitem__('has', cm.VArr(z3.Store(st.ghost['has'].t, PR(st, s.self), z3.K(Obj, z3.BoolVal(False))))),
           ghost_at_call=lambda eng, st, s, r: st.ghost.__setitem__('cleanups', st.ghost['cleanups'] + 1),
           ensures=[lambda s, r: table_empty(s.st, s.self),
                    # every future handed an exception got exactly the close exception (an instance, never None)
                    lambda s, r: And(*[And(same(f.items[1], s.close_exception0), Not(is_none(f.items[1]))) for f in s.st.ghost['failed_with'].items]),
                    # every pending future was visited (dict.values() yields all of them: library contract) unless there was none
                    lambda s, r: Or(table_empty(s.old, s.self), VBool('all_values_visited' in s.st.ghost))])

    # ---------------- _run
    def run_setup(eng, st):
        mk_nc(st)
        for n in ('on_connect', 'on_close', 'on_error'):
            st.env[n] = VOpaque(hint=n)

    inv = lambda s, *a: s.g('cleanups') == s.g('connects')
    reg.fn(NC + '_run', setup=run_setup, returns=None,
           loops={0: loop(invariant=[inv], havoc=dict(close_exception='opaque', e='opaque'), modifies=lambda eng, st: havoc_nc(st)),
                  1: loop(invariant=[lambda s: s.g('cleanups') + 1 == s.g('connects')], modifies=lambda eng, st: havoc_nc(st))},
           ensures=[inv], ensures_exc=[inv])

    # ---------------- call: the future is in the pending table BEFORE the request can reach the wire (the response may arrive while the
    # sender is still suspended in drain(); the listener would then find no entry and treat the response as a request)
    def call_setup(eng, st):
        mk_nc(st, running=True)
        nc = st.env['self']
        st.setfield(nc, 'ioloop', VOpaque(hint='ioloop', nonnull=True))
        st.env['msg'] = VOpaque(hint='msg')
        st.ghost['sent_frames'] = VList([])
        st.ghost['registered_at_send'] = VList([])

    def note_send(eng, st, s, r):
        if 'registered_at_send' in st.ghost:
            nc = st.env.get('self') or next((v for v in st.env.values() if isinstance(v, VObj) and v.cls == 'NetworkClient'), None)
            pr = PR(st, nc)
            mid = eng.as_obj(s.msg_id)
            st.ghost['registered_at_send'] = VList(st.ghost['registered_at_send'].items + [VBool(has(st, pr, mid))])
        if 'sent_frames' in st.ghost:
            st.ghost['sent_frames'] = VList(st.ghost['sent_frames'].items + [VTuple([s.msg_id, s.msg])])
        if 'registered_at_send' in st.ghost and s.has('writer'):
            st.ghost['send_writer'] = s.writer
            nc2 = st.env.get('self') or next((v for v in st.env.values() if isinstance(v, VObj) and v.cls == 'NetworkClient'), None)
            if nc2 is not None:
                st.ghost['writer_at_send'] = st.field(nc2, 'writer')
    reg.fns[IPC + 'stream_send_msg'].ghost_at_call = note_send

    def call_post(s, r):
        regs = s.st.ghost['registered_at_send'].items
        sent = s.st.ghost['sent_frames'].items
        w_used = s.st.ghost.get('send_writer')
        return And(VBool(len(regs) == 1 and len(sent) == 1), regs[0] if regs else VBool(False),
                   same(sent[0].items[1], s._entry['msg']) if sent else VBool(False),
                   # on the writer the listener owns (reset to None when the listener exits: a call after the loss then fails at once)
                   # - the writer as it is WHEN THE SEND RUNS on the io loop, not a value read earlier on the caller's thread
                   same(w_used, s.st.ghost.get('writer_at_send', s.old.field(s.self, 'writer'))) if w_used is not None else VBool(False))

    def listener_may_exit(eng, st, s, node):
        # interference between the caller's thread and the io loop: once the coroutine has been defined (the request is registered) and
        # before it runs on the loop, the listener may have exited - its cleanup resets self.writer to None
        import ast as _ast
        if isinstance(node, _ast.AsyncFunctionDef) and 'listener_exit_modelled' not in st.ghost:
            st.ghost['listener_exit_modelled'] = lift(True)
            nc = st.env.get('self')
            if isinstance(nc, VObj):
                w = st.field(nc, 'writer')
                lost = z3.Const(fresh_name('listener_exited'), z3.BoolSort())
                w2 = VOpaque(hint='writer_now')
                st.assume(z3.And(z3.Implies(lost, is_none(w2).t), z3.Implies(z3.Not(lost), w2.t == eng.as_obj(w))))
                st.setfield(nc, 'writer', w2)
    reg.fn(NC + 'call', setup=call_setup, returns='opaque', ensures=[call_post], at_every_point=listener_may_exit)
    reg.fn(NC + 'is_open', returns=Bool, verify=False, raises=[])
    reg.externals['uuid.uuid4'] = lambda e, st, a, k, n: [(st, VOpaque(hint='msg_id', nonnull=True))]

    def run_threadsafe(e, st, a, k, n):
        return [(st, VTuple(['cfuture', a[0]]))]
    reg.externals['asyncio.run_coroutine_threadsafe'] = run_threadsafe

    # ---------------- server side: whatever the command does, the result future of the request is completed exactly once, on every
    # exit path of execute_server_command (otherwise the connection's listener waits forever and the caller hangs)
    def esc_setup(eng, st):
        cm.init_ghost(st)
        st.env['future_loop'] = VOpaque(hint='future_loop', nonnull=True)
        st.env['result_future'] = VOpaque(hint='result_future', nonnull=True)
        st.env['klong'] = VOpaque(hint='klong', nonnull=True)
        st.env['command'] = VOpaque(hint='command', nonnull=True)
        st.env['nc'] = VOpaque(hint='nc')
        st.ghost['completions'] = lift(0)
        st.ghost['loop_failed'] = lift(False)
    once = lambda s, *a: And(s.g('completions') <= 1, Or(s.g('completions') == 1, s.g('loop_failed')))

    def replies_with_the_result(s, *a):
        # the value handed to set_result is what the evaluation produced (or a function reference / None), not something derived from it:
        # the reply must have the structure of the remote value (a one-element list stays a list)
        v = s.st.ghost.get('completed_with')
        return VBool(not (isinstance(v, VOpaque) and str(v.t).startswith('derived-from-result')))
    reg.fn(IPC + 'execute_server_command', setup=esc_setup, returns=None, ensures=[once, replies_with_the_result], ensures_exc=[once])
    reg.assumptions.append("execute_server_command: traceback.print_exception, logging.error and constructing KlongException do not raise; "
                           "call_soon_threadsafe(f.set_result/set_exception, v) completes the future unless it raises itself")

    reg.extra_checks.append(lambda ctx: reply_is_the_result_rows(src))
    # "every call gets its own answer" needs every frame to stay in one piece on a connection with several senders (C13's obligation)
    def frames_in_one_piece(ctx):
        from contracts import c13 as _c13
        return _c13.frame_written_atomically(ctx)
    frames_in_one_piece.__name__ = 'frames-in-one-piece'
    reg.extra_checks.append(frames_in_one_piece)

    from replay import c14 as rp
    reg.replays.append((r'_run', rp.replay_run_cleanup))
    reg.replays.append((r'_listen|_cleanup', rp.replay_listen))


def havoc_nc(st):
    nc = st.env['self']
    st.setfield(nc, 'running', fresh(Bool, 'running'))
    pr = PR(st, nc)
    st.ghost['has'] = cm.VArr(z3.Store(st.ghost['has'].t, pr, z3.Const(fresh_name('pending_row'), z3.ArraySort(Obj, Bool))))
    st.setfield(nc, 'reader', VOpaque(hint='reader'))
    st.setfield(nc, 'writer', VOpaque(hint='writer'))


def reply_is_the_result_rows(src):
    """(AST-structural) in execute_server_command the variable handed to set_result is only ever assigned the outcome of the evaluation
    itself or one of the documented conversions (function -> KGRemoteFnRef, wrapper -> its function, dictionary-set -> None): the reply
    has the structure of the remote value (a one-element list stays a list, a 0-d value stays what the interpreter produced)"""
    import ast as _ast
    key = IPC + 'execute_server_command'
    fn = src.find(key)
    name = key + '#reply-is-the-evaluation-result'
    if fn is None:
        return [dict(name=name, ok=False, undecided=True, backend='ast-structural', detail='function not found')]
    var = None
    for n in _ast.walk(fn):
        if isinstance(n, _ast.Call) and isinstance(n.func, _ast.Attribute) and n.func.attr == 'call_soon_threadsafe' and len(n.args) == 2 \
                and isinstance(n.args[0], _ast.Attribute) and n.args[0].attr == 'set_result' and isinstance(n.args[1], _ast.Name):
            var = n.args[1].id
    if var is None:
        return [dict(name=name, ok=False, undecided=True, backend='ast-structural', detail='no set_result(<variable>) found')]
    bad = []
    for n in _ast.walk(fn):
        tg = n.targets if isinstance(n, _ast.Assign) else [n.target] if isinstance(n, (_ast.AugAssign, _ast.AnnAssign)) else []
        if not any(isinstance(t, _ast.Name) and t.id == var for t in tg):
            continue
        v = n.value
        ok = (isinstance(v, _ast.Constant) and v.value is None) or \
             (isinstance(v, _ast.Call) and isinstance(v.func, _ast.Name) and v.func.id in ('r', 'klong', 'KGRemoteFnRef')) or \
             (isinstance(v, _ast.Subscript) and isinstance(v.value, _ast.Name) and v.value.id == 'klong') or \
             (isinstance(v, _ast.Attribute) and isinstance(v.value, _ast.Name) and v.value.id == var and v.attr == 'fn')
        if isinstance(n, _ast.AugAssign) or not ok:
            bad.append(f"line {n.lineno}: {_ast.unparse(n)[:80]}")
    rows = [dict(name=name, ok=not bad, backend='ast-structural', confirmed=False,
                 detail=('; '.join(bad[:3]) + ' - the reply is computed FROM the evaluation result, it is not the result') if bad
                 else f"`{var}` is only assigned the evaluation outcome or a documented conversion")]
    if bad:
        from pyvc.run import run_replay
        import replay.c13 as rp13
        rr = run_replay(rp13.replay_remote_values, {}, name, timeout_s=120)
        rows[0]['confirmed'] = bool(rr.get('confirmed'))
        rows[0]['replay'] = dict(result=rr)
        if rr.get('confirmed'):
            rows[0]['detail'] += f" | real code: {rr.get('detail')}"
    return rows


REGIONS = {}


def configure(eng):
    im.configure(eng)
    eng.opaque_classes |= {'KGSym', 'KGRemoteFnRef', 'KlongException', 'KGRemoteCloseConnection', 'KGRemoteCloseConnectionException', 'KlongIPCConnectionFailureException',
                           'KlongIPCCreateConnectionException', 'KlongIPCConnectionClosedException'}
    eng.opaque_methods |= {'set_result', 'set_exception', 'values', 'connect', 'set', 'create_future', 'call_soon_threadsafe', 'set_result', 'set_exception'}

    prev_om = eng.hooks.get('opaque_method')

    def opaque_method(e, obj, name, args, kwargs, st, node):
        if name == 'set_result' and 'resolved' in st.ghost:
            st.ghost['resolved'] = VList(st.ghost['resolved'].items + [VTuple([obj, args[0]])])
            return [(st, NONE)]
        if name == 'set_exception' and 'failed_with' in st.ghost:
            # asyncio contract: set_exception(None) raises TypeError
            e.oblige(f"{e.cur_key}#set_exception-gets-an-exception-instance@{e.site_ordinal('setexc', node)}", st, Not(is_none(args[0])), kind='callee-pre')
            st.ghost['failed_with'] = VList(st.ghost['failed_with'].items + [VTuple([obj, args[0]])])
            return [(st, NONE)]
        if name == 'call_soon_threadsafe' and 'completions' in st.ghost and getattr(node, 'args', None) and isinstance(node.args[0], ast.Attribute) \
                and node.args[0].attr in ('set_result', 'set_exception') and isinstance(node.args[0].value, ast.Name) and node.args[0].value.id == 'result_future':
            s2 = st.fork()
            s2.ghost['loop_failed'] = lift(True)            # the event loop refused the callback (closed): outside the function's control
            st.ghost['completions'] = st.ghost['completions'] + 1
            if node.args[0].attr == 'set_result' and len(args) > 1:
                st.ghost['completed_with'] = args[1]
            return [(st, NONE), e.exc(s2, '<any>', node)]
        if 'completions' in st.ghost and isinstance(obj, VOpaque) and str(obj.t).split('!')[0] in ('item', 'r') \
                and name not in ('get_arity',):
            # a value computed FROM the evaluation result by some method (response.item(), response.tolist(), ...): not the result itself
            return [(st, VOpaque(hint='derived-from-result'))] + e.maybe_raise(st, name, node)
        if name == 'values':
            return [(st, VTuple(['values-of', obj]))]
        if name == 'connect' and 'connects' in st.ghost:
            st.ghost['connects'] = st.ghost['connects'] + 1
            s2 = st.fork()
            s2.trail.append('connect-fails')
            return [(st, VTuple([VOpaque(hint='reader', nonnull=True), VOpaque(hint='writer', nonnull=True)])),
                    (s2, Raised(VExc('KlongIPCCreateConnectionException', site=node.lineno))), e.exc(s2.fork(), '<any>', node)]
        return prev_om(e, obj, name, args, kwargs, st, node) if prev_om else None
    eng.hooks['opaque_method'] = opaque_method

    prev_m = eng.hooks.get('method')

    def method(e, o, m, args, kwargs, st, node):
        if isinstance(o, VTuple) and o.items and o.items[0] == 'cfuture' and m == 'result':
            return [(st, o.items[1])]
        return prev_m(e, o, m, args, kwargs, st, node) if prev_m else None
    eng.hooks['method'] = method
    eng.module_names |= {'uuid', 'asyncio', 'traceback', 'logging'}
    eng.class_typed_attrs = {'sym', 'params', 'key', 'value'}       # command objects: readable only on the command classes that define them
    eng.stable_opaque_attrs |= {'set_result', 'set_exception', '_context', '__traceback__'}
    eng.reg.externals['traceback.print_exception'] = lambda e, st, a, k, n: [(st, NONE)]
    eng.reg.externals['logging.error'] = lambda e, st, a, k, n: [(st, NONE)]

    def for_element(e, it, st, node):
        if isinstance(it, VTuple) and it.items and it.items[0] == 'values-of':
            d = it.items[1]
            k0 = z3.Const(fresh_name('key'), Obj)
            st.assume(has(st, d.t, k0))                       # an element exists only if the table is not empty
            return VOpaque(mem(st, d.t, k0), nonnull=True)
        return None
    eng.hooks['for_element'] = for_element

    def for_exit(e, it, st, node):
        if isinstance(it, VTuple) and it.items and it.items[0] == 'values-of':
            st.ghost['all_values_visited'] = lift(True)
    eng.hooks['for_exit'] = for_exit

    def await_hook(e, st, v, node):
        """interference: between suspension and resumption other tasks / threads may flip `running` and register calls"""
        if 'connects' in st.ghost and e.cur_key.endswith('NetworkClient._run'):
            nc = st.env.get('self')
            if isinstance(nc, VObj):
                st.setfield(nc, 'running', fresh(Bool, 'running'))
                pr = PR(st, nc)
                st.ghost['has'] = cm.VArr(z3.Store(st.ghost['has'].t, pr, z3.Const(fresh_name('pending_row'), z3.ArraySort(Obj, Bool))))
        return [(st, v)]
    eng.hooks['await'] = await_hook

    def call_opaque(e, fv, args, kwargs, st, node):
        s2 = st.fork()
        return [(st, VOpaque(hint='r'))] + [e.exc(s2, '<any>', node)]
    eng.hooks['call_opaque'] = call_opaque
