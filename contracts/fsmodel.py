"""Ghost three-level file model used by C16/C17/C18 (DESIGN.md section 3, "File model").

Per path three cells: Python buffer (in the open file object), OS cache (`os`), disk (`disk`).
  open(p,'wb')   truncates the OS-cache cell, creates the entry (OS view); the disk is not touched
  f.write(b)     appends to the file object's written bytes; an arbitrary *prefix* of what was written may already
                 have reached the OS cache (a buffered writer may flush when its buffer overflows) - nothing may be
                 assumed to have reached it before flush/close
  f.flush()/close  everything written reaches the OS cache
  os.fsync(fd)   copies the OS-cache cell (contents and existence) to the disk cell
  open(p,'rb').read() returns the OS-cache cell; raises if the path is absent or a directory
  os.makedirs(d) creates directory entries only; no file cell changes
Ghost cells (State.ghost): os, os_ex, disk, disk_ex : Array(String -> String / Bool);  dirs : Array(String -> Bool).
Paths: os.path.join / dirname are uninterpreted; join(root, .) is injective on normalised relative keys (assumption).
"""
import z3
from pyvc.values import *
from pyvc.state import Raised

# File keys and paths are values of uninterpreted sorts: only equality matters for them (no string theory in the
# quantified invariants; z3 decides the array/uninterpreted-sort fragment and finds counter-models in it).
FKey = z3.DeclareSort('FKey')
Path = z3.DeclareSort('Path')
VU.PYCLASS.update({'FKey': 'str', 'Path': 'str'})
StrArr = z3.ArraySort(Path, Str)
BoolArr = z3.ArraySort(Path, Bool)
JOIN = z3.Function('path_join', Str, FKey, Path)
DIRNAME = z3.Function('path_dirname', Path, Path)
CELLS = ('os', 'os_ex', 'disk', 'disk_ex')


class VArr(V):
    """ghost array value"""
    def __init__(self, t):
        self.t = t

    def __getitem__(self, k): return lift(z3.Select(self.t, lift(k).t))
    def store(self, k, v): return VArr(z3.Store(self.t, lift(k).t, lift(v).t))
    def __eq__(s, o): return VBool(s.t == o.t)
    def __ne__(s, o): return VBool(s.t != o.t)
    __hash__ = object.__hash__
    def __repr__(self): return f"VArr({self.t.decl().name() if z3.is_const(self.t) else '...'})"


def init_fs(st, tag='0'):
    st.ghost['os'] = VArr(z3.Const('os' + tag, StrArr))
    st.ghost['os_ex'] = VArr(z3.Const('os_ex' + tag, BoolArr))
    st.ghost['disk'] = VArr(z3.Const('disk' + tag, StrArr))
    st.ghost['disk_ex'] = VArr(z3.Const('disk_ex' + tag, BoolArr))
    st.ghost['dirs'] = VArr(z3.Const('dirs' + tag, BoolArr))
    st.ghost['fs_ops'] = lift(0)


def path_axioms():
    a, b, r = z3.Consts('a!p b!p r!p', Str)
    return []     # injectivity of join on normalised keys is a stated assumption; no obligation needs it as an SMT axiom


def m_join(eng, st, args, kwargs, node):
    if len(args) != 2 or not (isinstance(args[0], VStr) and isinstance(args[1], VU) and args[1].t.sort() == FKey):
        raise Refuse("os.path.join of something other than (root string, file key)")
    return [(st, VU(JOIN(args[0].t, args[1].t)))]


def m_dirname(eng, st, args, kwargs, node):
    return [(st, VU(DIRNAME(args[0].t)))]


def m_makedirs(eng, st, args, kwargs, node):
    # creates directory entries only; fails only when the directory cannot exist (a component is a file), in which case
    # no file lives directly in it
    s2 = st.fork()
    q = z3.Const('q!mk', Path)
    s2.assume(z3.ForAll([q], z3.Implies(DIRNAME(q) == args[0].t, z3.Not(z3.Select(s2.ghost['os_ex'].t, q))), patterns=[DIRNAME(q)]))
    st.ghost['dirs'] = VArr(z3.Const(fresh_name('dirs'), BoolArr))
    st.assume(z3.Select(st.ghost['dirs'].t, args[0].t))
    st.ghost['fs_ops'] = st.ghost['fs_ops'] + 1
    return [(st, NONE), eng.exc(s2, 'OSError', node)]


def m_open(eng, st, args, kwargs, node):
    path = args[0]
    mode = args[1] if len(args) > 1 else kwargs.get('mode', lift('r'))
    if not (isinstance(mode, VStr) and z3.is_string_value(mode.t)):
        raise Refuse("open with a symbolic mode")
    mode = mode.t.as_string()
    outs = []
    s_err = st.fork()
    # open fails exactly when the path is a directory or its parent directory does not exist (wb) / is not a readable file (rb);
    # spurious IO errors are outside the model
    if mode == 'wb':
        s_nodir = st.fork()
        s_nodir.assume(z3.Not(z3.Select(st.ghost['dirs'].t, DIRNAME(path.t))))      # no parent directory: nothing is created
        outs.append(eng.exc(s_nodir, 'FileNotFoundError', node))
        s_err.assume(z3.Select(st.ghost['dirs'].t, path.t))
        s_err.assume(z3.Not(z3.Select(st.ghost['os_ex'].t, path.t)))      # a path is not both a directory and a file
        outs.append(eng.exc(s_err, 'IsADirectoryError', node))
    else:
        s_err.assume(z3.Not(z3.Select(st.ghost['os_ex'].t, path.t)))
        s_err2 = s_err.fork()
        s_err.assume(z3.Select(st.ghost['dirs'].t, path.t))
        outs.append(eng.exc(s_err, 'IsADirectoryError', node))
        s_err2.assume(z3.Not(z3.Select(st.ghost['dirs'].t, path.t)))
        outs.append(eng.exc(s_err2, 'FileNotFoundError', node))
    if mode == 'wb':
        isdir = z3.Select(st.ghost['dirs'].t, path.t)
        st.assume(z3.Not(isdir))                            # opening a directory for writing fails (the IsADirectoryError outcome)
        st.assume(z3.Select(st.ghost['dirs'].t, DIRNAME(path.t)))      # the parent directory exists (else: the FileNotFoundError outcome)
        st.ghost['os'] = st.ghost['os'].store(path, "")
        st.ghost['os_ex'] = st.ghost['os_ex'].store(path, True)
        st.ghost['fs_ops'] = st.ghost['fs_ops'] + 1
        f = st.alloc('File', {'__path': path, '__written': lift(""), '__flushed': lift(0), '__mode': lift('wb'), '__open': lift(True)})
        outs.insert(0, (st, f))
    elif mode == 'rb':
        ex = z3.Select(st.ghost['os_ex'].t, path.t)
        st.assume(ex)                                        # absent path / directory: the OSError outcome (FileNotFoundError, IsADirectoryError)
        f = st.alloc('File', {'__path': path, '__written': lift(""), '__flushed': lift(0), '__mode': lift('rb'), '__open': lift(True)})
        outs.insert(0, (st, f))
    else:
        raise Refuse(f"open mode {mode!r} not modelled")
    return outs


def _sync_os_cell(st, f):
    """os[path] := written[:flushed]"""
    w, n = st.field(f, '__written'), st.field(f, '__flushed')
    st.ghost['os'] = st.ghost['os'].store(st.field(f, '__path'), VStr(z3.SubString(w.t, 0, n.t)))


def file_method(eng, o, m, args, kwargs, st, node):
    if not (isinstance(o, VObj) and o.cls == 'File'):
        return None
    if m == 'write':
        data = args[0]
        if not isinstance(data, VStr):
            raise Refuse("write of non-bytes")
        w = VStr(z3.Concat(st.field(o, '__written').t, data.t))
        st.setfield(o, '__written', w)
        n = fresh(Int, 'flushed')                            # a buffered writer may have pushed any prefix to the OS
        st.assume(z3.And(n.t >= st.field(o, '__flushed').t, n.t <= z3.Length(w.t)))
        st.setfield(o, '__flushed', n)
        _sync_os_cell(st, o)
        st.ghost['fs_ops'] = st.ghost['fs_ops'] + 1
        return [(st, len_(data))]
    if m == 'flush':
        st.setfield(o, '__flushed', len_(st.field(o, '__written')))
        _sync_os_cell(st, o)
        st.ghost['fs_ops'] = st.ghost['fs_ops'] + 1
        return [(st, NONE)]
    if m == 'fileno':
        return [(st, o)]                                     # the descriptor is identified with the file object
    if m == 'read':
        return [(st, st.ghost['os'][st.field(o, '__path')])]
    if m == 'close':
        return _close(eng, st, o)
    raise Refuse(f"file method {m} not modelled")


def _close(eng, st, o):
    if z3.is_string_value(st.field(o, '__mode').t) and st.field(o, '__mode').t.as_string() == 'wb':
        st.setfield(o, '__flushed', len_(st.field(o, '__written')))
        _sync_os_cell(st, o)
        st.ghost['fs_ops'] = st.ghost['fs_ops'] + 1
    st.setfield(o, '__open', False)
    return [(st, NONE)]


def m_fsync(eng, st, args, kwargs, node):
    f = args[0]
    if not (isinstance(f, VObj) and f.cls == 'File'):
        raise Refuse("os.fsync of something that is not a modelled descriptor")
    p = st.field(f, '__path')
    st.ghost['disk'] = st.ghost['disk'].store(p, st.ghost['os'][p])
    st.ghost['disk_ex'] = st.ghost['disk_ex'].store(p, st.ghost['os_ex'][p])
    st.ghost['fs_ops'] = st.ghost['fs_ops'] + 1
    return [(st, NONE)]


def with_file():
    def enter(eng, st, cm, node):
        return [(st, cm)]

    def exit_(eng, st, cm, node, kind, pl):
        return _close(eng, st, cm)
    return enter, exit_


def m_exists(eng, st, args, kwargs, node):
    p = args[0]
    return [(st, VBool(z3.Or(z3.Select(st.ghost['os_ex'].t, p.t), z3.Select(st.ghost['dirs'].t, p.t))))]


def m_getsize(eng, st, args, kwargs, node):
    p = args[0]
    n = VInt(z3.If(z3.Select(st.ghost['os_ex'].t, p.t), z3.Length(z3.Select(st.ghost['os'].t, p.t)), z3.Const(fresh_name('dirsize'), Int)))
    st.assume(n >= 0)
    outs = []
    # a path that names neither a file nor a directory: os.stat fails - with FileNotFoundError, but also with NotADirectoryError (a
    # component of the path is a file) or another OSError (a name longer than the file system allows); os.path.exists swallows all
    # of them and answers False, getsize does not (no concurrent deletion: single client)
    for s2, there in eng.branch(st, z3.Or(z3.Select(st.ghost['os_ex'].t, p.t), z3.Select(st.ghost['dirs'].t, p.t)), 'getsize:exists'):
        if there:
            outs.append((s2, n))
        else:
            for cls in ('FileNotFoundError', 'NotADirectoryError', 'OSError'):
                outs.append(eng.exc(s2.fork(), cls, node))
    return outs


def externals():
    return {'os.path.join': m_join, 'os.path.dirname': m_dirname, 'os.makedirs': m_makedirs, 'open': m_open, 'os.fsync': m_fsync,
            'os.path.exists': m_exists, 'os.path.getsize': m_getsize}


def others_untouched(st0, st, path):
    """every cell of every path other than `path` is what it was in st0 (extensional array equality)"""
    parts = []
    for c in CELLS:
        a0, a1 = st0.ghost[c].t, st.ghost[c].t
        if a0 is a1 or a0.eq(a1):
            continue
        parts.append(a1 == z3.Store(a0, path.t, z3.Select(a1, path.t)))
    return VBool(z3.And(*parts)) if parts else VBool(True)
