"""C15 - timers tick once per interval until stopped, and stop for good.

Ghost state (fields prefixed __ on the real objects' symbolic images):
  timer.__stopped  monotone: cancel() cleared the delegate / the timer was stopped for good
  timer.__nlive    number of live (scheduled, un-cancelled, un-fired) loop handles whose argument is this timer
  timer.__cb       the callback given to _call_periodic
  handle.__live / __when / __timer / __fn   state of an asyncio loop handle
Representation invariant at rest  RI(T):  (T.delegate is None <=> T.__stopped) and T.__nlive == (0 if stopped else 1)
  and, when not stopped, T.delegate is the live handle, its argument is T, its callback is `run`.
Floats are treated as reals; the asyncio loop contract (section 3 of DESIGN.md) is assumed.
"""
import z3
from pyvc.values import *
from pyvc.state import Raised
from pyvc.contracts import loop

K = 'klongpy/sys_fn_timer.py::'


# ------------------------------------------------------------------ ghost object builders
def mk_handle(st, timer, live, when=None, fn=None, n=None):
    return st.alloc('Handle', {'__live': lift(live), '__when': when if when is not None else fresh(Real, 'when'),
                               '__timer': timer if timer is not None else NONE, '__fn': fn if fn is not None else NONE,
                               '__n': n if n is not None else NONE}, fresh=False)      # __n: the extra argument scheduled for run(handle, n)


def mk_timer(st, delegate, stopped, nlive, interval=None):
    return st.alloc('KGTimerHandler', {'name': VOpaque(hint='name'), 'interval': interval if interval is not None else fresh(Int, 'interval'),
                                       'delegate': delegate, '__stopped': lift(stopped), '__nlive': lift(nlive),
                                       '__cb': VOpaque(hint='cb')}, fresh=False)


def fld(s, o, f): return s.st.field(o, f)
def fld0(s, o, f): return s.old.field(o, f)


def RI_weak(st, T):
    """what cancel() needs; also valid inside a tick"""
    d = st.field(T, 'delegate')
    stopped, nl = st.field(T, '__stopped'), st.field(T, '__nlive')
    parts = [is_none(d) == stopped, nl >= 0, nl <= 1, Implies(stopped, nl == 0)]
    if isinstance(d, VObj):
        parts.append(nl == If(st.field(d, '__live'), 1, 0))
    else:
        parts.append(nl == 0)
    return And(*parts)


def RI_rest(st, T):
    d = st.field(T, 'delegate')
    stopped, nl = st.field(T, '__stopped'), st.field(T, '__nlive')
    parts = [is_none(d) == stopped, nl == If(stopped, 0, 1)]
    if isinstance(d, VObj):
        parts += [Implies(Not(stopped), st.field(d, '__live')), same(st.field(d, '__timer'), T)]
    return And(*parts)


# ------------------------------------------------------------------ assumed contract of the asyncio loop
def loop_time(eng, st, args, kwargs, node):
    now = fresh(Real, 'now')
    st.assume(now >= st.ghost['now'])          # monotone clock
    st.ghost['now'] = now
    return [(st, now)]


def _schedule(st, when, fn, arg, n=None):
    h = mk_handle(st, arg, True, when, fn, n)
    st.fresh_objs.add(h.oid)
    if isinstance(arg, VObj) and arg.cls == 'KGTimerHandler':
        st.setfield(arg, '__nlive', st.field(arg, '__nlive') + 1)
    st.ghost['scheduled'] = st.ghost.get('scheduled', lift(0)) + 1
    return h


def loop_call_soon(eng, st, args, kwargs, node):
    return [(st, _schedule(st, st.ghost['now'], args[0], args[1], args[2] if len(args) > 2 else None))]


def loop_call_later(eng, st, args, kwargs, node):
    delay = args[0]
    if not isinstance(delay, (VInt, VReal)):
        raise Refuse("call_later delay is not numeric")
    # assumption: no time passes between evaluating the delay and call_later reading the clock
    return [(st, _schedule(st, st.ghost['now'] + delay, args[1], args[2], args[3] if len(args) > 3 else None))]


def handle_cancelled(eng, st, args, kwargs, node):
    """self.delegate.cancelled(): asyncio.Handle.cancelled - true only for a handle that was cancelled; a live handle is not"""
    T = st.env['self']
    d = st.field(T, 'delegate')
    if not isinstance(d, VObj):
        return [eng.exc(st, 'AttributeError', node)]
    c = fresh(Bool, 'cancelled')
    st.assume(Implies(st.field(d, '__live'), Not(c)))
    return [(st, c)]


def loop_call_at(eng, st, args, kwargs, node):
    return [(st, _schedule(st, args[0], args[1], args[2], args[3] if len(args) > 3 else None))]


def handle_cancel(eng, st, args, kwargs, node):
    """self.delegate.cancel(): cancelling a live handle removes it; a fired/cancelled one is unaffected"""
    T = st.env['self']
    d = st.field(T, 'delegate')
    if not isinstance(d, VObj):
        return [eng.exc(st, 'AttributeError', node)]
    live = st.field(d, '__live')
    st.setfield(T, '__nlive', st.field(T, '__nlive') - If(live, 1, 0))
    st.setfield(d, '__live', False)
    return [(st, NONE)]


def callback_model(T):
    """the user callback: arbitrary code on the interpreter loop.  It may cancel this timer (through
    KGTimerHandler.cancel, whose contract gives the effect), cancel others, redefine callbacks, or raise.
    It cannot schedule `run` for this timer (run is private to _call_periodic)."""
    def model(eng, st, args, kwargs, node):
        outs = []
        for stops in (False, True):
            s = st.fork()
            if stops:
                d = s.field(T, 'delegate')
                if isinstance(d, VObj):
                    s.setfield(T, '__nlive', s.field(T, '__nlive') - If(s.field(d, '__live'), 1, 0))
                    s.setfield(d, '__live', False)
                s.setfield(T, 'delegate', NONE)
                s.setfield(T, '__stopped', True)
                s.trail.append('callback:cancelled-own-timer')
            else:
                s.trail.append('callback:left-timer-alone')
            s.ghost['calls'] = s.ghost['calls'] + 1
            # the callback takes time: the clock read after it may be later than any read taken before it
            later = fresh(Real, 'now_after_callback')
            s.assume(later >= s.ghost['now'])
            s.ghost['now'] = later
            r = VOpaque(hint='r')
            s.ghost['cb_ret'] = r                   # what the callback returned / whether it stopped its own timer: the tick's
            s.ghost['cb_stopped'] = lift(stops)     # postcondition says when the timer goes on
            outs.append((s, r))
            s2 = s.fork()
            outs.append(eng.exc(s2, '<any>', node))
        return outs
    return model


RUN_N = {'default': None}     # default of run's parameter `n` (the boundary index) in the current source; None: run has no such parameter


def _run_n_default(src):
    node = src.find(K + '_call_periodic.run')
    if node is None:
        return None
    a = node.args
    pos = a.posonlyargs + a.args
    for p, d in zip(pos[len(pos) - len(a.defaults):], a.defaults):
        if p.arg == 'n' and isinstance(d, __import__('ast').Constant) and isinstance(d.value, int):
            return d.value
    return None


def build(reg, src):
    RUN_N['default'] = _run_n_default(src)
    reg.assumptions += [
        "floats are treated as mathematical reals (loop.time(), interval arithmetic, % on a positive real divisor)",
        "asyncio loop contract: call_soon/call_later/call_at return a fresh live handle that fires at most once, not earlier than the loop's clock "
        "resolution before its time (BaseEventLoop._run_once: due when `when < time() + clock_resolution`; resolution < interval assumed), "
        "never after cancel(); loop.time() is monotone; callbacks run to completion one at a time (no overlap) - DESIGN section 3",
        "no time passes between evaluating call_later's delay argument and call_later reading the clock",
        "the callback can reach this timer only through KGTimerHandler.cancel (its contract is applied) and cannot schedule `run` itself",
        "a callback that raises ends the timer (exceptional postcondition of run: stopped, nothing scheduled, delegate cleared)",
        "per-tick re-resolution of a named Klong callback is KGFnWrapper.__call__ (under contract in C09); here: a Klong function is wrapped in KGFnWrapper",
    ]
    reg.externals.update({'loop.time': loop_time, 'loop.call_soon': loop_call_soon, 'loop.call_later': loop_call_later,
                          'loop.call_at': loop_call_at, 'self.delegate.cancel': handle_cancel, 'self.delegate.cancelled': handle_cancelled})

    # ---- KGTimerHandler.__init__
    def init_setup(eng, st):
        st.env['self'] = st.alloc('KGTimerHandler', {}, fresh=False)
    reg.fn(K + 'KGTimerHandler.__init__', params=dict(interval=Int), setup=init_setup, returns=None, raises=[],
           sets=lambda s, r: [(s.self, 'name', s.name), (s.self, 'interval', s.interval), (s.self, 'delegate', NONE)],
           modifies=lambda eng, st, s: [st.setfield(s.self, '__stopped', False), st.setfield(s.self, '__nlive', 0),
                                        st.setfield(s.self, '__cb', NONE)])

    # ---- cancel
    def cancel_case_none(eng, st):
        st.env['self'] = mk_timer(st, NONE, True, 0)

    def cancel_case_handle(eng, st):
        live = fresh(Bool, 'live')
        T = mk_timer(st, NONE, False, If(live, 1, 0))
        h = mk_handle(st, T, live)
        st.setfield(T, 'delegate', h)
        st.env['self'] = T

    reg.fn(K + 'KGTimerHandler.cancel', returns=Int, raises=[],
           cases=[('delegate-none', cancel_case_none), ('delegate-handle', cancel_case_handle)],
           requires=[lambda s: RI_weak(s.st, s.self)],
           ensures=[lambda s, r: r == If(fld0(s, s.self, '__stopped'), 0, 1),
                    lambda s, r: Or(r == 0, r == 1)],
           modifies=lambda eng, st, s: _cancel_frame(st, s.self),
           sets=lambda s, r: [(s.self, 'delegate', NONE), (s.self, '__stopped', True), (s.self, '__nlive', 0)])

    # ---- run (closure of _call_periodic): one tick
    def run_setup(eng, st):
        st.ghost['now'] = fresh(Real, 'now0')
        st.ghost['calls'] = lift(0)
        st.ghost['scheduled'] = lift(0)
        T = mk_timer(st, NONE, False, 0, interval=st.env['interval'])
        iv, start = st.env['interval'], st.env['start']
        # the handle that fired: scheduled for the boundary start + m*interval (m >= 1: every scheduling of `run` is at a boundary -
        # the postconditions of _call_periodic and of run say so); with interval 0 it was scheduled "soon" (not after now)
        m = fresh(Int, 'm')
        when0 = fresh(Real, 'when0')
        st.assume(m >= 1)
        st.assume(Implies(iv > 0, when0 == start + m * iv))
        fired = mk_handle(st, T, False, when=when0, n=m)
        st.setfield(T, 'delegate', fired)
        st.env['handle'] = T
        st.env['fn'] = VFunc('callback', model=callback_model(T))
        st.env['loop'] = st.alloc('Loop', {}, fresh=False)
        st.env['run'] = VFunc('run', key=None, model=lambda *a: (_ for _ in ()).throw(Refuse("run called directly")))
        st.env['__fired'] = fired
        st.env['__k'] = fresh(Int, 'k')
        st.env['__m'] = m
        if RUN_N['default'] is not None:
            st.env['n'] = m            # run(handle, n): the scheduling sites pass the boundary index (their postconditions: __n)
        # asyncio dispatches a timer when `when < time() + clock_resolution`: up to the resolution BEFORE its deadline
        res = fresh(Real, 'clock_resolution')
        st.assume(And(res >= 0, Implies(iv > 0, res < iv)))
        st.assume(st.ghost['now'] >= st.env['start'])
        st.assume(Implies(iv > 0, st.ghost['now'] > when0 - res))
        st.assume(Implies(iv == 0, st.ghost['now'] >= when0))

    def run_post(s, r):
        T = s.handle
        st = s.st
        d = st.field(T, 'delegate')
        parts = [RI_rest(st, T), s.g('calls') == 1]     # the callback was invoked exactly once in this tick
        stopped = st.field(T, '__stopped')
        parts.append(s.g('scheduled') == If(stopped, 0, 1))
        # the timer goes on exactly when the callback returned true (Python truth of the value, as `if r`) and did not stop it
        r_ = s.g('cb_ret')
        parts.append(stopped == Or(s.g('cb_stopped'), Not(And(r_.pred('truth'), Not(r_.pred('isnone'))))))
        if isinstance(d, VObj) and d is not s._cur['__fired']:
            when = st.field(d, '__when')
            now = s.g('now')
            iv = s.interval
            # the next boundary after the one served (m) and strictly after now: when - start = (max(m, k) + 1)*interval where
            # k = floor((now-start)/interval) is the skolem constant defined by the post_hint below (independent of how the code
            # computes it): never twice for one boundary (> m), not in the past, no boundary skipped that was not missed
            k, m = s._cur['__k'], s._cur['__m']
            j = If(m >= k, m, k) + 1
            parts.append(Implies(iv > 0, And(when - s.start == j * iv, when > now)))
            parts.append(Implies(iv == 0, when == now))
            parts.append(same(st.field(d, '__fn'), s._cur['run']))
            if RUN_N['default'] is not None:
                nn = st.field(d, '__n')
                parts.append(Implies(iv > 0, (nn if isinstance(nn, VInt) else lift(RUN_N['default'])) == j))
        return And(*parts)

    reg.fn(K + '_call_periodic.run', params=dict(interval=Int, start=Real), setup=run_setup, returns=None,
           requires=[lambda s: s.interval >= 0],
           post_hints=[lambda s, r: Implies(s.interval > 0, And(s._cur['__k'] * s.interval <= s.g('now') - s.start,
                                                              s.g('now') - s.start < (s._cur['__k'] + 1) * s.interval))],
           ensures=[run_post],
           # a tick whose callback raises ends the timer: nothing stays scheduled AND the timer knows it (a later .timerc must
           # return 0 - "1 exactly when it stopped a live timer")
           ensures_exc=[lambda s, e: And(RI_rest(s.st, s.handle), s.st.field(s.handle, '__stopped'), s.g('scheduled') == 0)])

    # ---- _call_periodic
    def cp_setup(eng, st):
        st.ghost['now'] = fresh(Real, 'now0')
        st.ghost['scheduled'] = lift(0)
        st.env['loop'] = st.alloc('Loop', {}, fresh=False)
        st.env['callback'] = VOpaque(hint='callback')

    def cp_post(s, r):
        st = s.st
        if not isinstance(r, VObj) or r.cls != 'KGTimerHandler':
            return VBool(False)
        d = st.field(r, 'delegate')
        if not isinstance(d, VObj):
            return VBool(False)
        if not s.has('start'):      # at call sites only the caller-visible part is assumed
            return And(RI_rest(st, r), Not(st.field(r, '__stopped')), st.field(r, 'interval') == s.interval)
        start = s._cur['start']
        nn = st.field(d, '__n')
        first = (nn if isinstance(nn, VInt) else lift(RUN_N['default'])) == 1 if RUN_N['default'] is not None else VBool(True)
        return And(RI_rest(st, r), Not(st.field(r, '__stopped')), st.field(d, '__live'), Implies(s.interval > 0, first),
                   If(s.interval == 0, st.field(d, '__when') == start, st.field(d, '__when') == start + s.interval),
                   same(st.field(d, '__fn'), s._cur['run']), s.g('scheduled') == 1,
                   st.field(r, 'interval') == s.interval)

    def cp_alloc_ret(eng, st, s):
        # at call sites: a fresh timer at rest
        T = mk_timer(st, NONE, False, 1, interval=s.interval)
        h = mk_handle(st, T, True)
        st.setfield(T, 'delegate', h)
        st.setfield(T, '__cb', s.callback)
        st.fresh_objs.add(T.oid)
        return T

    reg.fn(K + '_call_periodic', params=dict(interval=Int), setup=cp_setup, requires=[lambda s: s.interval >= 0],
           ensures=[cp_post], alloc_ret=cp_alloc_ret, raises=[])

    # ---- .timer / .timerc
    def timer_post(s, r):
        # validation: a timer is returned only for a non-negative interval and a function that is not a call;
        # a Klong function is wrapped (KGFnWrapper) so that it is re-resolved at every tick
        if isinstance(r, VObj) and r.cls == 'KGTimerHandler':
            cb = s.st.field(r, '__cb')
            z = s.z0
            wrapped = VBool(z3.Function('wrapped', Obj, Obj)(cb.t) == z.t) if isinstance(cb, VOpaque) else VBool(False)
            return And(RI_rest(s.st, r), s.st.field(r, 'interval') >= 0,
                       Not(z.pred('isinst:KGCall')),
                       Implies(z.pred('isinst:KGFn'), And(cb.pred('isinst:KGFnWrapper') if isinstance(cb, VOpaque) else VBool(False), wrapped)),
                       Implies(Not(z.pred('isinst:KGFn')), And(same(cb, z), z.pred('callable'))))
        return VBool(isinstance(r, VStr))       # otherwise an error message

    reg.fn(K + 'eval_sys_fn_timer', ensures=[timer_post])

    def tc_case_timer_none(eng, st):
        st.env['x'] = mk_timer(st, NONE, True, 0)

    def tc_case_timer_handle(eng, st):
        live = fresh(Bool, 'live')
        T = mk_timer(st, NONE, False, If(live, 1, 0))
        st.setfield(T, 'delegate', mk_handle(st, T, live))
        st.env['x'] = T

    def tc_case_other(eng, st):
        x = VOpaque(hint='x')
        st.assume(Not(x.pred('isinst:KGTimerHandler')))
        st.env['x'] = x

    def tc_post(s, r):
        x = s.x0
        if isinstance(x, VObj):
            return And(r == If(fld0(s, x, '__stopped'), 0, 1), fld(s, x, '__stopped'), is_none(fld(s, x, 'delegate')),
                       fld(s, x, '__nlive') == 0)
        return r == 0

    reg.fn(K + 'eval_sys_fn_cancel_timer', requires=[lambda s: RI_weak(s.st, s.x) if isinstance(s.x, VObj) else VBool(True)],
           cases=[('timer-stopped', tc_case_timer_none), ('timer-live', tc_case_timer_handle), ('not-a-timer', tc_case_other)],
           ensures=[tc_post], raises=[])

    # the timer wraps a Klong callback in KGFnWrapper(klong, fn) WITHOUT a name: "the callback's current definition is used at every tick"
    # rests on the wrapper resolving the name when it is made (contracts/c09.py) - re-verified here, not assumed
    def wrapper_resolves_at_construction(ctx):
        from pyvc.subverify import subverify
        from contracts import c09
        import replay.c09 as rp9
        rows, eng2 = subverify(src, 'C15', c09, ['klongpy/types.py::KGFnWrapper.__init__'], replay=rp9.replay_wrapper,
                               why='KGFnWrapper stores the name the function is bound to at construction')
        ctx['eng'].verified['klongpy/types.py::KGFnWrapper.__init__'] = dict(sha=src.sha(src.find('klongpy/types.py::KGFnWrapper.__init__')), backend='z3 (contract of contracts/c09.py)')
        return rows
    wrapper_resolves_at_construction.__name__ = 'wrapper-resolves-at-construction'
    reg.extra_checks.append(wrapper_resolves_at_construction)

    from replay import c15 as rp
    reg.replays.append((r'_call_periodic\.run#post|KGTimerHandler\.cancel', rp.replay_run_self_cancel))
    reg.replays.append((r'.', rp.replay_timer_generic))


def _cancel_frame(st, T):
    d = st.field(T, 'delegate')
    if isinstance(d, VObj):
        st.setfield(d, '__live', False)


REGIONS = {}


def configure(eng):
    eng.opaque_classes |= {'KGFnWrapper'}

    def new_wrapper(eng_, args, kwargs, st, node):
        o = eng_.mk_opaque_instance('KGFnWrapper', st)
        if len(args) >= 2:
            st.assume(VBool(z3.Function('wrapped', Obj, Obj)(o.t) == eng_.as_obj(args[1])))
        return [(st, o)]
    eng.hooks['new:KGFnWrapper'] = new_wrapper

    def on_store(eng_, o, attr, v, st, node):
        # ghost update event: the store `self.delegate = None` inside KGTimerHandler.cancel stops the timer for good
        if o.cls == 'KGTimerHandler' and attr == 'delegate' and isinstance(v, VNoneT) and eng_.cur_key.endswith('KGTimerHandler.cancel'):
            st.setfield(o, '__stopped', True)
    eng.hooks['on_store'] = on_store
