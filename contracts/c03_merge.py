"""C03 (projection flattening): `merge_projections` and `has_none` of klongpy/types.py under contract - an unbounded proof that replaces
the bounded stand-in as the deciding step (the bounded enumeration stays as the cross-check of the three spec renderings).

Property sentence: "a projection fills the holes left to right at every step; a None argument leaves its hole open".

Spec functions over the ENTRY value `arr` (a list of argument lists, arr[0] the oldest), positional, defined by recursion on the step
number k >= 1 and the position p >= 0:

    FP(1, p)   = arr[0][p]
    FP(k+1, p) = FP(k, p)                 if FP(k, p) is not a hole
               = arr[k][H(k, p)]          if it is a hole and H(k, p) < len(arr[k])     (the H(k,p)-th argument of step k)
               = FP(k, p)                 otherwise (the step ran out of arguments: the hole stays open)
    H(k, 0)    = 0
    H(k, p+1)  = H(k, p) + (1 if FP(k, p) is a hole else 0)        (open holes left of p before step k)

Contract of the real function, for every arr with len(arr) >= 1 whose members are lists (no bound on lengths or on the number of steps):

    ensures  len(ret) == len(arr[0])  and  for all 0 <= p < len(arr[0]):  ret[p] is FP(len(arr), p)

Loop contracts: outer `while k < len(arr)` - sparse_fa[p] is FP(k, p) for every p; inner `while i < len(sparse_fa) and j < len(fa)` -
j == H(k, i), positions left of i hold FP(k+1, .), positions from i on still hold FP(k, .).  Variants len(arr)-k and len(sparse_fa)-i.
The two inductive facts the solver needs are proved in Lean on every run (lean/Holes.lean): `count_mono` (H(k, .) is monotone - so once
the step's arguments are used up every later hole stays open) and `filled_stays` (an entry filled at step 1 is the same at every step -
the early return `not has_none(arr[0])`).  The definitional equations are quantified axioms with E-matching patterns.

The local list `sparse_fa` is the only mutable sequence: `list(x)` yields a fresh list owned by the one local name it is bound to; an
item store through that name rebinds the name to a sequence that agrees everywhere else (index proved in range first). A store through
anything else - a parameter, an alias - is refused (UNDECIDED), never modelled.
"""
import ast

import z3

from pyvc.contracts import loop
from pyvc.values import *

T = 'klongpy/types.py::'
SeqObj = z3.SeqSort(Obj)
SeqSeq = z3.SeqSort(SeqObj)
ISN = z3.Function('p:isnone', Obj, z3.BoolSort())
FP = z3.Function('merge:FP', z3.IntSort(), z3.IntSort(), Obj)
H = z3.Function('merge:H', z3.IntSort(), z3.IntSort(), z3.IntSort())
ARR = z3.Const('arr', SeqSeq)
EL = z3.Function('merge:el', SeqObj, z3.IntSort(), Obj)     # EL(S, p) is S[p]: a name for seq.nth that E-matching can see (z3 rewrites nth internally)


class OwnedSeq(VSeq):
    """a list created by list(): a fresh object bound to one local name"""
    owned = True


def spec_axioms():
    k, p, q = z3.Ints('k!m p!m q!m')
    n0 = z3.Length(ARR[0])
    ax = []
    ax.append(z3.ForAll([p], FP(1, p) == EL(ARR[0], p), patterns=[FP(1, p)]))
    step = z3.If(z3.Not(ISN(FP(k, p))), FP(k, p), z3.If(H(k, p) < z3.Length(ARR[k]), EL(ARR[k], H(k, p)), FP(k, p)))
    ax.append(z3.ForAll([k, p], z3.Implies(k >= 1, FP(k + 1, p) == step), patterns=[FP(k + 1, p)]))
    ax.append(z3.ForAll([k], H(k, 0) == 0, patterns=[H(k, 0)]))
    ax.append(z3.ForAll([k, p], z3.Implies(p >= 0, H(k, p + 1) == H(k, p) + z3.If(ISN(FP(k, p)), 1, 0)), patterns=[H(k, p + 1)]))
    # lean/Holes.lean::count_mono  (instantiated for c = H(k, .), hole p = ISN(FP(k, p)))
    ax.append(z3.ForAll([k, p, q], z3.Implies(z3.And(0 <= p, p <= q), H(k, p) <= H(k, q)), patterns=[z3.MultiPattern(H(k, p), H(k, q))]))
    ax.append(z3.ForAll([k, p], z3.Implies(p >= 0, H(k, p) >= 0), patterns=[H(k, p)]))     # count_mono with p := 0 and H(k,0) = 0
    # lean/Holes.lean::filled_stays  (f = FP(., p) shifted by one, hole = ISN; its `step` hypothesis is the first case of FP(k+1, p))
    ax.append(z3.ForAll([k, p], z3.Implies(z3.And(k >= 1, z3.Not(ISN(FP(1, p)))), FP(k, p) == FP(1, p)), patterns=[FP(k, p)]))
    return ax, n0


def owned_list(hint):
    return OwnedSeq(z3.Const(fresh_name(hint), SeqObj))


def build(reg, src):
    ax, n0 = spec_axioms()

    def setup(eng, st):
        st.env['arr'] = VSeq(ARR)
        for a in ax:
            st.assume(a)

    def pointwise(seq, k, lo, hi):
        p = z3.Const(fresh_name('p'), z3.IntSort())
        return z3.ForAll([p], z3.Implies(z3.And(lo <= p, p < hi), EL(seq, p) == FP(k, p)), patterns=[EL(seq, p), FP(k, p)])

    def post(s, r):
        n = z3.Length(ARR)
        if not isinstance(r, VSeq):
            return VBool(False)
        if r.t.sort() == SeqSeq:          # `return arr` of the empty list of argument lists
            return VBool(z3.And(n == 0, r.t == ARR))
        return VBool(z3.And(n >= 1, z3.Length(r.t) == n0, pointwise(r.t, n, 0, n0)))

    def outer_range(s):
        sp, k = s.sparse_fa.t, s.k.t
        return VBool(z3.And(1 <= k, k <= z3.Length(ARR), z3.Length(sp) == n0))
    def outer_inv(s):
        sp, k = s.sparse_fa.t, s.k.t
        return VBool(pointwise(sp, k, 0, n0))

    def iv(s): return s.sparse_fa.t, s.k.t, s.i.t, s.j.t, s.fa.t
    def inner_range(s):
        sp, k, i, j, fa = iv(s)
        return VBool(z3.And(0 <= i, i <= n0, 0 <= j, j <= z3.Length(fa), z3.Length(sp) == n0))
    def inner_count(s):
        sp, k, i, j, fa = iv(s)
        return VBool(j == H(k, i))
    def inner_done(s):
        sp, k, i, j, fa = iv(s)
        return VBool(pointwise(sp, k + 1, 0, i))
    def inner_todo(s):
        sp, k, i, j, fa = iv(s)
        return VBool(pointwise(sp, k, i, n0))

    def members_are_lists(s):
        return VBool(z3.Length(ARR) >= 0)     # by sort: arr is a sequence of sequences (a member that is None: see the assumptions)

    reg.fn(T + 'merge_projections', setup=setup, returns='opaque', raises=[], requires=[members_are_lists], ensures=[post],
           loops={0: loop(invariant=[outer_range, outer_inv], variant=lambda s: VInt(z3.Length(ARR) - s.k.t), havoc=dict(sparse_fa=owned_list)),
                  1: loop(invariant=[inner_range, inner_count, inner_done, inner_todo], variant=lambda s: VInt(n0 - s.i.t), havoc=dict(sparse_fa=owned_list))})

    # has_none(a): true exactly when some member of the list a is None (False for anything that is not a list)
    A = z3.Const('a', SeqObj)

    def hn_setup(eng, st):
        st.env['a'] = VSeq(A)

    def hn_inv(s):
        p = z3.Const(fresh_name('p'), z3.IntSort())
        return VBool(z3.ForAll([p], z3.Implies(z3.And(0 <= p, p < s.g('__for_i').t), z3.Not(ISN(EL(A, p)))), patterns=[EL(A, p)]))

    def hn_call_post(s, r):
        a = s.a
        if not isinstance(a, VSeq) or a.t.sort() != SeqObj:
            return VBool(True)
        p = z3.Const(fresh_name('p'), z3.IntSort())
        return VBool(r.t == z3.Exists([p], z3.And(0 <= p, p < z3.Length(a.t), ISN(EL(a.t, p))), patterns=[EL(a.t, p)]))
    reg.fn(T + 'has_none', setup=hn_setup, returns=Bool, raises=[], ensures=[hn_call_post],
           loops={0: loop(invariant=[hn_inv], hints=[lambda s: VBool(EL(A, s.g('__for_i').t) == A[s.g('__for_i').t])])})

    reg.externals['list'] = list_model
    reg.assumptions += [
        "merge_projections / has_none: every member of `arr` is a list (the call site builds them with `x.args if isinstance(x.args, list) "
        "else [x.args]`; the one non-list member it can build, `[None]` for a call without argument list, takes the early return "
        "`not has_none(None)` and is not modelled)",
        "list(x) of a list is a new list with the same members; `sparse_fa[i] = v` changes position i of that list and nothing else "
        "(the list is local: created by list(), bound to one name, never aliased - checked syntactically at every store, a store through "
        "anything else is refused)",
        "spec renderings: FP/H (SMT, above), replay.c03.fill_pointwise (Python) and replay.c03.fill_spec (the reference wording) are paired "
        "by hand; the bounded enumeration of replay.c03.check_merge_projections compares all three with the real function on every run",
    ]
    from pyvc.leancheck import lean_check
    reg.extra_checks.append(lean_check('Holes.lean', ['count_mono', 'filled_stays']))


def list_model(eng, st, a, k, node):
    if len(a) == 1 and isinstance(a[0], VSeq):
        return [(st, OwnedSeq(a[0].t))]
    if not a:
        return [(st, VList([]))]
    raise Refuse(f"list() of {a[0]!r}")


def setitem(eng, obj, key, v, s, node):
    if not isinstance(obj, VSeq):
        return None
    tgt = node.targets[0] if isinstance(node, ast.Assign) and len(node.targets) == 1 else getattr(node, 'target', None)
    if not (isinstance(tgt, ast.Subscript) and isinstance(tgt.value, ast.Name)):
        raise Refuse("item store into a sequence that is not a plain local name")
    name = tgt.value.id
    if not getattr(obj, 'owned', False):
        raise Refuse(f"item store into `{name}`, which is not a list created by list() in this function (it may be the caller's list)")
    if sum(1 for x in s.env.values() if x is obj) != 1:
        raise Refuse(f"item store into `{name}` while another name is bound to the same list")
    if not isinstance(key, VInt):
        raise Refuse("item store with a non-integer index")
    i, old = key.t, obj.t
    if eng.feasible(s, z3.Not(z3.And(0 <= i, i < z3.Length(old)))):
        raise Refuse(f"item store into `{name}`: the index is not provably within 0..len-1")
    new = z3.Const(fresh_name(name), old.sort())
    p = z3.Const(fresh_name('p'), z3.IntSort())
    s.assume(z3.And(z3.Length(new) == z3.Length(old), EL(new, i) == eng.as_obj(v), new[i] == eng.as_obj(v),
                    z3.ForAll([p], z3.Implies(z3.And(0 <= p, p < z3.Length(old), p != i), EL(new, p) == EL(old, p)), patterns=[EL(new, p)])))
    s.env[name] = OwnedSeq(new)
    return True


def configure(eng):
    eng.hooks['setitem'] = setitem
    plain_index = eng.index

    def index(v, i, st, node):
        # a read S[i] of a list of values is named EL(S, i) (and stated equal to the sequence's own element)
        if isinstance(v, VSeq) and v.t.sort() == SeqObj and isinstance(i, VInt):
            L = z3.Length(v.t)
            outs = []
            for s2, ok in eng.branch(st, z3.And(i.t >= -L, i.t < L), f"index@{node.lineno}"):
                if ok:
                    j = i.t if eng.known(s2, i.t >= 0) else z3.If(i.t < 0, i.t + L, i.t)
                    s2.assume(EL(v.t, j) == v.t[j])
                    outs.append((s2, VOpaque(EL(v.t, j))))
                else:
                    outs.append(eng.exc(s2, 'IndexError', node))
            return outs
        return plain_index(v, i, st, node)
    eng.index = index
