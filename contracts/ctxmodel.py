"""Symbolic image of KlongContext (klongpy/interpreter.py) shared by C03 / C09 / C07.

  ctx._context        -> VSeq of scope references (Obj terms): the deque of scopes, innermost first
  ctx._min_ctx_count  -> Int
  scope contents      -> ghost `has : Obj scope -> (Obj key -> Bool)`, `mem : Obj scope -> (Obj key -> Obj value)`
  ghost `switched`    -> monotone: a .module switch (start_module / stop_module) happened; the documented exception
                         to stack preservation
Stack-preserving (the contract of eval / call / _eval_fn / __call__ and of every Python callable run in a call frame):
  on normal and exceptional exit   not switched' => (scopes' == scopes and min' == min)
  scope *contents* may change (assignments to globals are deliberate effects).
"""
import z3
from pyvc.values import *
from pyvc.state import Raised

A2B = z3.ArraySort(Obj, z3.ArraySort(Obj, Bool))
A2O = z3.ArraySort(Obj, z3.ArraySort(Obj, Obj))
OB = z3.ArraySort(Obj, Bool)
SeqObj = z3.SeqSort(Obj)
I = 'klongpy/interpreter.py::'
KC = I + 'KlongContext.'
KI = I + 'KlongInterpreter.'


class VArr(V):
    def __init__(self, t): self.t = t


def init_ghost(st):
    st.ghost['has'] = VArr(z3.Const('has0', A2B))
    st.ghost['mem'] = VArr(z3.Const('mem0', A2O))
    st.ghost['ro'] = VArr(z3.Const('ro0', OB))
    st.ghost['switched'] = lift(False)
    st.ghost['evals'] = lift(0)


def mk_context(st, name='ctx'):
    init_ghost(st)
    seq = VSeq(z3.Const('scopes0', SeqObj))
    c = st.alloc('KlongContext', {'_context': seq, '_min_ctx_count': fresh(Int, 'min_ctx'), '_strict_mode': fresh(Int, 'strict')}, fresh=False)
    return c


def mk_klong(st, name='self'):
    c = mk_context(st)
    k = st.alloc('KlongInterpreter', {'_context': c, '_backend': VOpaque(hint='backend', nonnull=True), '_vm': VOpaque(hint='vm'),
                                      '_vd': VOpaque(hint='vd'), '_module': VOpaque(hint='module'),
                                      '_compiled_cache': VOpaque(hint='ccache', nonnull=True), '_parse_cache': VOpaque(hint='pcache', nonnull=True)}, fresh=False)
    st.env[name] = k
    return k


def seq_of(st, c): return st.field(c, '_context').t
def min_of(st, c): return st.field(c, '_min_ctx_count').t


def ctx_inv(st, c):
    return VBool(z3.And(z3.Length(seq_of(st, c)) >= min_of(st, c), min_of(st, c) >= 0))


def stack_preserved(s, c):
    """not switched' => same scopes (same objects, same order) and same minimum as before"""
    st, old = s.st, s.old
    return VBool(z3.Implies(z3.Not(st.ghost['switched'].t),
                            z3.And(seq_of(st, c) == seq_of(old, c), min_of(st, c) == min_of(old, c))))


def monotone_switch(s):
    return VBool(z3.Implies(s.old.ghost['switched'].t, s.st.ghost['switched'].t))


def preserve_effect(st, c):
    """apply the stack-preserving effect summary to a state (used for callees under that contract and opaque callables):
    scope contents may change arbitrarily; the scope sequence changes only if a module switch occurred"""
    sw = fresh(Bool, 'switched')
    st.assume(z3.Implies(st.ghost['switched'].t, sw.t))
    old_seq, old_min = seq_of(st, c), min_of(st, c)
    nseq = z3.Const(fresh_name('scopes'), SeqObj)
    nmin = z3.Const(fresh_name('min_ctx'), Int)
    st.assume(z3.Implies(z3.Not(sw.t), z3.And(nseq == old_seq, nmin == old_min)))
    st.assume(z3.And(z3.Length(nseq) >= nmin, nmin >= 0))
    st.setfield(c, '_context', VSeq(nseq))
    st.setfield(c, '_min_ctx_count', VInt(nmin))
    st.ghost['switched'] = sw
    st.ghost['has'] = VArr(z3.Const(fresh_name('has'), A2B))
    st.ghost['mem'] = VArr(z3.Const(fresh_name('mem'), A2O))
    st.ghost['evals'] = st.ghost['evals'] + 1


def find_ctx(st):
    for oid, flds in st.heap.items():
        if '_min_ctx_count' in flds:
            return VObj('KlongContext', oid=oid)
    raise Refuse("no KlongContext in the state")


# ------------------------------------------------------------------ hooks: scopes are dictionaries
def configure(eng):
    def contains(e, a, b, st, node):
        if isinstance(b, VOpaque) and any(b is g for g in e.globals_v.values()):
            return z3.Function('p:in', Obj, Obj, Bool)(e.as_obj(a), b.t)       # immutable module-level constant
        if isinstance(b, VOpaque):
            return z3.Select(z3.Select(st.ghost['has'].t, b.t), e.as_obj(a))
        return None
    eng.hooks['contains'] = contains

    def setitem(e, obj, key, val, st, node):
        if isinstance(obj, VOpaque) and 'has' in st.ghost:
            k = e.as_obj(key)
            has, mem = st.ghost['has'].t, st.ghost['mem'].t
            st.ghost['has'] = VArr(z3.Store(has, obj.t, z3.Store(z3.Select(has, obj.t), k, True)))
            st.ghost['mem'] = VArr(z3.Store(mem, obj.t, z3.Store(z3.Select(mem, obj.t), k, e.as_obj(val))))
            st.ghost['stores'] = st.ghost.get('stores', lift(0)) + 1
            return True
        return None
    eng.hooks['setitem'] = setitem

    def delitem(e, obj, key, st, node):
        if isinstance(obj, VOpaque) and 'has' in st.ghost:
            k = e.as_obj(key)
            has = st.ghost['has'].t
            outs = []
            for s2, present in e.branch(st, z3.Select(z3.Select(has, obj.t), k), 'del'):
                if present:
                    h2 = s2.ghost['has'].t
                    s2.ghost['has'] = VArr(z3.Store(h2, obj.t, z3.Store(z3.Select(h2, obj.t), k, False)))
                    outs.append(('fall', s2, None))
                else:
                    outs.append(('raise', s2, VExc('KeyError', site=node.lineno)))
            return outs
        return None
    eng.hooks['delitem'] = delitem

    def index(e, obj, key, st, node):
        if isinstance(obj, VOpaque) and 'has' in st.ghost and not isinstance(key, VInt):
            k = e.as_obj(key)
            outs = []
            for s2, present in e.branch(st, z3.Select(z3.Select(st.ghost['has'].t, obj.t), k), 'getitem'):
                if present:
                    outs.append((s2, VOpaque(z3.Select(z3.Select(s2.ghost['mem'].t, obj.t), k))))
                else:
                    outs.append(e.exc(s2, 'KeyError', node))
            return outs
        return None
    eng.hooks['index'] = index

    def method(e, o, m, args, kwargs, st, node):
        if isinstance(o, VSeq) and m == 'appendleft':
            e.rebind(st, o, VSeq(z3.Concat(z3.Unit(e.as_obj(args[0])), o.t)))
            return [(st, NONE)]
        if isinstance(o, VSeq) and m == 'append':
            e.rebind(st, o, VSeq(z3.Concat(o.t, z3.Unit(e.as_obj(args[0])))))
            return [(st, NONE)]
        if isinstance(o, VSeq) and m == 'popleft':
            outs = []
            for s2, ne in e.branch(st, z3.Length(o.t) > 0, 'popleft'):
                if ne:
                    e.rebind(s2, o, VSeq(z3.SubSeq(o.t, 1, z3.Length(o.t) - 1)))
                    outs.append((s2, VOpaque(o.t[0])))
                else:
                    outs.append(e.exc(s2, 'IndexError', node))
            return outs
        return None
    eng.hooks['method'] = method

    def opaque_method(e, obj, name, args, kwargs, st, node):
        if isinstance(obj, VOpaque) and 'has' in st.ghost and name == 'clear' and 'cache_cleared' not in st.ghost:
            has = st.ghost['has'].t
            st.ghost['has'] = VArr(z3.Store(has, obj.t, z3.K(Obj, z3.BoolVal(False))))
            return [(st, NONE)]
        if isinstance(obj, VOpaque) and 'has' in st.ghost and name == 'pop' and len(args) == 1:
            k = e.as_obj(args[0])
            outs = []
            for s2, present in e.branch(st, z3.Select(z3.Select(st.ghost['has'].t, obj.t), k), 'dict.pop'):
                if present:
                    v = VOpaque(z3.Select(z3.Select(s2.ghost['mem'].t, obj.t), k), nonnull=True)
                    h2 = s2.ghost['has'].t
                    s2.ghost['has'] = VArr(z3.Store(h2, obj.t, z3.Store(z3.Select(h2, obj.t), k, False)))
                    outs.append((s2, v))
                else:
                    outs.append(e.exc(s2, 'KeyError', node))
            return outs
        if isinstance(obj, VOpaque) and 'has' in st.ghost and name == 'pop' and len(args) == 2:
            k = e.as_obj(args[0])
            outs = []
            for s2, present in e.branch(st, z3.Select(z3.Select(st.ghost['has'].t, obj.t), k), 'dict.pop'):
                if present:
                    v = VOpaque(z3.Select(z3.Select(s2.ghost['mem'].t, obj.t), k), nonnull=True)
                    h2 = s2.ghost['has'].t
                    s2.ghost['has'] = VArr(z3.Store(h2, obj.t, z3.Store(z3.Select(h2, obj.t), k, False)))
                    outs.append((s2, v))
                else:
                    outs.append((s2, args[1]))
            return outs
        if isinstance(obj, VOpaque) and 'has' in st.ghost and name in ('pop', 'popitem', 'update', 'setdefault'):
            raise Refuse(f"dict.{name} on a modelled dictionary is not interpreted")
        if name == 'get' and isinstance(obj, VOpaque) and 'has' in st.ghost and len(args) == 2:
            k = e.as_obj(args[0])
            has = z3.Select(z3.Select(st.ghost['has'].t, obj.t), k)
            val = z3.Select(z3.Select(st.ghost['mem'].t, obj.t), k)
            dflt = e.as_obj(args[1])
            if any(args[1] is c for c in e._class_consts.values()):
                st.assume(z3.Implies(has, val != dflt))      # a private sentinel object is never stored as a value
            return [(st, VOpaque(z3.If(has, val, dflt)))]
        return None
    eng.hooks['opaque_method'] = opaque_method

    def new_dict(e, st):
        d = VOpaque(hint='dict', nonnull=True)
        if 'has' in st.ghost:
            has = st.ghost['has'].t
            st.ghost['has'] = VArr(z3.Store(has, d.t, z3.K(Obj, z3.BoolVal(False))))
            st.ghost['fresh_dicts'] = st.ghost.get('fresh_dicts', lift(0)) + 1
        return d
    eng.hooks['new_dict'] = new_dict
    eng.opaque_methods |= {'get', 'keys', 'items', 'values', 'pop', 'popitem', 'setdefault'}
