"""C16 (table store): the merge on write - `PandasDataFrameCache.update` - under contract.

The stored table and the new table are abstract frames: `has(f,k)` (a row with index k exists), `first(f,k)` / `last(f,k)` (the first /
last row with index k in row order), `uniq(f)` (no index value twice), `srt(f)` (rows in index order).  pandas is an assumed contract:
    concat([a,b])            rows of a, then rows of b
    f.index.duplicated(keep) marks every occurrence of an index value except the first / last one; f[~mask] keeps the unmarked rows in order
    f.sort_index()           the same rows in index order; which of several rows with EQUAL index comes first is unspecified
                             (the default quicksort is not stable) unless kind='stable'/'mergesort'
Postcondition (the documented merge): the result has exactly the index values of the stored and the new table; for an index value of
the stored table the row is the STORED row ("existing rows win"), otherwise the first row of the new table with that index; the result
has no duplicate index and is sorted.  get_file / update_file enter as the abstract consequences of their C16 contracts (assumed link):
get_file returns the stored frame (unique, sorted - the invariant this function re-establishes) or raises FileNotFoundError; update_file
returns whether the write was applied.  The retry (`self.update(...)` when another writer intervened) uses the function's own contract.
Runs as its own small verification (separate registry/engine) inside the C16 check."""
import ast
import os
import re
import time
import z3

from pyvc import smt
from pyvc.contracts import Registry
from pyvc.engine import Engine
from pyvc.values import *

D = 'klongpy/db/df_cache.py::PandasDataFrameCache.'
HAS = z3.Function('frame:has', Obj, Int, Bool)
FIRST = z3.Function('frame:first', Obj, Int, Obj)
LAST = z3.Function('frame:last', Obj, Int, Obj)
UNIQ = z3.Function('frame:uniq', Obj, Bool)
SRT = z3.Function('frame:sorted', Obj, Bool)
kq = z3.Const('k!q', Int)


def uniq_fact(f):
    return z3.Implies(UNIQ(f), z3.ForAll([kq], FIRST(f, kq) == LAST(f, kq)))


def build(reg, src):
    def setup(eng, st):
        o = st.alloc('PandasDataFrameCache', dict(file_futures_lock=VOpaque(hint='lock', nonnull=True), append_locks=VOpaque(hint='locks', nonnull=True)),
                     hint='self', fresh=False)
        st.env['self'] = o
        st.env['file_name'] = VOpaque(hint='file_name', nonnull=True)
        st.env['new_df'] = VOpaque(hint='new_df', nonnull=True)
        st.ghost['found'] = VBool(z3.Const(fresh_name('found'), Bool))
        st.ghost['stored'] = VOpaque(hint='stored', nonnull=True)
        st.ghost['reads'] = lift(0)

    def merged(s, r):
        if not isinstance(r, VOpaque):
            return VBool(False)
        R, N = r.t, s._entry['new_df'].t
        found, S = s.g('found').t, s.g('stored').t
        return VBool(z3.And(UNIQ(R), SRT(R),
                            z3.ForAll([kq], z3.And(HAS(R, kq) == z3.Or(z3.And(found, HAS(S, kq)), HAS(N, kq)),
                                                   z3.Implies(HAS(R, kq), FIRST(R, kq) == z3.If(z3.And(found, HAS(S, kq)), FIRST(S, kq), FIRST(N, kq)))))))

    def havoc_seen(eng, st, s):
        st.ghost['found'] = VBool(z3.Const(fresh_name('found'), Bool))
        st.ghost['stored'] = VOpaque(hint='stored', nonnull=True)
    reg.fn(D + 'update', setup=setup, returns='opaque', ensures=[merged], modifies=havoc_seen, requires=[])

    # abstract get_file / update_file (consequences of the C16 contracts of FileCache; assumed link)
    def got(eng, st, s, r):
        st.ghost['found'] = VBool(z3.BoolVal(True))
        st.ghost['stored'] = r
        st.assume(z3.And(UNIQ(r.t), SRT(r.t), uniq_fact(r.t)))

    def missing(eng, st, s, e):
        st.ghost['found'] = VBool(z3.BoolVal(False))
    F = 'klongpy/db/file_cache.py::FileCache.'
    # FileNotFoundError: never set; IsADirectoryError: the key is a directory of the store (a prefix of a nested key) - never set either
    c = reg.fn(F + 'get_file', params=dict(file_name='opaque'), returns='nonnull', raises=['FileNotFoundError', 'IsADirectoryError', 'MemoryError'], verify=False)
    c.ghost_at_call = got
    c.ghost_at_raise = missing
    reg.fn(F + 'update_file', returns=Bool, raises=['MemoryError', 'OSError'], verify=False)
    # reading: a key that names no file reads as "no table" (the caller turns None into :undefined), it does not raise
    def gd_setup(eng, st):
        o = st.alloc('PandasDataFrameCache', dict(file_futures_lock=VOpaque(hint='lock', nonnull=True), append_locks=VOpaque(hint='locks', nonnull=True)),
                     hint='self', fresh=False)
        st.env['self'] = o
        st.env['file_name'] = VOpaque(hint='file_name', nonnull=True)
        for nm in ('range_start', 'range_end'):
            st.env[nm] = NONE
        st.env['range_type'] = lift('timestamp')
        st.env['default_empty'] = lift(False)
        st.ghost['found'] = VBool(z3.Const(fresh_name('found'), Bool))
        st.ghost['stored'] = VOpaque(hint='stored', nonnull=True)
        st.ghost['reads'] = lift(0)
    reg.fn(D + 'get_dataframe', setup=gd_setup, returns='opaque', raises=['MemoryError'],
           ensures=[lambda s, r: If(s.g('found'), same(r, s.g('stored')), is_none(r))])
    reg.externals['pd.DataFrame'] = lambda e, st, a, k, n: [(st, VOpaque(hint='empty-frame', nonnull=True))]
    reg.externals['serialize_df'] = lambda e, st, a, k, n: [(st, VOpaque(hint='bytes', nonnull=True))]
    reg.externals['threading.Lock'] = lambda e, st, a, k, n: [(st, VOpaque(hint='lock', nonnull=True))]

    def concat(e, st, a, k, n):
        parts = a[0].items if isinstance(a[0], (VList, VTuple)) else None
        if not parts or len(parts) != 2 or not all(isinstance(p, VOpaque) for p in parts):
            raise Refuse("pd.concat of something else than two frames")
        A_, B_ = parts[0].t, parts[1].t
        C = VOpaque(hint='concat', nonnull=True)
        st.assume(z3.ForAll([kq], z3.And(HAS(C.t, kq) == z3.Or(HAS(A_, kq), HAS(B_, kq)),
                                         FIRST(C.t, kq) == z3.If(HAS(A_, kq), FIRST(A_, kq), FIRST(B_, kq)),
                                         LAST(C.t, kq) == z3.If(HAS(B_, kq), LAST(B_, kq), LAST(A_, kq)))))
        return [(st, C)]
    reg.externals['pd.concat'] = concat
    reg.assumptions += [
        "pandas contracts as stated in contracts/c16_tables.py (concat order; duplicated(keep) + boolean selection; sort_index not stable "
        "unless kind='stable'/'mergesort')",
        "get_file / update_file of the table cache behave as the abstract consequences of FileCache's C16 contracts (frames instead of "
        "strings; process_contents/serialize_df are inverse - not under contract)",
        "termination of the retry recursion in update is not claimed",
    ]


def configure(eng):
    eng.module_names |= {'pd', 'threading'}
    eng.opaque_methods |= {'sort_index', 'duplicated', 'get'}
    eng.stable_opaque_attrs |= {'index'}
    eng.opaque_ops_may_raise = False
    masks = {}
    eng._masks = masks

    def opaque_method(e, o, name, args, kwargs, st, node):
        if name == 'duplicated':
            t = o.t
            if not (z3.is_app(t) and t.decl().name() == 'attr:index'):
                raise Refuse("duplicated() on something that is not <frame>.index")
            keep = kwargs.get('keep', args[0] if args else lift('first'))
            ks = z3.simplify(keep.t) if isinstance(keep, VStr) else None
            if ks is None or not z3.is_string_value(ks) or ks.as_string() not in ('first', 'last'):
                raise Refuse("duplicated(keep=...) other than 'first'/'last'")
            m = VOpaque(hint='mask', nonnull=True)
            masks[str(m.t)] = (t.arg(0), ks.as_string(), False)
            return [(st, m)]
        if name == 'sort_index':
            X = o.t
            kind = kwargs.get('kind')
            stable = False
            if kind is not None:
                kk = z3.simplify(kind.t) if isinstance(kind, VStr) else None
                stable = kk is not None and z3.is_string_value(kk) and kk.as_string() in ('stable', 'mergesort')
            if any(k not in ('kind',) for k in kwargs) or args:
                raise Refuse("sort_index with arguments other than kind=")
            S = VOpaque(hint='sorted', nonnull=True)
            same = z3.ForAll([kq], z3.And(FIRST(S.t, kq) == FIRST(X, kq), LAST(S.t, kq) == LAST(X, kq)))
            st.assume(z3.And(SRT(S.t), UNIQ(S.t) == UNIQ(X), z3.ForAll([kq], HAS(S.t, kq) == HAS(X, kq)),
                             same if stable else z3.Implies(UNIQ(X), same)))
            return [(st, S)]
        if name == 'get':
            return [(st, VOpaque(hint='lock-or-none'))]
        return None
    eng.hooks['opaque_method'] = opaque_method

    def unaryop(e, op, v, st, node):
        if isinstance(op, ast.Invert) and isinstance(v, VOpaque) and str(v.t) in masks:
            f, keep, neg = masks[str(v.t)]
            m = VOpaque(hint='notmask', nonnull=True)
            masks[str(m.t)] = (f, keep, not neg)
            return [(st, m)]
        return None
    eng.hooks['unaryop'] = unaryop

    def index(e, v, i, st, node):
        if isinstance(v, VOpaque) and isinstance(i, VOpaque) and str(i.t) in masks:
            f, keep, neg = masks[str(i.t)]
            if not neg or not z3.eq(f, v.t):
                raise Refuse("boolean selection other than frame[~frame.index.duplicated(...)]")
            R = VOpaque(hint='dedup', nonnull=True)
            pick = FIRST if keep == 'first' else LAST
            st.assume(z3.And(UNIQ(R.t), z3.Implies(SRT(v.t), SRT(R.t)),
                             z3.ForAll([kq], z3.And(HAS(R.t, kq) == HAS(v.t, kq), FIRST(R.t, kq) == pick(v.t, kq), LAST(R.t, kq) == pick(v.t, kq)))))
            return [(st, R)]
        return None
    eng.hooks['index'] = index
    # locks here only serialise writers of one file: entering/leaving has no effect on the frames
    eng.hooks['with:None'] = (lambda e, st, cm, node: [(st, NONE)], lambda e, st, cm, node, kind, pl: [(st, NONE)])


def table_merge_check(ctx):
    """own registry + engine; every obligation comes back as one result row"""
    src = ctx['src']
    reg = Registry('C16')
    build(reg, src)
    eng = Engine(src, reg)
    eng._names = set()
    configure(eng)
    t0 = time.time()
    res = []
    try:
        eng.verify_fn(D + 'update')
    except Refuse as e:
        return [dict(name=D + 'update#refused', ok=False, undecided=True, backend='z3', detail=f"refused: {e}")]
    try:
        eng.verify_fn(D + 'get_dataframe')
    except Refuse as e:
        res.append(dict(name=D + 'get_dataframe#refused', ok=False, undecided=True, backend='z3', detail=f"refused: {e}"))
    obls = eng.obligations
    smt.discharge(obls, timeout_s=20 if ctx['tier'] == 'quick' else 90)
    n_real = 0
    for o in obls:
        kind = o.meta.get('kind')
        if kind == 'vacuity-neg':
            if o.result == 'unsat':
                res.append(dict(name=o.name, ok=False, undecided=True, backend=o.backend, detail='vacuity probe unsatisfiable (contradictory contract)'))
            continue
        n_real += 1
        if o.result == 'unsat':
            res.append(dict(name=o.name, ok=True, backend=o.backend, detail=f"trail={o.meta.get('trail')}", time=o.time))
        elif o.result == 'sat':
            from pyvc.run import run_replay
            import replay.c16 as rp
            r = run_replay(rp.replay_table_missing_keys if 'get_dataframe' in o.name else rp.replay_table_merge, {}, o.name, timeout_s=60)
            res.append(dict(name=o.name, ok=False, backend=o.backend, confirmed=bool(r.get('confirmed')),
                            replay=dict(result=r, solver='sat', trail=o.meta.get('trail'), goal=str(o.goal)[:1500]),
                            detail=f"counter-model on path {o.meta.get('trail')}" + (f" | real code: {r.get('detail')}" if r.get('confirmed') else '')))
        else:
            res.append(dict(name=o.name, ok=False, undecided=True, backend=o.backend, detail=f"undecided: {getattr(o, 'why', '')}"))
    if n_real == 0:
        res.append(dict(name=D + 'update#zero-obligations', ok=False, undecided=True, backend='z3', detail='no obligation generated'))
    ctx['eng'].verified[D + 'update'] = dict(sha=src.sha(src.find(D + 'update')), paths=eng.paths.get(D + 'update'), backend='z3 (own registry)')
    return res


table_merge_check.__name__ = 'table-merge'
