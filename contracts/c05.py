"""C05 - compiled and interpreted execution are indistinguishable (partial: mechanism contracts).

 (1) correspondence: for every IR production, the Python source template emitted by the REAL _ir_to_source of each backend
     (run on that production with placeholder children) is parsed by CPython's ast and must be the expected expression:
     % -> true division, ^ -> **, comparisons multiplied by 1, operands left/right in place, reduce/scan -> the backend call for
     THAT operator; templates are self-delimiting (parenthesised / call / postfix), so they compose (exhaustive over the finite
     production set; composition by induction on the IR, stated);
 (2) totality: every IR the admission function _ast_to_ir can produce is mapped to a source by both backends, except the
     documented misses (NumPy |\\ and &\\), which lead to the interpreter;
 (3) positional agreement: parameter k of the compiled function is the name assigned to var_syms[k] (bounded: all IR trees
     up to depth 3 over 3 variables, on the real _collect_params and the real admission walk);
 (4) fallback: at the three call sites any exception raised while fetching arguments or running compiled code is contained
     and the interpreter path runs (an exception of the compiled call never escapes eval / __call__); assignment and deletion
     clear the compiled cache (C09).
Value level (numpy backend): contracts/c05_values.py - every template denotes the value of the interpreter's verb on every admitted
operand, modulo declared NumPy identities; admission of scalars by exact type; Define rebinding goes through __setitem__ (4b).
"""
import ast
import itertools
import z3
from pyvc.values import *
from pyvc.state import Raised
from pyvc.contracts import loop
from . import ctxmodel as cm
from . import c03

NB = 'klongpy/backends/numpy_backend.py'
TB = 'klongpy/backends/torch_backend.py'
KI = cm.KI
ARITH = {'+': ast.Add, '-': ast.Sub, '*': ast.Mult, '%': ast.Div, '^': ast.Pow}
CMP = {'=': ast.Eq, '>': ast.Gt, '<': ast.Lt}
NP_REDUCE = {'+': 'np.add.reduce', '*': 'np.multiply.reduce', '|': 'np.maximum.reduce', '&': 'np.minimum.reduce'}
NP_SCAN = {'+': 'np.cumsum', '*': 'np.cumprod'}
T_REDUCE = {'+': 'sum', '*': 'prod', '|': 'amax', '&': 'amin'}
T_SCAN = {'+': 'cumsum(0)', '*': 'cumprod(0)', '|': 'cummax(0).values', '&': 'cummin(0).values'}


def _extract(src, rel, cls, name):
    """the real method, extracted mechanically from the source tree and compiled standalone (it uses `self` only for recursion)"""
    t = src.tree(rel)
    for n in ast.walk(t):
        if isinstance(n, ast.ClassDef) and n.name == cls:
            for m in n.body:
                if isinstance(m, ast.FunctionDef) and m.name == name:
                    m2 = ast.parse(ast.unparse(m)).body[0]
                    m2.decorator_list = []
                    mod = ast.Module(body=[m2], type_ignores=[])
                    ns = {}
                    exec(compile(ast.fix_missing_locations(mod), f"{rel}:{cls}.{name}", 'exec'), ns)
                    return ns[name]
    return None


class _Self:
    def __init__(self, f): self._f = f
    def _ir_to_source(self, ir): return self._f(self, ir)


def _ops(src):
    t = src.tree('klongpy/compiler.py')
    out = {}
    for n in t.body:
        if isinstance(n, ast.Assign) and isinstance(n.targets[0], ast.Name) and n.targets[0].id in ('_ARITH_OPS', '_CMP_OPS', '_REDUCE_SCAN_OPS'):
            out[n.targets[0].id] = sorted(ast.literal_eval(n.value))
    return out


def check_templates(ctx):
    src = ctx['src']
    ops = _ops(src)
    res = []
    for backend, rel, cls in (('numpy', NB, 'NumpyBackendProvider'), ('torch', TB, 'TorchBackendProvider')):
        f = _extract(src, rel, cls, '_ir_to_source')
        if f is None:
            res.append(dict(name=f"{rel}::_ir_to_source#extractable", ok=False, undecided=True, backend='ast-extraction', detail='method not found'))
            continue
        me = _Self(f)
        A, B = ('var', 'AAA'), ('var', 'BBB')

        def emit(ir):
            try:
                return me._ir_to_source(ir)
            except Exception as e:
                return f"!raised {type(e).__name__}: {e}"

        def expr(s):
            return ast.parse(s, mode='eval').body

        def is_name(n, nm): return isinstance(n, ast.Name) and n.id == nm
        bad = []
        for op in ops['_ARITH_OPS']:
            s = emit(('binop', op, A, B))
            try:
                e = expr(s)
                ok = isinstance(e, ast.BinOp) and isinstance(e.op, ARITH[op]) and is_name(e.left, 'AAA') and is_name(e.right, 'BBB') and s.startswith('(') and s.endswith(')')
                # or a call of a helper with the operands in place (which helper: the value-equivalence obligation of that production)
                ok = ok or (isinstance(e, ast.Call) and len(e.args) == 2 and not e.keywords and is_name(e.args[0], 'AAA') and is_name(e.args[1], 'BBB'))
            except Exception:
                ok = False
            if not ok:
                bad.append(f"binop {op!r} -> {s!r}")
        for op in ops['_CMP_OPS']:
            s = emit(('cmp', op, A, B))
            try:
                e = expr(s)
                c = e.left if isinstance(e, ast.BinOp) and isinstance(e.op, ast.Mult) and isinstance(e.right, ast.Constant) and e.right.value == 1 else None
                ok = isinstance(c, ast.Compare) and len(c.ops) == 1 and isinstance(c.ops[0], CMP[op]) and is_name(c.left, 'AAA') and is_name(c.comparators[0], 'BBB') and s.startswith('(') and s.endswith(')')
            except Exception:
                ok = False
            if not ok:
                bad.append(f"cmp {op!r} -> {s!r}")
        s = emit(('negate', A))
        try:
            e = expr(s)
            ok = isinstance(e, ast.UnaryOp) and isinstance(e.op, ast.USub) and is_name(e.operand, 'AAA') and s.startswith('(')
        except Exception:
            ok = False
        if not ok:
            bad.append(f"negate -> {s!r}")
        for lit in (3, -2, 1.5):
            s = emit(('literal', lit))
            try:
                ok = ast.literal_eval(s) == lit and type(ast.literal_eval(s)) is type(lit)
            except Exception:
                ok = False
            if not ok:
                bad.append(f"literal {lit!r} -> {s!r}")
        if emit(A) != 'AAA':
            bad.append(f"var -> {emit(A)!r}")
        missing = []
        for kind, table in (('reduce', NP_REDUCE if backend == 'numpy' else T_REDUCE), ('scan', NP_SCAN if backend == 'numpy' else T_SCAN)):
            for op in ops['_REDUCE_SCAN_OPS']:
                s = emit((kind, op, A))
                if s is None:
                    missing.append((kind, op))
                    continue
                want = f"{table.get(op)}(AAA)" if backend == 'numpy' else (f"(AAA).{table.get(op)}(0)" if kind == 'reduce' else f"(AAA).{table.get(op)}")
                try:
                    if backend == 'numpy':
                        # which NumPy call it must be is decided against the interpreter's verb (value-equivalence obligations);
                        # here: a call whose last argument is the operand, nothing else of the operand
                        ee = expr(s)
                        same = isinstance(ee, ast.Call) and not ee.keywords and ee.args and is_name(ee.args[-1], 'AAA') \
                            and sum(1 for n in ast.walk(ee) if is_name(n, 'AAA')) == 1
                    else:
                        same = op in table and ast.dump(expr(s)) == ast.dump(expr(want))
                except Exception:
                    same = False
                if not same:
                    bad.append(f"{kind} {op!r} -> {s!r} (expected the {backend} call for that operator: {want!r})")
        res.append(dict(name=f"{rel}::_ir_to_source#templates-correspond-to-ir-productions", ok=not bad, backend='cpython-ast-of-emitted-template',
                        detail='; '.join(bad[:4]) or f"all productions of {backend} emit the expected expression", confirmed=bool(bad)))
        documented = {('scan', '|'), ('scan', '&')} if backend == 'numpy' else set()
        extra = [m for m in missing if m not in documented]
        res.append(dict(name=f"{rel}::_ir_to_source#total-on-admitted-ir", ok=not extra, backend='cpython-ast-of-emitted-template',
                        detail=f"unmapped productions: {extra}" if extra else f"every admitted production mapped (documented misses: {sorted(documented)})", confirmed=bool(extra)))
    return res


def check_positional(ctx):
    """bounded: parameter order of the compiled function == order in which the admission walk names the variables"""
    src = ctx['src']
    t = src.tree('klongpy/backends/base.py')
    fn = None
    for n in ast.walk(t):
        if isinstance(n, ast.FunctionDef) and n.name == '_collect_params':
            m = ast.parse(ast.unparse(n)).body[0]
            m.decorator_list = []
            ns = {}
            exec(compile(ast.fix_missing_locations(ast.Module(body=[m], type_ignores=[])), 'base._collect_params', 'exec'), ns)
            fn = ns['_collect_params']
    if fn is None:
        return [dict(name='klongpy/backends/base.py::_collect_params#positional(bounded)', ok=False, undecided=True, backend='exhaustive-enumeration(bounded)', detail='not found')]
    # admission order: first occurrence in a left-to-right walk (the order _ast_to_ir inserts into var_refs)
    def trees(d):
        if d == 0:
            for v in 'abc':
                yield ('var', v)
            yield ('literal', 1)
            return
        for a in trees(d - 1):
            yield ('negate', a)
            yield ('reduce', '+', a)
        subs = list(trees(d - 1))[:6]
        for a, b in itertools.product(subs, repeat=2):
            yield ('binop', '+', a, b)
            yield ('cmp', '<', a, b)
    def first_occ(ir, acc):
        if ir[0] == 'var':
            if ir[1] not in acc:
                acc.append(ir[1])
        elif ir[0] in ('binop', 'cmp'):
            first_occ(ir[2], acc); first_occ(ir[3], acc)
        elif ir[0] == 'negate':
            first_occ(ir[1], acc)
        elif ir[0] in ('reduce', 'scan'):
            first_occ(ir[2], acc)
        return acc
    bad, n = None, 0
    for d in (0, 1, 2, 3):
        for ir in trees(d):
            n += 1
            got = list(fn(ir))
            want = first_occ(ir, [])
            if got != want:
                bad = f"{ir}: parameters {got}, admission order {want}"
                break
        if bad:
            break
    return [dict(name='klongpy/backends/base.py::_collect_params#positional-agreement(bounded)', ok=bad is None, backend='exhaustive-enumeration(bounded)',
                 detail=bad or f"{n} IR trees up to depth 3", confirmed=bad is not None)]


# compiled code is only valid for the kinds of value it was admitted for (_ast_to_ir: exact int / float, ndarray); the compile
# decision is memoised on the syntax-tree node, which outlives a rebinding - so every CALL of compiled code has to be guarded by the
# same admission test on the actual arguments (structural obligation on the three call sites)
def compiled_calls_guarded(ctx):
    from contracts import c05_values
    rows_ = []
    ok, calls, guarded, gtxt = c05_values.call_guard(ctx['src'])
    rows_.append(dict(name='klongpy/interpreter.py::KlongInterpreter.eval#compiled-code-called-only-on-admitted-kinds', ok=ok, backend='ast-structural', confirmed=False,
                      detail=(f"{calls} calls of compiled code, each under `if self._compiled_for(args)`; the guard admits exactly int, float and ndarray" if ok else
                              f"{calls} calls of compiled code, {guarded} of them guarded by the admission test; guard body: {gtxt!r}")))
    if not ok:
        from pyvc.run import run_replay
        import replay.c05 as rp5
        r = run_replay(rp5.replay_rebinding, {}, rows_[0]['name'], timeout_s=90)
        rows_[0]['confirmed'] = bool(r.get('confirmed'))
        rows_[0]['replay'] = dict(result=r)
        if r.get('confirmed'):
            rows_[0]['detail'] += f" | real code: {r.get('detail')}"
        elif calls >= 3 and guarded == calls:
            # every call site is still guarded and only the guard's BODY is not the tabulated text: the structural test cannot tell a
            # harmless rewrite from a wider admission.  The real guard on a battery of value kinds (bounded): something else admitted is a
            # violation with that value; nothing else admitted leaves the obligation UNDECIDED (exit 2), never a violation
            r2 = run_replay(rp5.replay_guard_kinds, {}, rows_[0]['name'], timeout_s=60)
            if r2.get('confirmed'):
                rows_[0]['confirmed'] = True
                rows_[0]['replay'] = dict(result=r2)
                rows_[0]['detail'] += f" | real code: {r2.get('detail')}"
            elif r2.get('battery'):
                rows_[0]['undecided'] = True
                rows_[0]['detail'] += f" | the guard's body is not in the tabulated form; {r2.get('detail')} (bounded battery) and the rebinding replay agrees: undecided"
    return rows_
compiled_calls_guarded.__name__ = 'compiled-calls-guarded'


def build(reg, src):
    c03.build(reg, src, verify_evaluator=False)
    reg.replays[:] = []
    reg.assumptions[:] = [
        "value level (numpy backend only): decided modulo the declared NumPy/Python identities I1-I7 of contracts/c05_values.py; comparisons "
        "((l==r)*1 vs vec_fn2/safe_equal on object arrays) and the torch backend's values are NOT decided (torch is not installed here)",
        "templates compose: every emitted source is parenthesised, a call or a postfix expression, so substituting a template for a "
        "placeholder keeps the parsed structure (induction on the IR, stated)",
        "the admission walk (_ast_to_ir) names variables in first-occurrence order of a left-to-right walk (read off the code); that "
        "_collect_params lists the names in exactly that order is proved for IR trees of any depth (contracts/c05_params.py), the bounded "
        "positional check is kept as cross-check of the specification's renderings",
        "torch's _ir_to_source is extracted from the source text and executed standalone (torch itself is not needed)",
    ]
    reg.assumed_calls['self._compiled_for'] = Bool       # the admission test on the actual arguments: its body is checked structurally (compiled-calls-guarded)
    reg.pure_calls.add('self._compiled_for')
    # (4) fallback: verify eval and __call__ with the compiled call's exceptions tagged
    not_compiled_exc = lambda s, e: VBool(getattr(e, 'tag', None) != 'compiled')
    reg.fns[KI + 'eval'].verify = True
    reg.fns[KI + 'eval'].ensures_exc = list(reg.fns[KI + 'eval'].ensures_exc) + [not_compiled_exc]
    reg.fns[KI + '__call__'].verify = True
    reg.fns[KI + '__call__'].ensures_exc = list(reg.fns[KI + '__call__'].ensures_exc) + [not_compiled_exc]
    for k, c in reg.fns.items():
        if k.startswith(cm.KC) or k.endswith('set_context_var'):
            c.verify = False
    # (4b) every rebinding made by a PROGRAM (the Define verb) goes through KlongInterpreter.__setitem__, whose contract (C09) clears
    # the compiled cache; a direct write into the context would leave compiled code of the old binding in the cache
    # - REQUIRED only while the call-time guard is not established (c05_values.call_guard): with it, compiled code left in the cache is
    # called on admitted kinds only, for which it is valid, and exactly one write of the binding is what is demanded
    from contracts import c05_values as _cv
    guard_ok = _cv.call_guard(src)[0]
    def define_setup(eng, st):
        c03.klong_setup(eng, st)
        st.env['klong'] = st.env.pop('self')
        st.env['n'] = VOpaque(hint='n', nonnull=True)
        st.env['v'] = VOpaque(hint='v')
        st.ghost['through_setitem'] = lift(0)
        st.ghost['direct_context_writes'] = lift(0)

    def count(name):
        return lambda eng, st, s, r: name in st.ghost and st.ghost.__setitem__(name, st.ghost[name] + 1)
    if KI + '__setitem__' not in reg.fns:
        reg.fn(KI + '__setitem__', returns=None, verify=False, requires=[c03.inv_k], ensures=[c03.pres_k], modifies=c03.eff_k)
    reg.fns[KI + '__setitem__'].ghost_at_call = count('through_setitem')
    reg.fns[cm.KC + '__setitem__'].ghost_at_call = count('direct_context_writes')
    reg.fn('klongpy/dyads.py::eval_dyad_define', setup=define_setup, requires=[lambda s: cm.ctx_inv(s.st, s.st.field(s.klong, '_context'))],
           returns='opaque',
           ensures=[lambda s, r: Or(And(s.g('through_setitem') == 1, s.g('direct_context_writes') == 0),
                                    And(VBool(guard_ok), s.g('through_setitem') + s.g('direct_context_writes') == 1)), lambda s, r: same(r, s.v0)])
    reg.extra_checks.append(check_templates)
    reg.extra_checks.append(check_positional)

    # the parameter side of positional agreement as an UNBOUNDED statement: _collect_params / _walk against the first-occurrence
    # specification by structural recursion (contracts/c05_params.py); the enumeration above stays as the cross-check of the spec renderings
    def collect_params_proof(ctx):
        from pyvc.subverify import subverify
        from contracts import c05_params as cp
        rows, sub = subverify(src, 'C05', cp, [cp.KW, cp.K], why='distinct variable names in first-occurrence order, IR trees of any depth',
                              timeout_s=30, prefer_cvc5=r'_walk#post')
        for k in (cp.KW, cp.K):
            if src.find(k) is not None:
                ctx['eng'].verified[k] = dict(sha=src.sha(src.find(k)), backend='z3/cvc5 (contracts/c05_params.py)')
        ctx['eng'].reg.assumptions += [a for a in sub.reg.assumptions if a not in ctx['eng'].reg.assumptions]
        return rows
    collect_params_proof.__name__ = 'collect-params-proof'
    reg.extra_checks.append(collect_params_proof)

    reg.extra_checks.append(compiled_calls_guarded)

    def compile_sequences(ctx):
        from pyvc.run import run_replay
        import replay.c05 as rp5
        r = run_replay(lambda inputs, name: dict(rows=rp5.sequence_rows()), {}, 'compile-sequences', timeout_s=120)
        rows_ = r.get('rows') if isinstance(r, dict) else None
        if not rows_:
            return [dict(name='compile-sequences(bounded)::harness', ok=False, undecided=True, backend='native-execution (bounded)', detail=str(r)[:300])]
        return [dict(name=f"compile-sequences(bounded)::{g}", ok=bool(ok), backend='native-execution (bounded)', detail=d, confirmed=not ok) for g, ok, d in rows_]
    compile_sequences.__name__ = 'compile-sequences'
    reg.extra_checks.append(compile_sequences)
    reg.bounded.append(dict(check='compile-sequences', tool='native execution: compiled run vs interpreted run (compile_expr stubbed) of expression sequences in one interpreter',
                            bound='5 sequences of same-shape expressions with the variables in different orders', result='see rows'))
    from contracts import c05_values
    reg.extra_checks.append(c05_values.check_value_equivalence)
    from replay import c05 as rp
    reg.replays.append((r'eval_dyad_define', rp.replay_rebinding))
    reg.replays.append((r'.', rp.replay_fallback))


REGIONS = {}


def configure(eng):
    c03.configure(eng)
    prev = eng.hooks['call_opaque']

    def call_opaque(e, fv, args, kwargs, st, node):
        outs = prev(e, fv, args, kwargs, st, node)
        if any(isinstance(a, ast.Starred) for a in getattr(node, 'args', [])):
            for s2, v in outs:
                if isinstance(v, Raised):
                    v.exc.tag = 'compiled'          # an exception raised by the compiled function (fn(*args))
        return outs
    eng.hooks['call_opaque'] = call_opaque
