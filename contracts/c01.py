"""C01 - primitive verbs equal the reference (partial: the verbs whose meaning is a sequence function).

Operands are sequences of arbitrary length (z3 Seq; the outer axis of an array) and integer counts of any sign and size.
Postconditions are transcribed from the reference sentences in the verbs' docstrings:
  Take    n=0 => b;  a>=0 => |r|=a and r[i]=b[i mod n];  a<0 => |r|=|a| and r[i]=b[(i-|a|) mod n]     (cyclic extension)
  Drop    slice identities for every integer a, including overshoot
  First   the first member, or the operand itself when it is empty or an atom
  Reverse r[i] = a[n-1-i]; an operand that is neither list nor string is returned unchanged
  Rotate  r[(i+a) mod n] = b[i] on the OUTER axis for any rank (the NumPy roll contract is rank-aware)
  Split   (single size s) member j is b[j*s : (j+1)*s], the last one short: ceil(n/s) members
  Cut     consecutive segments of b before the positions in a;  At/Index  a@i the i-th member, a@[i..] those members;  Integer-Divide on atoms (truncation)
  Find    (string) finditer yields the first match at or after the position following the previous one, and terminates
  predicates is_list / is_iterable / is_empty / is_atom / is_char as truth tables over the class lattice
The arithmetic / comparison / min / max ufunc verbs, grade, group, shape, transpose, amend, reshape, match, index are NOT
under contract here (NumPy semantics is an assumed contract).
"""
import ast
import z3
from pyvc.values import *
from pyvc.state import Raised
from pyvc.contracts import loop

DY = 'klongpy/dyads.py::'
MO = 'klongpy/monads.py::'
TY = 'klongpy/types.py::'
SeqObj = z3.SeqSort(Obj)
SeqSeq = z3.SeqSort(SeqObj)
ii = z3.Const('i!v', Int)
jj = z3.Const('j!v', Int)


def vec(name='b'):
    def f(eng, st):
        st.env[name] = VSeq(z3.Const(name + '_seq', SeqObj))
        st.env['backend'] = VOpaque(hint='backend', nonnull=True)
        st.ghost['rank'] = fresh(Int, 'rank')
        st.assume(st.ghost['rank'] >= 1)
    return f


def both(*fs):
    def f(eng, st):
        for g in fs:
            g(eng, st)
    return f


def count(name='a'):
    def f(eng, st):
        st.env[name] = fresh(Int, name)
    return f


def pymod(i, n):
    """Python's i % n for n > 0"""
    return i % n


# Take: the remainder as an uninterpreted function constrained by arithmetic facts that are theorems about Int.emod
# (= Python's % for a positive modulus), checked by Lean on every run (lean/Arith.lean).  Anything proved for every
# function satisfying these facts holds for the real remainder; over the integers the first three facts plus the
# one-block shift determine the function uniquely, so a counter-model is a counter-model for the real remainder too.
PM = z3.Function('pmod', Int, Int, Int)


def pmod_facts(n):
    i = z3.Const(fresh_name('i'), Int)
    return z3.Implies(n > 0, z3.ForAll([i], z3.And(
        PM(i, n) >= 0, PM(i, n) < n,                                   # Arith.mod_range
        z3.Implies(z3.And(i >= 0, i < n), PM(i, n) == i),              # Arith.mod_block k=0
        z3.Implies(z3.And(i >= -n, i < 0), PM(i, n) == i + n))))       # Arith.mod_block k=-1


def pmod_shift_facts(n, q):
    """facts about the product P = q*n (q whole blocks)"""
    i = z3.Const(fresh_name('i'), Int)
    P = q * n
    return [z3.Implies(n > 0, z3.ForAll([i], z3.And(PM(i - P, n) == PM(i, n), PM(i + P, n) == PM(i, n)))),                      # Arith.mod_shift
            z3.Implies(z3.And(n > 0, q >= 1), P >= n), z3.Implies(z3.And(n > 0, q <= 0), P <= 0),   # Arith.mul_ge / mul_nonpos
            z3.Implies(z3.And(n > 0, q >= 0), P >= 0)]


def elementwise(r, n, term):
    if not isinstance(r, VSeq):
        return VBool(False)
    return VBool(z3.And(z3.Length(r.t) == n, z3.ForAll([ii], z3.Implies(z3.And(ii >= 0, ii < n), r.t[ii] == term(ii)))))


def build(reg, src):
    reg.assumptions += [
        "operands are vectors / outer axes: array_size(b) == len(b) (matrices enter only through the rank-aware contract of roll)",
        "NumPy contracts (DESIGN section 3): tile(b,k) repeats b k times; concatenate joins in order; roll(b,k) without axis acts on the "
        "flattened array, with axis=0 on the outer axis; array_split(b,k:int) gives len%k sections of size len//k+1 then sections of "
        "size len//k; basic slicing with Python's clamping rules",
        "verbs that are bare NumPy ufunc calls and the verbs listed in the module docstring are not under contract",
        "the numpy backend is assumed (backend.is_backend_array is false for NumPy arrays)",
    ]
    reg.prefer_cvc5 = [r'eval_dyad_take#post', r'eval_dyad_split(\[\w+\])?#post', r'eval_dyad_split#loop0\.inv2']
    B = lambda s: s.b0.t
    A = lambda s: s.a0.t
    N = lambda s: z3.Length(s.b0.t)

    def take_post(s, r):
        a, b, n = A(s), B(s), N(s)
        absa = z3.If(a >= 0, a, -a)
        return And(Implies(VBool(n == 0), same(r, s.b0)),
                   Implies(VBool(z3.And(n > 0, a >= 0)), elementwise(r, a, lambda i: b[PM(i, n)])),
                   Implies(VBool(z3.And(n > 0, a < 0)), elementwise(r, absa, lambda i: b[PM(i - absa, n)])))
    def take_facts(eng, st):
        st.assume(pmod_facts(z3.Length(st.env['b'].t)))
    reg.fn(DY + 'eval_dyad_take', setup=both(vec('b'), count('a'), take_facts), returns='opaque', ensures=[take_post])

    def drop_post(s, r):
        a, b, n = A(s), B(s), N(s)
        k = z3.If(a >= 0, z3.If(a > n, n, a), z3.If(-a > n, n, -a))           # how many members go
        return And(Implies(VBool(a >= 0), elementwise(r, n - k, lambda i: b[i + k])),
                   Implies(VBool(a < 0), elementwise(r, n - k, lambda i: b[i])))
    reg.fn(DY + 'eval_dyad_drop', setup=both(vec('b'), count('a')), returns='opaque', ensures=[drop_post])
    reg.fn(TY + 'is_dict', inline=True)

    def first_case(kind):
        def f(eng, st):
            st.env['a'] = VSeq(z3.Const('a_seq', SeqObj)) if kind == 'list' else atom(st, 'a')
        return f
    reg.fn(MO + 'eval_monad_first', cases=[('list', first_case('list')), ('atom', first_case('atom'))], returns='opaque', raises=[],
           ensures=[lambda s, r: (If(VBool(z3.Length(s.a0.t) == 0), same(r, s.a0), VBool(r.t == s.a0.t[0]) if not isinstance(r, VSeq) else VBool(False))
                                  if isinstance(s.a0, VSeq) else same(r, s.a0))])

    def rev_case(kind):
        def f(eng, st):
            st.env['a'] = VSeq(z3.Const('a_seq', SeqObj)) if kind == 'list' else atom(st, 'a')
            st.env['backend'] = VOpaque(hint='backend', nonnull=True)
        return f
    reg.fn(MO + 'eval_monad_reverse', cases=[('list', rev_case('list')), ('atom', rev_case('atom'))], returns='opaque', raises=[],
           ensures=[lambda s, r: (elementwise(r, z3.Length(s.a0.t), lambda i: s.a0.t[z3.Length(s.a0.t) - 1 - i]) if isinstance(s.a0, VSeq)
                                  else same(r, s.a0))])

    def rot_post(s, r):
        a, b, n = A(s), B(s), N(s)
        if not isinstance(r, VSeq):
            return VBool(False)
        return Implies(VBool(n > 0), VBool(z3.And(z3.Length(r.t) == n,
                                                  z3.ForAll([ii], z3.Implies(z3.And(ii >= 0, ii < n), r.t[pymod(ii + a, n)] == b[ii])))))
    reg.fn(DY + 'eval_dyad_rotate', setup=both(vec('b'), count('a')), returns='opaque', ensures=[rot_post])

    def split_setup(eng, st):
        vec('b')(eng, st)
        st.env['a'] = fresh(Int, 'size')           # a single segment size

    # several sizes, used cyclically: spec functions  cyc_p(j) = index of the size used for member j,  cyc_off(j) = where member j
    # starts (recursive definitions, handed to the solver as their defining equations)
    SeqInt = z3.SeqSort(Int)
    CP = z3.Function('cyc_p', Int, Int)
    CO = z3.Function('cyc_off', Int, Int)

    def sizes_setup(eng, st):
        vec('b')(eng, st)
        a = z3.Const('a_sizes', SeqInt)
        st.env['a'] = VSeq(a)
        m = z3.Length(a)
        j = z3.Const(fresh_name('j'), Int)
        st.assume(z3.And(CP(0) == 0, CO(0) == 0,
                         z3.ForAll([j], z3.Implies(j >= 0, z3.And(CP(j + 1) == z3.If(CP(j) + 1 >= m, 0, CP(j) + 1),
                                                                  CO(j + 1) == CO(j) + a[CP(j)])))))

    def split_req(s):
        if isinstance(s.a, VInt):
            return s.a > 0
        a = s.a.t
        k = z3.Const(fresh_name('k'), Int)
        return VBool(z3.And(z3.Length(a) >= 2, z3.ForAll([k], z3.Implies(z3.And(k >= 0, k < z3.Length(a)), a[k] > 0))))

    def rseq(v):
        return z3.Empty(SeqSeq) if isinstance(v, VList) and not v.items else v.t

    def seg_c(b, n, a, j):
        return z3.SubSeq(b, CO(j), z3.If(CO(j) + a[CP(j)] <= n, a[CP(j)], n - CO(j)))

    def split_post(s, r):
        b, n = B(s), N(s)
        if isinstance(s.a0, VSeq):
            if not isinstance(r, VSeq) or r.t.sort() != SeqSeq:
                return Implies(VBool(n > 0), VBool(False))
            a, cnt = s.a0.t, z3.Length(r.t)
            return VBool(z3.And(CO(cnt) >= n, z3.ForAll([jj], z3.Implies(z3.And(jj >= 0, jj < cnt), z3.And(CO(jj) < n, r.t[jj] == seg_c(b, n, a, jj))))))
        sz = A(s)
        if isinstance(r, VList) and not r.items:
            return VBool(n == 0)
        if not isinstance(r, VSeq):
            return VBool(False)
        if r.t.sort() != SeqSeq:
            return Implies(VBool(n > 0), VBool(False))
        cnt = (n + sz - 1) / sz
        seg = lambda j: z3.SubSeq(b, j * sz, z3.If((j + 1) * sz <= n, sz, n - j * sz))
        return Implies(VBool(n > 0), VBool(z3.And(z3.Length(r.t) == cnt, z3.ForAll([jj], z3.Implies(z3.And(jj >= 0, jj < cnt), r.t[jj] == seg(jj))))))

    def inv_members(s):
        b, n, a, R = s.b.t, z3.Length(s.b.t), s.a.t, rseq(s.r)
        return VBool(z3.ForAll([jj], z3.Implies(z3.And(jj >= 0, jj < z3.Length(R)), z3.And(CO(jj) < n, R[jj] == seg_c(b, n, a, jj)))))
    reg.fn(DY + 'eval_dyad_split', cases=[('size', split_setup), ('sizes', sizes_setup)], requires=[split_req], returns='opaque', ensures=[split_post],
           loops={0: loop(invariant=[lambda s: VBool(z3.And(s.p.t == CP(z3.Length(rseq(s.r))), s.p.t >= 0, s.p.t < z3.Length(s.a.t))),
                                     lambda s: VBool(z3.And(s.q.t == CO(z3.Length(rseq(s.r))), s.q.t >= 0)),
                                     inv_members],
                          variant=lambda s: VInt(z3.Length(s.b.t) - s.q.t),
                          havoc=dict(r=lambda h: VSeq(z3.Const(fresh_name(h), SeqSeq))))})

    # ---------------- Cut: consecutive segments of b, cut before the positions in a (increasing, within the list)
    SeqI = z3.SeqSort(Int)

    def cut_case(kind):
        def f(eng, st):
            vec('b')(eng, st)
            st.env['a'] = VSeq(z3.Const('a_pts', SeqI)) if kind == 'list' else fresh(Int, 'a')
        return f

    def cut_pts(s):
        return s.a0.t if isinstance(s.a0, VSeq) else z3.Unit(s.a0.t)

    def cut_req(s):
        p, n = (s.a.t if isinstance(s.a, VSeq) else z3.Unit(s.a.t)), z3.Length(s.b.t)
        k = z3.Const(fresh_name('k'), Int)
        return VBool(z3.And(n > 0, z3.Length(p) >= 1, z3.ForAll([k], z3.Implies(z3.And(k >= 0, k < z3.Length(p)),
                                                                               z3.And(p[k] >= 0, p[k] <= n, z3.Implies(k > 0, p[k - 1] <= p[k]))))))

    def cut_post(s, r):
        if not isinstance(r, VSeq) or r.t.sort() != SeqSeq:
            return VBool(False)
        p, b, n = cut_pts(s), B(s), N(s)
        k_ = z3.Length(p)
        lo = lambda x: z3.If(x == 0, 0, p[x - 1])
        hi = lambda x: z3.If(x == k_, n, p[x])
        return VBool(z3.And(z3.Length(r.t) == k_ + 1, z3.ForAll([jj], z3.Implies(z3.And(jj >= 0, jj <= k_), r.t[jj] == z3.SubSeq(b, lo(jj), hi(jj) - lo(jj))))))
    reg.fn(DY + 'eval_dyad_cut', cases=[('positions', cut_case('list')), ('position', cut_case('int'))], requires=[cut_req], returns='opaque', ensures=[cut_post])

    # ---------------- At/Index on a list: a@i is the i-th member, a@[i1 ... ik] the list of those members (0 <= i < #a)
    def at_case(kind):
        def f(eng, st):
            st.env['klong'] = st.alloc('KlongInterpreter', dict(_backend=VOpaque(hint='backend', nonnull=True)), hint='klong', fresh=False)
            st.env['a'] = VSeq(z3.Const('a_seq', SeqObj))
            st.env['b'] = VSeq(z3.Const('b_idx', SeqI)) if kind == 'list' else fresh(Int, 'b')
        return f

    def at_req(s):
        n = z3.Length(s.a.t)
        if isinstance(s.b, VSeq):
            k = z3.Const(fresh_name('k'), Int)
            return VBool(z3.ForAll([k], z3.Implies(z3.And(k >= 0, k < z3.Length(s.b.t)), z3.And(s.b.t[k] >= 0, s.b.t[k] < n))))
        return VBool(z3.And(s.b.t >= 0, s.b.t < n))

    def at_post(s, r):
        a = s.a0.t
        if isinstance(s.b0, VSeq):
            idx = s.b0.t
            if isinstance(r, VList) and not r.items:
                return VBool(z3.Length(idx) == 0)
            if not isinstance(r, VSeq):
                return VBool(False)
            return VBool(z3.And(z3.Length(r.t) == z3.Length(idx), z3.ForAll([jj], z3.Implies(z3.And(jj >= 0, jj < z3.Length(idx)), r.t[jj] == a[idx[jj]]))))
        return VBool(r.t == a[s.b0.t]) if isinstance(r, VOpaque) else VBool(False)
    reg.fn(DY + 'eval_dyad_at_index', cases=[('indices', at_case('list')), ('index', at_case('int'))], requires=[at_req], returns='opaque', ensures=[at_post])

    # ---------------- Integer-Divide on integer atoms: the integer part of the quotient (truncation toward zero), b != 0
    def idiv_setup(eng, st):
        st.env['x'] = fresh(Int, 'x')
        st.env['y'] = fresh(Int, 'y')
        st.env['backend'] = VOpaque(hint='backend', nonnull=True)

    def idiv_post(s, r):
        if not isinstance(r, VInt):
            return VBool(False)
        x, y, q = s.x0.t, s.y0.t, r.t
        ab = lambda e: z3.If(e >= 0, e, -e)
        return VBool(z3.And(ab(q) * ab(y) <= ab(x), ab(x) < (ab(q) + 1) * ab(y),          # |q| = floor(|x| / |y|)
                            z3.Implies(q > 0, (x > 0) == (y > 0)), z3.Implies(q < 0, (x > 0) != (y > 0))))
    reg.fn(DY + '_e_dyad_integer_divide', setup=idiv_setup, requires=[lambda s: s.y != 0], returns='opaque', ensures=[idiv_post])

    # ---------------- finditer: generator; yields go to the ghost output sequence
    def fi_setup(eng, st):
        st.ghost['yielded'] = VSeq(z3.Empty(z3.SeqSort(Int)))
        st.ghost['last'] = lift(-1)

    def fi_inv(s):
        y, last = s.g('yielded').t, s.g('last').t
        return VBool(z3.And(s.i.t >= 0, s.i.t == last + 1, last >= -1, last <= z3.Length(s.s.t)))
    reg.fn(DY + 'finditer', params=dict(s=Str, sub=Str), setup=fi_setup, returns=None, raises=[],
           loops={0: loop(invariant=[fi_inv], variant=lambda s: len_(s.s) + 1 - s.i, modifies=lambda eng, st: (st.ghost.__setitem__('last', fresh(Int, 'last')),
                                                                                                       st.ghost.__setitem__('yielded', VSeq(z3.Const(fresh_name('yielded'), z3.SeqSort(Int))))))},
           # at the end no further match exists after the last yielded position
           ensures=[lambda s, r: VBool(z3.IndexOf(s.s.t, s.sub.t, s.g('last').t + 1) < 0)])

    # ---------------- predicates over the class lattice (executed on the real functions over the closed set of value classes)
    def check_predicates(ctx):
        import sys
        sys.path.insert(0, ctx['src'].repo)
        for m in [k for k in sys.modules if k.startswith('klongpy')]:
            del sys.modules[m]
        import numpy as np
        from klongpy.types import is_list, is_iterable, is_empty, is_atom, is_char, KGSym, KGChar
        vals = {'int': 1, 'float': 1.5, 'symbol': KGSym('a'), 'char': KGChar('a'), 'empty-string': '', 'string': 'ab', 'empty-list': np.asarray([]),
                'list': np.asarray([1, 2]), 'nested': np.asarray([np.asarray([1]), 'a'], dtype=object), 'dict': {1: 2}, 'empty-pylist': [], 'pylist': [1]}
        want = {  # (is_list, is_iterable, is_empty, is_atom, is_char)   from the reference: symbols and characters are atoms, not strings
            'int': (0, 0, 0, 1, 0), 'float': (0, 0, 0, 1, 0), 'symbol': (0, 0, 0, 1, 0), 'char': (0, 0, 0, 1, 1), 'empty-string': (0, 1, 1, 1, 0),
            'string': (0, 1, 0, 0, 0), 'empty-list': (1, 1, 1, 1, 0), 'list': (1, 1, 0, 0, 0), 'nested': (1, 1, 0, 0, 0), 'dict': (0, 0, 0, 1, 0),
            'empty-pylist': (1, 1, 1, 1, 0), 'pylist': (1, 1, 0, 0, 0)}
        bad = []
        for k, v in vals.items():
            got = tuple(int(bool(f(v))) for f in (is_list, is_iterable, is_empty, is_atom, is_char))
            if got != want[k]:
                bad.append(f"{k}: (list,iterable,empty,atom,char)={got} expected {want[k]}")
        return [dict(name='klongpy/types.py::is_list/is_iterable/is_empty/is_atom/is_char#truth-table', ok=not bad, backend='exhaustive-enumeration',
                     detail='; '.join(bad[:3]) or 'truth tables over the 12 value classes', confirmed=bool(bad))]
    reg.extra_checks.append(check_predicates)

    def check_dispatch(ctx):
        """each verb symbol maps to the function whose docstring header carries that symbol"""
        import re
        res = []
        for rel, maker in (('klongpy/monads.py', 'create_monad_functions'), ('klongpy/dyads.py', 'create_dyad_functions')):
            t = ctx['src'].tree(rel)
            docs = {}
            for n in t.body:
                if isinstance(n, ast.FunctionDef) and ast.get_docstring(n):
                    m = re.search(r"^\s*(\S+)\s+\[([A-Za-z/\- ]+)\]\s*$", ast.get_docstring(n).strip().splitlines()[0])
                    if m:
                        docs[n.name] = m.group(1)
            mk = next(n for n in t.body if isinstance(n, ast.FunctionDef) and n.name == maker)
            bad = []
            total = 0
            for d in [x for x in ast.walk(mk) if isinstance(x, ast.Dict)]:
                for kx, vx in zip(d.keys, d.values):
                    if not (isinstance(kx, ast.Constant) and isinstance(kx.value, str)):
                        continue
                    fname = vx.id if isinstance(vx, ast.Name) else (vx.body.func.id if isinstance(vx, ast.Lambda) and isinstance(vx.body, ast.Call) and isinstance(vx.body.func, ast.Name) else None)
                    if fname is None or fname not in docs:
                        continue
                    total += 1
                    head = docs[fname]
                    sym = kx.value
                    # the header shows the verb in its applied form: a+b / #a / a:^b ...
                    if sym not in head:
                        bad.append(f"{sym!r} -> {fname} whose reference header is {head!r}")
            res.append(dict(name=f"{rel}::{maker}#verb-symbol-to-function-table", ok=not bad and total > 10, backend='ast-structural',
                            detail='; '.join(bad[:3]) or f"{total} verb symbols dispatch to the function documenting that symbol"))
        return res
    reg.extra_checks.append(check_dispatch)
    # (bounded, labelled) Match (~): kg_equal is not under contract (NumPy type dispatch); every pair of a closed universe of values is
    # compared with the structural definition "two lists match iff they have the same length and their members match pairwise"
    def match_standin(ctx):
        from pyvc.run import run_replay
        from replay import c01 as rp1

        def go(inputs, name):
            n, problems = rp1.match_bounded()
            return dict(n=n, problems=problems)
        r = run_replay(go, {}, 'match(bounded)', timeout_s=120)
        if not isinstance(r, dict) or 'n' not in r:
            return [dict(name='klongpy/backends/base.py::kg_equal#match(bounded)::all-pairs', ok=False, undecided=True, backend='exhaustive-enumeration(bounded)', detail=str(r)[:200])]
        ok = not r['problems']
        return [dict(name='klongpy/backends/base.py::kg_equal#match(bounded)::all-pairs', ok=ok, backend='exhaustive-enumeration(bounded)', confirmed=not ok,
                     detail=f"{r['n']} ordered pairs over atoms and lists up to length 3 / depth 2" if ok else '; '.join(r['problems']),
                     replay=dict(harness='replay/c01.py: match_bounded()', result=r))]
    match_standin.__name__ = 'match-bounded'
    reg.extra_checks.append(match_standin)
    reg.bounded.append(dict(check='Match (~) / kg_equal', tool='exhaustive enumeration of value pairs against the structural definition',
                            bound='atoms (ints, reals, character, symbol, strings) and lists of length <= 3, nesting depth <= 2: about 72 000 ordered pairs', result='see rows'))
    from pyvc.leancheck import lean_check
    reg.extra_checks.append(lean_check('Arith.lean', ['mod_block', 'mod_shift', 'mod_shift_back', 'mod_range', 'mul_ge', 'mul_nonpos', "mul_nonneg'"]))
    from replay import c01 as rp
    # (bounded, labelled) the verbs on literal operands against independent oracles written from the reference sentences: also run on
    # every check (it is cheap), so that a change in a verb that is not under contract, or beyond the contract's model (numbers that a
    # detour through reals cannot represent, a second use of the same operand object), still fails a named row
    def verb_oracle(ctx):
        from pyvc.run import run_replay
        r = run_replay(rp.replay_verbs, {}, 'all-verbs', timeout_s=120)
        if r.get('error') or 'detail' not in r:
            return [dict(name='verb-oracle(bounded)::harness', ok=False, undecided=True, backend='native-execution (bounded)', detail=str(r)[:300])]
        return [dict(name='verb-oracle(bounded)::grids', ok=not r.get('confirmed'), backend='native-execution (bounded)', detail=str(r.get('detail'))[:600],
                     confirmed=bool(r.get('confirmed')))]
    verb_oracle.__name__ = 'verb-oracle'
    reg.extra_checks.append(verb_oracle)
    reg.bounded.append(dict(check='verb-oracle', tool='native evaluation of verb applications on literal operands vs. oracles written from the reference sentences',
                            bound='Take, Drop, Rotate, Split, Cut, At/Index, Integer-Divide, Remainder (incl. operands beyond 2**53), Reshape with a reused shape operand: about 1400 cases',
                            result='see row'))
    reg.replays.append((r'.', rp.replay_verbs))


def atom(st, name):
    a = VOpaque(hint=name, nonnull=True)
    st.assume(a.pred('atom'))
    return a


REGIONS = {}


def configure(eng):
    eng.split_slice_sign = True
    eng.module_names |= {'bknp', 'backend', 'np_backend', 'numpy'}
    X = eng.reg.externals
    is_seq = lambda v: isinstance(v, VSeq)
    X['np_backend.asarray'] = lambda e, st, a, k, n: [(st, a[0])]
    X['bknp.asarray'] = lambda e, st, a, k, n: [(st, a[0])]
    def kg_asarray(e, st, a, k, n):
        v = a[0]
        if isinstance(v, VList) and v.items and all(isinstance(x, VSeq) for x in v.items):
            t = z3.Unit(v.items[0].t)
            for x in v.items[1:]:
                t = z3.Concat(t, z3.Unit(x.t))
            return [(st, VSeq(t))]
        return [(st, v)]
    X['backend.kg_asarray'] = kg_asarray
    X['bknp.isarray'] = lambda e, st, a, k, n: [(st, VBool(is_seq(a[0])))]
    X['backend.array_size'] = lambda e, st, a, k, n: [(st, VInt(z3.Length(a[0].t)))]
    X['np_backend.abs'] = lambda e, st, a, k, n: [(st, If(a[0] >= 0, a[0], -a[0]))]
    X['backend.is_backend_array'] = lambda e, st, a, k, n: [(st, VBool(False))]
    X['backend.str_to_chr_arr'] = lambda e, st, a, k, n: [(st, a[0])]
    X['is_iterable'] = lambda e, st, a, k, n: [(st, VBool(is_seq(a[0])))]
    X['is_empty'] = lambda e, st, a, k, n: [(st, VBool(z3.Length(a[0].t) == 0) if is_seq(a[0]) else VBool(False))]
    X['is_list'] = lambda e, st, a, k, n: [(st, VBool(is_seq(a[0])))]
    X['backend.is_integer'] = lambda e, st, a, k, n: [(st, VBool(isinstance(a[0], VInt)))]
    X['klong._backend.is_array'] = lambda e, st, a, k, n: [(st, VBool(is_seq(a[0])))]

    def np_divide(e, st, a, k, n):
        x, y = a
        if isinstance(x, (VInt, VReal)) and isinstance(y, (VInt, VReal)):
            tr = lambda v: z3.ToReal(v.t) if isinstance(v, VInt) else v.t
            outs = []
            for s2, nz in e.branch(st, tr(y) != 0, 'np.divide'):
                outs.append((s2, VReal(tr(x) / tr(y))) if nz else (s2, VOpaque(hint='inf-or-nan')))
            return outs
        raise Refuse("np.divide of non-scalars is not modelled")
    X['np_backend.divide'] = np_divide
    X['np_backend.isarray'] = lambda e, st, a, k, n: [(st, VBool(is_seq(a[0])))]
    X['np_backend.sign'] = lambda e, st, a, k, n: [(st, VInt(z3.If(a[0].t > 0, 1, z3.If(a[0].t < 0, -1, 0))) if isinstance(a[0], VInt) else VOpaque(hint='sign'))]

    def to_int(e, st, a, k, n):
        v = a[0]
        if isinstance(v, VInt):
            return [(st, v)]
        if isinstance(v, VReal):          # int(float) truncates toward zero
            return [(st, VInt(z3.If(v.t >= 0, z3.ToInt(v.t), -z3.ToInt(-v.t))))]
        return [(st, VOpaque(hint='int'))] + e.maybe_raise(st, 'to_int_array', n)
    X['backend.to_int_array'] = to_int
    X['np_backend.trunc'] = lambda e, st, a, k, n: [(st, VReal(z3.ToReal(z3.If(a[0].t >= 0, z3.ToInt(a[0].t), -z3.ToInt(-a[0].t)))) if isinstance(a[0], VReal) else a[0])]

    def tile(e, st, a, k, n):
        b, reps = a
        nb = z3.Length(b.t)
        R = z3.Const(fresh_name('tile'), SeqObj)
        i = z3.Const(fresh_name('i'), Int)
        st.assume(z3.And(z3.Length(R) == reps.t * nb, z3.ForAll([i], z3.Implies(z3.And(i >= 0, i < reps.t * nb), R[i] == b.t[PM(i, nb)]))))
        st.assume(pmod_facts(nb))
        for f in pmod_shift_facts(nb, reps.t):
            st.assume(f)
        return [(st, VSeq(R))]
    X['np_backend.tile'] = tile

    def concatenate(e, st, a, k, n):
        parts = a[0].items
        t = parts[0].t
        for p in parts[1:]:
            t = z3.Concat(t, p.t)
        return [(st, VSeq(t))]
    X['np_backend.concatenate'] = concatenate
    X['bknp.concatenate'] = concatenate

    def roll(e, st, a, k, n):
        b, sh = a[0], a[1]
        nb = z3.Length(b.t)
        R = z3.Const(fresh_name('roll'), SeqObj)
        i = z3.Const(fresh_name('i'), Int)
        axis = k.get('axis')
        outer = z3.And(z3.Length(R) == nb, z3.ForAll([i], z3.Implies(z3.And(i >= 0, i < nb), R[(i + sh.t) % nb] == b.t[i])))
        if axis is not None and isinstance(axis, VInt) and z3.is_int_value(axis.t) and axis.t.as_long() == 0:
            st.assume(z3.Implies(nb > 0, outer))
        else:
            # no axis: the array is flattened, rolled and reshaped - the outer-axis rotation only for rank 1
            st.assume(z3.Implies(z3.And(nb > 0, st.ghost['rank'].t == 1), outer))
            st.assume(z3.Length(R) == nb)
        return [(st, VSeq(R))]
    X['bknp.roll'] = roll

    def array_split(e, st, a, k, n):
        b, cnt = a
        if isinstance(cnt, (VSeq, VList)):
            # explicit cut points p0 <= p1 <= ...: sections b[0:p0], b[p0:p1], ..., b[pk:]  (NumPy contract, basic slicing: clamped)
            if isinstance(cnt, VList):
                if not all(isinstance(x, VInt) for x in cnt.items):
                    raise Refuse("array_split at non-integer positions")
                pts = z3.Empty(z3.SeqSort(Int))
                for x in cnt.items:
                    pts = z3.Concat(pts, z3.Unit(x.t))
            else:
                pts = cnt.t
            nb = z3.Length(b.t)
            k_ = z3.Length(pts)
            R = z3.Const(fresh_name('sections'), SeqSeq)
            j = z3.Const(fresh_name('j'), Int)
            cl = lambda x: z3.If(x < 0, z3.If(x + nb < 0, 0, x + nb), z3.If(x > nb, nb, x))
            lo = lambda x: z3.If(x == 0, 0, cl(pts[x - 1]))
            hi = lambda x: z3.If(x == k_, nb, cl(pts[x]))
            st.assume(z3.And(z3.Length(R) == k_ + 1, z3.ForAll([j], z3.Implies(z3.And(j >= 0, j <= k_),
                                                                                 R[j] == z3.SubSeq(b.t, lo(j), z3.If(hi(j) - lo(j) < 0, 0, hi(j) - lo(j)))))))
            return [(st, VSeq(R))] + e.maybe_raise(st, 'array_split', n)
        if not isinstance(cnt, VInt):
            raise Refuse("array_split with this second argument is not modelled")
        nb = z3.Length(b.t)
        R = z3.Const(fresh_name('sections'), SeqSeq)
        j = z3.Const(fresh_name('j'), Int)
        q, r = nb / cnt.t, nb % cnt.t
        off = lambda x: z3.If(x <= r, x * (q + 1), r * (q + 1) + (x - r) * q)
        st.assume(z3.And(z3.Length(R) == cnt.t, z3.ForAll([j], z3.Implies(z3.And(j >= 0, j < cnt.t), R[j] == z3.SubSeq(b.t, off(j), off(j + 1) - off(j))))))
        return [(st, VSeq(R))] + e.maybe_raise(st, 'array_split', n)
    X['bknp.array_split'] = array_split

    def slice_step(e, v, lo, hi, step, st, node):
        if isinstance(v, VSeq) and lo is None and hi is None and isinstance(step, VInt) and z3.is_int_value(z3.simplify(step.t)) and z3.simplify(step.t).as_long() == -1:
            nb = z3.Length(v.t)
            R = z3.Const(fresh_name('rev'), SeqObj)
            i = z3.Const(fresh_name('i'), Int)
            st.assume(z3.And(z3.Length(R) == nb, z3.ForAll([i], z3.Implies(z3.And(i >= 0, i < nb), R[i] == v.t[nb - 1 - i]))))
            return [(st, VSeq(R))]
        if isinstance(v, VSeq) and lo is None and hi is None and isinstance(step, VInt) and z3.is_int_value(z3.simplify(step.t)) and z3.simplify(step.t).as_long() == 1:
            return [(st, VSeq(v.t))]                       # a[::1]: a copy with the same members
        if isinstance(v, VOpaque):
            return [e.exc(st, 'TypeError', node)]        # an atom (number) is not subscriptable
        return None
    eng.hooks['slice_step'] = slice_step

    def method(e, o, m, args, kwargs, st, node):
        if m == 'append' and len(args) == 1 and isinstance(args[0], VSeq) and args[0].t.sort() == SeqObj:
            if isinstance(o, VSeq) and o.t.sort() == SeqSeq:
                e.rebind(st, o, VSeq(z3.Concat(o.t, z3.Unit(args[0].t))))
                return [(st, NONE)]
        return None
    eng.hooks['method'] = method

    def comprehension(e, node, kind, it, st):
        """[b[q:q+s] for q in range(0, n, s)]: the REAL element expression on the generic j-th step"""
        if kind == 'list' and isinstance(it, VSeq) and it.t.sort() == z3.SeqSort(Int) and not node.generators[0].ifs and len(node.generators) == 1:
            # [elt for x in <sequence of integers>]: the real element expression on the generic j-th member
            j = z3.Const(fresh_name('j'), Int)
            cnt = z3.Length(it.t)
            s1 = st.fork()
            s1.assume(z3.And(j >= 0, j < cnt))
            # facts quantified over the members hold for the generic one: instantiate the requires at j
            e.assign_target(node.generators[0].target, VInt(it.t[j]), s1, node)
            outs = [(s2, v) for s2, v in e.ev(node.elt, s1) if not isinstance(v, Raised)]
            if len(outs) != 1:
                raise Refuse("comprehension body over an index list forks")
            R = z3.Const(fresh_name('picked'), SeqObj)
            st.assume(z3.And(z3.Length(R) == cnt, z3.ForAll([j], z3.Implies(z3.And(j >= 0, j < cnt), R[j] == e.as_obj(outs[0][1])))))
            return [(st, VSeq(R))]
        if kind == 'list' and isinstance(it, VTuple) and it.items and it.items[0] == 'range' and len(it.items) == 4:
            lo, hi, stp = it.items[1:]
            j = z3.Const(fresh_name('j'), Int)
            cnt = z3.If(hi.t > lo.t, (hi.t - lo.t + stp.t - 1) / stp.t, 0)
            s1 = st.fork()
            s1.assume(z3.And(j >= 0, j < cnt, stp.t > 0))
            e.assign_target(node.generators[0].target, VInt(lo.t + j * stp.t), s1, node)
            outs = [(s2, v) for s2, v in e.ev(node.elt, s1) if not isinstance(v, Raised)]
            if len(outs) != 1 or not isinstance(outs[0][1], VSeq):
                raise Refuse("range comprehension body")
            R = z3.Const(fresh_name('segments'), SeqSeq)
            st.assume(z3.And(z3.Length(R) == cnt, z3.ForAll([j], z3.Implies(z3.And(j >= 0, j < cnt), R[j] == outs[0][1].t))))
            return [(st, VSeq(R))]
        return None
    eng.hooks['comprehension'] = comprehension

    def blen(e, args, kwargs, st, node):
        return None
    # a one-element python list [a] standing for the list of segment sizes
    def index(e, obj, key, st, node):
        return None
    eng.hooks['index'] = index

    def yield_(e, v, st, node):
        # the yielded index is a match position, larger than the previous one, and it is the FIRST match at or after the
        # position following the previous yield (so no match is skipped and overlapping matches are found)
        sv, sub, last = st.env['s'], st.env['sub'], st.ghost['last']
        e.oblige(f"{e.cur_key}#yield.is-first-match-after-previous@{e.site_ordinal('yield', node)}", st,
                 VBool(z3.And(v.t == z3.IndexOf(sv.t, sub.t, last.t + 1), v.t >= 0)), kind='yield')
        st.ghost['yielded'] = VSeq(z3.Concat(st.ghost['yielded'].t, z3.Unit(v.t)))
        st.ghost['last'] = v
        return [(st, NONE)]
    eng.hooks['yield'] = yield_
