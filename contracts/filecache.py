"""Symbolic image of FileCache (klongpy/db/file_cache.py) shared by C16 / C17 / C18.

Abstract state of a FileCache object `self`:
  self.file_futures        -> FFMap object; ghost arrays over file names: dom, writing, bytes, fid (future id), counted
  self.file_access_times   -> VHeap value: cnt[file] = multiplicity of the file in the heap, size = number of entries
  self.file_futures_lock   -> Lock object, ghost __held
  self.executor            -> Executor; submit() creates a Future with a deferred task (single-client model: the task runs
                              when its submitter calls result(), i.e. after the lock was released - DESIGN C16)
  futures                  -> ghost done_ids / res_of / failed_ids arrays over future ids
  accounting               -> msum(counted, bytes): uninterpreted sum over the finite map, with the point-update lemma
                              instantiated at every entry change (lemma proved in lean/MapSum.lean)
`counted(f)`: the entry's bytes have been added to current_memory_usage.  Ghost update event: an entry stored from inside
update_file_futures_and_memory is counted; entries stored by update_file / get_file (claims) are not.
"""
import z3
from pyvc.values import *
from pyvc.state import Raised
from . import fsmodel as fs
from .fsmodel import VArr

F = 'klongpy/db/file_cache.py::FileCache.'
FKey = fs.FKey
IntArr = z3.ArraySort(FKey, Int)
BoolArr = z3.ArraySort(FKey, Bool)
IdBool = z3.ArraySort(Int, Bool)
IdStr = z3.ArraySort(Int, Str)
MSUM = z3.Function('msum', BoolArr, IntArr, Int)          # sum of bytes[f] over counted[f]
NONNEG = z3.Function('nonneg', BoolArr, IntArr, Bool)     # every counted entry has bytes >= 0
PROCESS = z3.Function('process_contents', Str, Str)


class VHeap(V):
    """value of self.file_access_times: multiset of (time, file) abstracted to counts per file"""
    def __init__(self, cnt, size):
        self.cnt, self.size = cnt, size

    def __repr__(self): return "VHeap"


def msum_update_lemma(c, b, f, v, x):
    """msum(c[f:=v], b[f:=x]) = msum(c,b) - (c[f] ? b[f] : 0) + (v ? x : 0)      (lean/MapSum.lean: msum_update)"""
    c2, b2 = z3.Store(c, f, v), z3.Store(b, f, x)
    return z3.And(MSUM(c2, b2) == MSUM(c, b) - z3.If(z3.Select(c, f), z3.Select(b, f), 0) + z3.If(v, x, 0),
                  # non-negativity is preserved by writing a non-negative counted value or an uncounted one
                  z3.Implies(z3.And(NONNEG(c, b), z3.Or(z3.Not(v), x >= 0)), NONNEG(c2, b2)),
                  # each counted term is bounded by the sum of non-negative terms (msum_term_le)
                  z3.Implies(z3.And(NONNEG(c, b), z3.Select(c, f)), z3.And(z3.Select(b, f) >= 0, z3.Select(b, f) <= MSUM(c, b))),
                  z3.Implies(NONNEG(c, b), MSUM(c, b) >= 0),
                  z3.Implies(NONNEG(c2, b2), MSUM(c2, b2) >= 0))


def mk_cache(st, cls='FileCache', held=False):
    ff = st.alloc('FFMap', {
        'dom': VArr(z3.Const('M_dom0', BoolArr)), 'writing': VArr(z3.Const('M_writing0', BoolArr)),
        'bytes': VArr(z3.Const('M_bytes0', IntArr)), 'fid': VArr(z3.Const('M_fid0', IntArr)),
        'counted': VArr(z3.Const('M_counted0', BoolArr))}, fresh=False)
    lock = st.alloc('Lock', {'__held': fresh(Bool, 'held') if held is None else lift(held)}, fresh=False)
    ex = st.alloc('Executor', {}, fresh=False)
    c = st.alloc(cls, {'max_memory': fresh(Int, 'max_memory'), 'root_path': fresh(Str, 'root'),
                       'current_memory_usage': fresh(Int, 'cur'), 'file_futures': ff,
                       'file_access_times': VHeap(VArr(z3.Const('H_cnt0', IntArr)), fresh(Int, 'hsize')),
                       'file_futures_lock': lock, 'executor': ex}, fresh=False)
    st.ghost['done_ids'] = VArr(z3.Const('done_ids0', IdBool))
    st.ghost['failed_ids'] = VArr(z3.Const('failed_ids0', IdBool))
    st.ghost['res_of'] = VArr(z3.Const('res_of0', IdStr))
    st.ghost['next_fid'] = fresh(Int, 'next_fid')
    st.ghost['tasks_run'] = lift(0)
    return c


def path_of(st, c, file_name):
    return VU(fs.JOIN(st.field(c, 'root_path').t, file_name.t))


# ------------------------------------------------------------------ locks
def with_lock():
    def enter(eng, st, cm, node):
        # threading.Lock is not re-entrant: acquiring it while held by the same (only) client never returns
        eng.oblige(f"{eng.cur_key}#lock-acquire-not-held@{eng.site_ordinal('lock', node)}", st, Not(st.field(cm, '__held')), kind='lock')
        st.assume(Not(st.field(cm, '__held')))
        st.setfield(cm, '__held', True)
        h = eng.hooks.get('on_acquire')
        if h:
            h(eng, st, cm, node)
        return [(st, NONE)]

    def exit_(eng, st, cm, node, kind, pl):
        h = eng.hooks.get('on_release')
        if h:
            h(eng, st, cm, node)
        st.setfield(cm, '__held', False)
        return [(st, NONE)]
    return enter, exit_


def lock_method(eng, v, attr, st, node):
    if attr == 'locked':
        return [(st, VFunc('locked', model=lambda e, s, a, k, n: [(s, s.field(v, '__held'))]))]
    return None


# ------------------------------------------------------------------ file_futures map
def ff_entry(st, ff, f):
    """the entry stored under f as a Python tuple (writing, bytes, future)"""
    fut = st.alloc('Future', {'__id': st.field(ff, 'fid')[f], '__task': NONE, '__wflag': st.field(ff, 'writing')[f], '__file': f}, fresh=False)
    return VTuple([st.field(ff, 'writing')[f], st.field(ff, 'bytes')[f], fut])


def ff_method(eng, v, attr, st, node):
    if attr == 'get':
        def model(e, s, args, kwargs, n):
            f = args[0]
            outs = []
            for s2, present in e.branch(s, s.field(v, 'dom')[f].t, 'ff.get'):
                outs.append((s2, ff_entry(s2, v, f) if present else (args[1] if len(args) > 1 else NONE)))
            return outs
        return [(st, VFunc('get', model=model))]
    return None


def ff_store(eng, st, ff, f, val, node):
    if not (isinstance(val, VTuple) and len(val.items) == 3):
        raise Refuse("file_futures entry is not a 3-tuple")
    w, b, fut = val.items
    if not isinstance(fut, VObj) or fut.cls != 'Future':
        raise Refuse("file_futures entry without a future")
    counted = lift(eng.cur_key.endswith('update_file_futures_and_memory'))      # ghost update event (see module docstring)
    c0, b0 = st.field(ff, 'counted').t, st.field(ff, 'bytes').t
    st.assume(msum_update_lemma(c0, b0, f.t, counted.t, lift(b).t))
    st.setfield(ff, 'dom', st.field(ff, 'dom').store(f, True))
    st.setfield(ff, 'writing', st.field(ff, 'writing').store(f, VBool(eng.truth(w))))
    st.setfield(ff, 'bytes', st.field(ff, 'bytes').store(f, b))
    st.setfield(ff, 'fid', st.field(ff, 'fid').store(f, st.field(fut, '__id')))
    st.setfield(ff, 'counted', st.field(ff, 'counted').store(f, counted))


def ff_del(eng, st, ff, f, node):
    outs = []
    for s2, present in eng.branch(st, st.field(ff, 'dom')[f].t, 'ff.del'):
        if not present:
            outs.append(('raise', s2, VExc('KeyError', site=node.lineno)))
            continue
        c0, b0 = s2.field(ff, 'counted').t, s2.field(ff, 'bytes').t
        s2.assume(msum_update_lemma(c0, b0, f.t, z3.BoolVal(False), z3.Select(b0, f.t)))
        s2.setfield(ff, 'dom', s2.field(ff, 'dom').store(f, False))
        s2.setfield(ff, 'counted', s2.field(ff, 'counted').store(f, False))
        s2.setfield(ff, 'writing', s2.field(ff, 'writing').store(f, False))
        outs.append(('fall', s2, None))
    return outs


def ff_index(eng, st, ff, f, node):
    outs = []
    for s2, present in eng.branch(st, st.field(ff, 'dom')[f].t, 'ff.index'):
        outs.append((s2, ff_entry(s2, ff, f)) if present else eng.exc(s2, 'KeyError', node))
    return outs


# ------------------------------------------------------------------ executor / futures (single-client model)
def executor_submit(eng, st, args, kwargs, node):
    fn, targs = args[0], list(args[1:])
    fid = st.ghost['next_fid']
    st.ghost['next_fid'] = fid + 1
    st.assume(Not(st.ghost['done_ids'][fid]))
    st.assume(Not(st.ghost['failed_ids'][fid]))
    fut = st.alloc('Future', {'__id': fid, '__task': VTuple([fn] + targs)})
    st.ghost['submitted'] = st.ghost.get('submitted', lift(0)) + 1
    return [(st, fut)]


def future_method(eng, v, attr, st, node):
    if attr == 'done':
        return [(st, VFunc('done', model=lambda e, s, a, k, n: [(s, Or(s.ghost['done_ids'][s.field(v, '__id')], s.ghost['failed_ids'][s.field(v, '__id')]))]))]
    if attr == 'result':
        def model(e, s, args, kwargs, n):
            fid = s.field(v, '__id')
            task = s.field(v, '__task')
            if isinstance(task, VTuple):
                # the deferred task runs now: the submitter waits for it with the lock released
                lock_held = e.hooks['lock_of'](s)
                e.oblige(f"{e.cur_key}#future.result-with-lock-released@{e.site_ordinal('result', n)}", s, Not(lock_held), kind='lock')
                s.setfield(v, '__task', NONE)
                outs = []
                for s2, r in e.apply(task.items[0], list(task.items[1:]), {}, s, n):
                    s2.ghost['tasks_run'] = s2.ghost['tasks_run'] + 1
                    if isinstance(r, Raised):
                        s2.ghost['failed_ids'] = s2.ghost['failed_ids'].store(fid, True)
                        outs.append((s2, r))
                    else:
                        s2.ghost['done_ids'] = s2.ghost['done_ids'].store(fid, True)
                        s2.ghost['res_of'] = s2.ghost['res_of'].store(fid, r)
                        outs.append((s2, r))
                return outs
            # a future taken from the table: it must be complete (nobody else would run it in the single-client model)
            outs = []
            for s2, failed in e.branch(s, s.ghost['failed_ids'][fid].t, 'future.failed'):
                if failed:
                    # the stored exception of a failed task: tasks of this cache fail with OSError instances only (their contracts)
                    # a failed load raised IsADirectoryError / FileNotFoundError (open 'rb'); a failed write some OSError
                    s2.trail.append('cached-failure')
                    wflag = s2.heap[v.oid].get('__wflag')
                    for s3, w in (e.branch(s2, wflag.t, 'failed-entry-writing') if wflag is not None else [(s2, True)]):
                        if w:
                            outs.append((s3, Raised(VExc('OSError', site=getattr(n, 'lineno', None), declared=True))))
                        else:
                            s4 = s3.fork()
                            outs.append((s3, Raised(VExc('IsADirectoryError', site=getattr(n, 'lineno', None)))))
                            outs.append((s4, Raised(VExc('FileNotFoundError', site=getattr(n, 'lineno', None)))))
                else:
                    e.oblige(f"{e.cur_key}#future.result-of-complete-task@{e.site_ordinal('result', n)}", s2, s2.ghost['done_ids'][fid], kind='future')
                    s2.assume(s2.ghost['done_ids'][fid])
                    outs.append((s2, s2.ghost['res_of'][fid]))
            return outs
        return [(st, VFunc('result', model=model))]
    return None


def configure(eng):
    eng.hooks['getattr:File'] = lambda e, v, attr, st, node: [(st, VFunc(attr, model=lambda e2, s, a, k, n: fs.file_method(e2, v, attr, a, k, s, n)))]
    eng.hooks['with:File'] = fs.with_file()
    eng.hooks['with:Lock'] = with_lock()
    eng.hooks['getattr:Lock'] = lock_method
    eng.hooks['getattr:FFMap'] = ff_method
    eng.hooks['getattr:Future'] = future_method

    def setitem(e, obj, key, val, st, node):
        if isinstance(obj, VObj) and obj.cls == 'FFMap':
            ff_store(e, st, obj, key, val, node)
            return True
        return None
    eng.hooks['setitem'] = setitem

    def delitem(e, obj, key, st, node):
        if isinstance(obj, VObj) and obj.cls == 'FFMap':
            return ff_del(e, st, obj, key, node)
        return None
    eng.hooks['delitem'] = delitem

    def index(e, obj, key, st, node):
        if isinstance(obj, VObj) and obj.cls == 'FFMap':
            return ff_index(e, st, obj, key, node)
        return None
    eng.hooks['index'] = index
