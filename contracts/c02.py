"""C02 - adverbs equal their definitional expansion (partial).

The verb is an uninterpreted function (F1 monadic, F2 dyadic); operands are sequences of arbitrary length (z3 Seq) or atoms.
 * Each / Each-2 / Each-Left / Each-Right / Each-Pair / Each-Index: the result is the sequence whose i-th member is the
   definitional application to the i-th member(s) - derived by executing the REAL comprehension body on a generic member
   (Each-2 stops at the shorter operand, Each-Pair applies f to neighbours), atoms and empty operands as documented;
 * Over / Over-Neutral: the generic branch is the left fold of the verb (functools.reduce = left fold: assumed); the unfolding
   foldl f a (b0::bs) = foldl f (f a b0) bs is the definition of the spec; operator shortcuts are taken only for the operator
   whose NumPy ufunc they name and under their guard (ndim == 1 for min/max, non-object dtype for concatenate);
 * Scan-Over: itertools.accumulate (= left scan: assumed) in the generic branch, shortcut table as above;
 * Iterate / Scan-Iterating: loop invariant b = iter f k b0 with variant a (a >= 0: domain precondition from the reference);
 * adverb token -> function and arity tables (get_adverb_fn / get_adverb_arity).
"""
import ast
import z3
from pyvc.values import *
from pyvc.state import Raised
from pyvc.contracts import loop

AD = 'klongpy/adverbs.py::'
T = 'klongpy/types.py::'
SeqObj = z3.SeqSort(Obj)
F1 = z3.Function('F1', Obj, Obj)
F2 = z3.Function('F2', Obj, Obj, Obj)
FOLD = z3.Function('foldl', Obj, SeqObj, Obj)          # foldl F2 init seq
SCAN1 = z3.Function('scanl1', SeqObj, SeqObj)          # itertools.accumulate(seq, F2)
ITER = z3.Function('iterate', Int, Obj, Obj)           # F1 applied k times
ii = z3.Const('i!m', Int)


CHARS = z3.Function('chars', z3.StringSort(), SeqObj)       # backend.str_to_chr_arr: the characters of a string, as KGChar objects


def fold_unfold(init, seq):
    """definition of the left fold at (init, seq)"""
    n = z3.Length(seq)
    return z3.And(z3.Implies(n == 0, FOLD(init, seq) == init),
                  z3.Implies(n >= 1, FOLD(init, seq) == FOLD(F2(init, seq[0]), z3.SubSeq(seq, 1, n - 1))))


def iter_unfold(k, x):
    return z3.And(ITER(0, x) == x, z3.Implies(k >= 0, ITER(k + 1, x) == F1(ITER(k, x))))


def f1_model(eng, st, args, kwargs, node):
    st.ghost['applications'] = st.ghost.get('applications', lift(0)) + 1
    return [(st, VOpaque(F1(eng.as_obj(args[0])), nonnull=True))]


def f2_model(eng, st, args, kwargs, node):
    st.ghost['applications'] = st.ghost.get('applications', lift(0)) + 1
    return [(st, VOpaque(F2(eng.as_obj(args[0]), eng.as_obj(args[1])), nonnull=True))]


def seq_case(names, monad=True, extra=None):
    def f(eng, st):
        for nm in names:
            st.env[nm] = VSeq(z3.Const(nm + '_seq', SeqObj))
        st.env['f'] = VFunc('f', model=f1_model if monad else f2_model)
        st.env['op'] = VOpaque(hint='op')
        st.env['backend'] = VOpaque(hint='backend', nonnull=True)
        if extra:
            extra(eng, st)
    return f


def atom_case(names, monad=True, atoms=None):
    def f(eng, st):
        for nm in names:
            if atoms is None or nm in atoms:
                a = VOpaque(hint=nm, nonnull=True)
                st.assume(a.pred('atom'))
                st.assume(Not(a.pred('isinst:str')))
                st.env[nm] = a
            else:
                st.env[nm] = VSeq(z3.Const(nm + '_seq', SeqObj))
        st.env['f'] = VFunc('f', model=f1_model if monad else f2_model)
        st.env['op'] = VOpaque(hint='op')
        st.env['backend'] = VOpaque(hint='backend', nonnull=True)
    return f


def is_seq(v): return isinstance(v, VSeq)


def elementwise(r, n, term):
    """r is a sequence of length n whose i-th member is term(i)"""
    if not is_seq(r):
        return VBool(False)
    return VBool(z3.And(z3.Length(r.t) == n, z3.ForAll([ii], z3.Implies(z3.And(ii >= 0, ii < n), r.t[ii] == term(ii)))))


def build(reg, src):
    # the compiled shortcut of f/a and f\\a (numpy backend) must denote the adverb's value too: rows of the C05 value-equivalence check
    def compiled_shortcuts(ctx):
        from contracts import c05_values
        return [r for r in c05_values.check_value_equivalence(ctx) if '[reduce-' in r['name'] or '[scan-' in r['name']]
    compiled_shortcuts.__name__ = 'compiled-shortcuts'
    reg.extra_checks.append(compiled_shortcuts)
    reg.assumptions += [
        "the verb is a pure function of its operands (uninterpreted F1/F2); functools.reduce is the left fold and itertools.accumulate "
        "the left scan; zip stops at the shorter operand; kg_asarray / asarray keep the members and their order (dtype aside)",
        "agreement of the ufunc.reduce / accumulate / min / max / concatenate shortcuts with the generic fold of the corresponding dyad "
        "rests on assumed NumPy contracts: only the operator <-> ufunc table and the branch guards are checked",
        "string operands (character arrays, re-joining), Converge / While / Scan-Converging / Scan-While (partial correctness only, a "
        "fixpoint need not exist) and adverb chains (chain_adverbs) are not under contract here; Each on dictionaries is in C10",
        "Iterate with a negative count does not terminate: a >= 0 is the domain precondition of the reference",
    ]
    A = lambda s: s.a0.t
    B = lambda s: s.b0.t
    LEN = z3.Length

    # ---------------- Each family
    reg.fn(AD + 'eval_adverb_each', cases=[('list', seq_case(['a'])), ('atom', atom_case(['a']))], returns='opaque',
           ensures=[lambda s, r: (If(VBool(LEN(A(s)) == 0), same(r, s.a0), elementwise(r, LEN(A(s)), lambda i: F1(A(s)[i]))) if is_seq(s.a0)
                                  else VBool(r.t == F1(A(s))))],
           loops={0: loop(havoc=dict(has_str=Bool, r='nonnull', u='opaque', x='opaque'))})
    reg.fn(AD + 'eval_adverb_each2', cases=[('lists', seq_case(['a', 'b'], monad=False)), ('atoms', atom_case(['a', 'b'], monad=False))], returns='opaque',
           ensures=[lambda s, r: (VBool(True) if getattr(r, 'joined', False) else
                                  Implies(VBool(z3.And(LEN(A(s)) > 0, LEN(B(s)) > 0)),
                                          elementwise(r, z3.If(LEN(A(s)) <= LEN(B(s)), LEN(A(s)), LEN(B(s))), lambda i: F2(A(s)[i], B(s)[i])))
                                  if is_seq(s.a0) else VBool(r.t == F2(A(s), B(s))))])
    # "If b is an atom, then a f:\\b --> f(a;b) and a f:/b --> f(b;a)"  (reference text in the docstring)
    reg.fn(AD + 'eval_adverb_each_left', cases=[('list', atom_case(['a', 'b'], monad=False, atoms=['a'])), ('atom', atom_case(['a', 'b'], monad=False, atoms=['a', 'b']))],
           returns='opaque', raises=[],
           ensures=[lambda s, r: elementwise(r, LEN(B(s)), lambda i: F2(A(s), B(s)[i])) if is_seq(s.b0) else same(r, VOpaque(F2(A(s), s.b0.t)))])
    reg.fn(AD + 'eval_adverb_each_right', cases=[('list', atom_case(['a', 'b'], monad=False, atoms=['a'])), ('atom', atom_case(['a', 'b'], monad=False, atoms=['a', 'b']))],
           returns='opaque', raises=[],
           ensures=[lambda s, r: elementwise(r, LEN(B(s)), lambda i: F2(B(s)[i], A(s))) if is_seq(s.b0) else same(r, VOpaque(F2(s.b0.t, A(s))))])
    def str_case(eng, st):
        seq_case([], monad=False)(eng, st)
        st.env['a'] = VStr(z3.Const('a_str', z3.StringSort()))
        xs, ii2 = z3.Const('x!s', z3.StringSort()), z3.Const('i!s', Int)
        ys = z3.Const('y!s', z3.StringSort())
        # a string operand reaches the verb as Klong CHARACTERS (KGChar objects), never as one-character Python strings
        st.assume(z3.ForAll([xs], z3.Length(CHARS(xs)) == z3.Length(xs)))
        st.assume(z3.ForAll([xs, ii2, ys], CHARS(xs)[ii2] != z3.Function('inj:str', z3.StringSort(), Obj)(ys)))

    def pair_post(s, r):
        if isinstance(s.a0, VStr):
            cs, n = CHARS(s.a0.t), z3.Length(s.a0.t)
            return If(VBool(n <= 1), same(r, s.a0), elementwise(r, n - 1, lambda i: F2(cs[i], cs[i + 1])))
        return (If(VBool(LEN(A(s)) <= 1), same(r, s.a0), elementwise(r, LEN(A(s)) - 1, lambda i: F2(A(s)[i], A(s)[i + 1]))) if is_seq(s.a0)
                else same(r, s.a0))
    reg.fn(AD + 'eval_adverb_each_pair', cases=[('list', seq_case(['a'], monad=False)), ('atom', atom_case(['a'], monad=False)), ('string', str_case)],
           returns='opaque', ensures=[pair_post])
    PAIR = z3.Function('pair', Int, Obj, Obj)       # the [index element] list handed to the verb
    reg.fn(AD + 'eval_adverb_each_index', cases=[('list', seq_case(['a']))], returns='opaque',
           ensures=[lambda s, r: If(VBool(LEN(A(s)) == 0), same(r, s.a0), elementwise(r, LEN(A(s)), lambda i: F1(PAIR(i, A(s)[i]))))])

    # ---------------- Over
    def over_list(eng, st):
        seq_case(['a'], monad=False)(eng, st)
        st.assume(Not(st.env['op'].pred('isinst:KGOp')))        # a user function / lambda: the generic branch

    def over_post(s, r):
        a = A(s)
        n = LEN(a)
        if is_seq(r):                      # only the empty list is returned as it is
            return And(VBool(n == 0), same(r, s.a0))
        return And(VBool(n >= 1), Implies(VBool(n == 1), VBool(r.t == a[0])),
                   Implies(VBool(n >= 2), VBool(r.t == FOLD(a[0], z3.SubSeq(a, 1, n - 1)))))
    reg.fn(AD + 'eval_adverb_over', cases=[('list-generic-verb', over_list), ('atom', atom_case(['a'], monad=False))], returns='opaque',
           ensures=[lambda s, r: over_post(s, r) if is_seq(s.a0) else same(r, s.a0)])
    reg.fn(AD + 'eval_adverb_over_neutral', cases=[('list', atom_case(['a', 'b'], monad=False, atoms=['a'])), ('atoms', atom_case(['a', 'b'], monad=False))], returns='opaque',
           pre_hints=[lambda s: VBool(fold_unfold(s.a.t, s.b.t)) if is_seq(s.b) else VBool(True)],
           ensures=[lambda s, r: (VBool(r.t == FOLD(A(s), B(s))) if is_seq(s.b0) else VBool(r.t == F2(A(s), B(s))))])

    # ---------------- Scan-Over (generic branch)
    reg.fn(AD + 'eval_adverb_scan_over', cases=[('list-generic-verb', over_list), ('atom', atom_case(['a'], monad=False))], returns='opaque',
           ensures=[lambda s, r: (If(VBool(LEN(A(s)) == 0), same(r, s.a0), VBool(r.t == SCAN1(A(s)))) if is_seq(s.a0) and is_seq(r)
                                  else (same(r, s.a0) if not is_seq(s.a0) else VBool(False)))])

    # ---------------- Iterate / Scan-Iterating
    def it_setup(eng, st):
        st.env['a'] = fresh(Int, 'count')
        # a count that was COMPUTED (1+1, #x, x@0 ...) is a NumPy integer, not a Python int: the value is the same, the class is not
        st.ghost['count_is_python_int'] = fresh(Bool, 'count_is_python_int')
        st.env['b'] = VOpaque(hint='b0', nonnull=True)
        st.env['f'] = VFunc('f', model=f1_model)
        st.env['backend'] = VOpaque(hint='backend', nonnull=True)
    it_inv = [lambda s: s.a >= 0, lambda s: s.a <= s.a0, lambda s: VBool(s.b.t == ITER((s.a0 - s.a).t, s.b0.t))]
    it_hint = [lambda s: VBool(iter_unfold((s.a0 - s.a).t, s.b0.t)), lambda s: VBool(iter_unfold((s.a0 - s.a - 1).t, s.b0.t))]
    reg.fn(AD + 'eval_dyad_adverb_iterate', setup=it_setup, requires=[lambda s: s.a >= 0], returns='opaque',
           pre_hints=[lambda s: VBool(iter_unfold(z3.IntVal(0), s.b.t))],
           loops={0: loop(invariant=it_inv, hints=it_hint, variant=lambda s: s.a, havoc=dict(b='nonnull'))},
           ensures=[lambda s, r: VBool(r.t == ITER(s.a0.t, s.b0.t))])

    def as_seq(e_obj, v):
        if isinstance(v, VList):
            units = [z3.Unit(e_obj(x)) for x in v.items]
            return VSeq(units[0] if len(units) == 1 else z3.Concat(*units)) if units else VSeq(z3.Empty(SeqObj))
        return v

    def si_post(s, r):
        n = s.a0.t
        if not is_seq(r):
            return And(VBool(n == 0), same(r, s.b0))
        return And(VBool(n >= 1), elementwise(r, n + 1, lambda i: ITER(i, s.b0.t)))
    si_inv = [lambda s: s.a >= 0, lambda s: s.a <= s.a0, lambda s: VBool(s.b.t == ITER((s.a0 - s.a).t, s.b0.t)),
              lambda s: elementwise(as_seq(lambda x: x.t, s.r), (s.a0 - s.a + 1).t, lambda i: ITER(i, s.b0.t)) if isinstance(s.r, (VSeq, VList)) else VBool(False)]
    reg.fn(AD + 'eval_adverb_scan_iterating', setup=it_setup, requires=[lambda s: s.a >= 0], returns='opaque',
           pre_hints=[lambda s: VBool(iter_unfold(z3.IntVal(0), s.b.t))],
           loops={0: loop(invariant=si_inv, hints=it_hint, variant=lambda s: s.a, havoc=dict(b='nonnull', r=SeqObj))},
           ensures=[si_post])

    # ---------------- dispatch tables
    def check_tables(ctx):
        import sys
        res = []
        t = ctx['src'].tree('klongpy/adverbs.py')
        fn = next(n for n in t.body if isinstance(n, ast.FunctionDef) and n.name == 'get_adverb_fn')
        want = {"'": {1: 'eval_adverb_each', 2: 'eval_adverb_each2'}, '/': {1: 'eval_adverb_over', 2: 'eval_adverb_over_neutral'},
                '\\': {1: 'eval_adverb_scan_over', 2: 'eval_adverb_scan_over_neutral'}, '\\~': {1: 'eval_adverb_scan_converging', 2: 'eval_adverb_scan_while'},
                '\\*': {2: 'eval_adverb_scan_iterating'}, ':\\': {2: 'eval_adverb_each_left'}, ":'": {1: 'eval_adverb_each_pair'},
                ':/': {2: 'eval_adverb_each_right'}, ':*': {2: 'eval_dyad_adverb_iterate'}, ':~': {1: 'eval_adverb_converge', 2: 'eval_adverb_while'},
                "@'": {1: 'eval_adverb_each_index'}}
        bad = []
        seen = {}
        node = fn.body[-2] if isinstance(fn.body[-1], ast.Raise) else None
        cur = next((b for b in fn.body if isinstance(b, ast.If)), None)
        while isinstance(cur, ast.If):
            tok = cur.test.comparators[0].value if isinstance(cur.test, ast.Compare) and isinstance(cur.test.comparators[0], ast.Constant) else None
            ret = cur.body[0].value if isinstance(cur.body[0], ast.Return) else None

            def target(e):
                if isinstance(e, ast.Name):
                    return e.id
                if isinstance(e, ast.Lambda) and isinstance(e.body, ast.Call) and isinstance(e.body.func, ast.Name):
                    # the lambda must forward its own parameters in order (plus klong/backend)
                    params = [a.arg for a in e.args.args]
                    fwd = [a.id for a in e.body.args if isinstance(a, ast.Name) and a.id in params]
                    return e.body.func.id if fwd == params else f"{e.body.func.id}(arguments not forwarded in order)"
                return ast.unparse(e)
            got = {}
            if isinstance(ret, ast.IfExp):
                ar2 = isinstance(ret.test, ast.Compare) and isinstance(ret.test.comparators[0], ast.Constant) and ret.test.comparators[0].value == 2
                got = {2: target(ret.body), 1: target(ret.orelse)} if ar2 else {}
            elif ret is not None:
                only = target(ret)
                got = {k: only for k in want.get(tok, {})}
            seen[tok] = got
            cur = cur.orelse[0] if cur.orelse and isinstance(cur.orelse[0], ast.If) else None
        for tok, w in want.items():
            if seen.get(tok) != w:
                bad.append(f"{tok!r}: {seen.get(tok)} expected {w}")
        res.append(dict(name='klongpy/adverbs.py::get_adverb_fn#token-to-function-table', ok=not bad, backend='ast-structural', detail='; '.join(bad[:3]) or 'all 11 adverb tokens dispatch to their functions'))
        # arity table: executed on the real function (finite domain)
        sys.path.insert(0, ctx['src'].repo)
        from klongpy.types import get_adverb_arity
        arity = {"'": None, ':\\': 2, ":'": 2, ':/': 2, '/': 2, ':~': 1, ':*': 1, '\\': 2, '\\~': 1, '\\*': 1, "@'": 1}
        bad = [f"{k!r}: {get_adverb_arity(k, c)} expected {v if v is not None else c}" for k, v in arity.items() for c in (1, 2)
               if get_adverb_arity(k, c) != (v if v is not None else c)]
        res.append(dict(name='klongpy/types.py::get_adverb_arity#table', ok=not bad, backend='exhaustive-enumeration', detail='; '.join(bad[:3]) or 'arity of the verb under each adverb as in the reference'))
        # shortcut tables of Over / Scan-Over: operator char <-> ufunc and guards
        for fname, table in (('eval_adverb_over', {'+': ('add', 'reduce', None), '-': ('subtract', 'reduce', None), '*': ('multiply', 'reduce', None), '%': ('divide', 'reduce', None),
                                                   '&': ('min', None, 'ndim'), '|': ('max', None, 'ndim'), ',': ('concatenate', None, 'dtype')}),
                             ('eval_adverb_scan_over', {'+': ('add', 'accumulate', None), '-': ('subtract', 'accumulate', None), '*': ('multiply', 'accumulate', None), '%': ('divide', 'accumulate', None)})):
            f2 = next(n for n in t.body if isinstance(n, ast.FunctionDef) and n.name == fname)
            bad = []
            found = {}
            for n in ast.walk(f2):
                if isinstance(n, ast.If) and isinstance(n.body[0], ast.Return):
                    txt = ast.unparse(n.test)
                    m = [c for c in table if f"safe_eq(op.a, {c!r})" in txt]
                    if len(m) == 1:
                        found[m[0]] = (txt, ast.unparse(n.body[0].value))
            for c, (uf, meth, guard) in table.items():
                if c not in found:
                    bad.append(f"no shortcut branch for {c!r}")
                    continue
                txt, ret = found[c]
                call = f"np_backend.{uf}.{meth}(a)" if meth else None
                if meth and call not in ret:
                    bad.append(f"{c!r} shortcut returns {ret!r}, expected {call}")
                if not meth and f"np_backend.{uf}(" not in ret:
                    bad.append(f"{c!r} shortcut returns {ret!r}, expected np_backend.{uf}(...)")
                if guard == 'ndim' and 'a.ndim == 1' not in txt:
                    bad.append(f"{c!r} shortcut (min/max of the whole array) is not guarded by a.ndim == 1")
                if guard == 'dtype' and "a.dtype != 'O'" not in txt:
                    bad.append(f"{c!r} shortcut (concatenate) is not guarded by a non-object dtype")
            extra = set(found) - set(table)
            if extra:
                bad.append(f"unexpected shortcuts for {sorted(extra)}")
            res.append(dict(name=f"klongpy/adverbs.py::{fname}#operator-shortcut-table-and-guards", ok=not bad, backend='ast-structural',
                            detail='; '.join(bad[:3]) or 'every shortcut names the ufunc of its own operator under its guard'))
        return res
    reg.extra_checks.append(check_tables)

    # (bounded, labelled) every adverb on a grid of verbs and operands against the written-out applications of the verb
    def expansion_oracle(ctx):
        from pyvc.run import run_replay
        import replay.c02_oracle as orc
        r = run_replay(lambda inputs, name: dict(rows=orc.grouped_rows()), {}, 'expansion-oracle', timeout_s=240)
        rows_ = r.get('rows') if isinstance(r, dict) else None
        if not rows_:
            return [dict(name='expansion-oracle(bounded)::harness', ok=False, undecided=True, backend='native-execution (bounded)', detail=str(r)[:300])]
        return [dict(name=f"expansion-oracle(bounded)::{g}", ok=bool(ok), backend='native-execution (bounded)', detail=d, confirmed=not ok) for g, ok, d in rows_]
    expansion_oracle.__name__ = 'expansion-oracle'
    reg.extra_checks.append(expansion_oracle)
    reg.bounded.append(dict(check='expansion-oracle', tool='native evaluation of the adverb expression vs. separately evaluated plain applications of the verb',
                            bound='10 dyadic verbs x 13 operands x 7 adverbs, 4 monads x Each, Iterate/Scan-Iterating with literal and computed counts, 6 two-adverb chains (about 600 cases)',
                            result='see rows'))

    # safe_eq is modelled below from its source: keep the model tied to it
    def safe_eq_source(ctx):
        fn = ctx['src'].find(T + 'safe_eq')
        txt = ast.unparse(fn.body[-1]) if fn is not None else None
        ok = txt == 'return isinstance(a, type(b)) and a == b'
        return [dict(name=T + 'safe_eq#body-as-modelled', ok=ok, undecided=not ok, backend='ast-structural',
                     detail='safe_eq(a, b) is `isinstance(a, type(b)) and a == b` (the model used for counts)' if ok else f"safe_eq is now {txt!r}: the model of it is out of date")]
    reg.extra_checks.append(safe_eq_source)
    from pyvc.leancheck import lean_check
    reg.extra_checks.append(lean_check('Folds.lean', ['foldl_cons', 'scanl_last']))
    from replay import c02 as rp
    reg.replays.append((r'eval_dyad_adverb_iterate|eval_adverb_scan_iterating', rp.replay_iterate_counts))
    reg.replays.append((r'.', rp.replay_adverbs))


REGIONS = {}


def configure(eng):
    eng.opaque_classes |= {'KGOp'}
    eng.module_names |= {'bknp', 'functools', 'itertools', 'backend'}
    X = eng.reg.externals

    def const(val):
        return lambda e, st, a, k, n: [(st, val(a, st))]
    def atom_pred(a):
        return a.pred('atom') if isinstance(a, VOpaque) else VBool(False)
    is_sq = lambda v: is_seq(v) or isinstance(v, VStr)
    X['is_empty'] = lambda e, st, a, k, n: [(st, VBool(z3.Length(a[0].t) == 0) if is_sq(a[0]) else VBool(False))]
    X['is_iterable'] = lambda e, st, a, k, n: [(st, VBool(is_sq(a[0])))]
    X['is_list'] = lambda e, st, a, k, n: [(st, VBool(is_seq(a[0])))]
    X['is_dict'] = lambda e, st, a, k, n: [(st, VBool(False))]
    X['is_atom'] = lambda e, st, a, k, n: [(st, VBool(z3.Length(a[0].t) == 0) if is_sq(a[0]) else VBool(True))]
    X['backend.kg_asarray'] = lambda e, st, a, k, n: [(st, to_seq(e, st, a[0]))]
    X['bknp.asarray'] = lambda e, st, a, k, n: [(st, to_seq(e, st, a[0]))]
    X['backend.str_to_chr_arr'] = lambda e, st, a, k, n: [(st, VSeq(CHARS(a[0].t)) if isinstance(a[0], VStr) else a[0])]
    def safe_eq_model(e, st, a, k, n):
        # isinstance(a, type(b)) and a == b: for an integer count compared with the literal 0 the class test is the ghost flag
        if isinstance(a[0], VInt):
            flag = st.ghost.get('count_is_python_int')
            return [(st, And(flag, a[0] == a[1]) if flag is not None else (a[0] == a[1]))]
        return [(st, VBool(z3.Const(fresh_name('safe_eq'), Bool)))]
    X['safe_eq'] = safe_eq_model

    def reduce_(e, st, a, k, n):
        f, seq = a[0], a[1]
        if not is_seq(seq):
            raise Refuse("functools.reduce over a non-sequence")
        if len(a) == 3:
            return [(st, VOpaque(FOLD(e.as_obj(a[2]), seq.t), nonnull=True))]
        # no initial value: left fold of the tail from the head (TypeError on an empty sequence)
        outs = []
        for s2, ne in e.branch(st, z3.Length(seq.t) >= 1, 'reduce'):
            outs.append((s2, VOpaque(FOLD(seq.t[0], z3.SubSeq(seq.t, 1, z3.Length(seq.t) - 1)), nonnull=True)) if ne else e.exc(s2, 'TypeError', n))
        return outs
    X['functools.reduce'] = reduce_
    X['itertools.accumulate'] = lambda e, st, a, k, n: [(st, VSeq(SCAN1(a[0].t)))]

    def blist(e, args, kwargs, st, node):
        if args and is_seq(args[0]):
            return [(st, args[0])]
        return None
    eng.hooks['builtin:list'] = blist

    def to_seq(e, st, v):
        if is_seq(v):
            return v
        if isinstance(v, VList) and len(v.items) == 2 and isinstance(v.items[0], VInt):
            return VOpaque(z3.Function('pair', Int, Obj, Obj)(v.items[0].t, e.as_obj(v.items[1])), nonnull=True)
        if isinstance(v, VList):
            t = z3.Empty(SeqObj)
            for x in v.items:
                t = z3.Concat(t, z3.Unit(e.as_obj(x)))
            return VSeq(t)
        raise Refuse(f"asarray of {v!r}")

    def comprehension(e, node, kind, it, st):
        """[elt for targets in <sequence(s)>]: the REAL element expression is evaluated on the generic i-th member(s);
        the result is the sequence R with |R| = n and R[i] = that term (a definitional extension)"""
        if kind != 'list' or node.generators[0].ifs:
            return None
        if isinstance(it, VOpaque) and it.nonnull:
            # an atom that is not a string (number, symbol, function): not iterable (assumed; empty lists / dictionaries are not in this case)
            return [e.exc(st, 'TypeError', node)]
        seqs, mode = None, None
        is_sq2 = lambda v: is_seq(v) or isinstance(v, VStr)
        if is_sq2(it):
            seqs, mode = [it], 'plain'
        elif isinstance(it, VTuple) and it.items and it.items[0] == 'zip' and all(is_sq2(x) for x in it.items[1:]):
            seqs, mode = list(it.items[1:]), 'zip'
        elif isinstance(it, VTuple) and it.items and it.items[0] == 'enumerate' and is_seq(it.items[1]):
            seqs, mode = [it.items[1]], 'enumerate'
        if seqs is None:
            return None
        i = z3.Const(fresh_name('i'), Int)
        n = z3.Length(seqs[0].t)
        for q in seqs[1:]:
            n = z3.If(z3.Length(q.t) < n, z3.Length(q.t), n)
        s1 = st.fork()
        s1.assume(z3.And(i >= 0, i < n))
        # iterating a Python string yields one-character Python strings (inj:str), iterating an array its members
        members = [VOpaque(z3.Function('inj:str', z3.StringSort(), Obj)(z3.SubString(q.t, i, 1)) if isinstance(q, VStr) else q.t[i], nonnull=True) for q in seqs]
        elem = members[0] if mode == 'plain' else VTuple(members) if mode == 'zip' else VTuple([VInt(i), members[0]])
        e.assign_target(node.generators[0].target, elem, s1, node)
        outs = [(s2, v) for s2, v in e.ev(node.elt, s1) if not isinstance(v, Raised)]
        if len(outs) != 1:
            raise Refuse("comprehension body forks")
        v = outs[0][1]
        term = e.as_obj(v)
        R = z3.Const(fresh_name('R'), SeqObj)
        st.assume(z3.And(z3.Length(R) == n, z3.ForAll([i], z3.Implies(z3.And(i >= 0, i < n), R[i] == term))))
        return [(st, VSeq(R))]
    eng.hooks['comprehension'] = comprehension
    eng.stable_opaque_attrs |= {'a'}

    def getattr_seq_dtype(v, attr, st, node):
        return None
    orig_getattr = eng.getattr

    def getattr2(v, attr, st, node):
        if is_seq(v) and attr in ('dtype', 'ndim', 'shape'):
            return [(st, VOpaque(hint=attr))]
        return orig_getattr(v, attr, st, node)
    eng.getattr = getattr2

    def method(e, o, m, args, kwargs, st, node):
        if isinstance(o, VSeq) and m == 'append':
            e.rebind(st, o, VSeq(z3.Concat(o.t, z3.Unit(e.as_obj(args[0])))))
            return [(st, NONE)]
        if isinstance(o, VStr) and m == 'join':
            j = VOpaque(hint='joined', nonnull=True)
            j.joined = True          # a character array re-joined into a string: string operands are outside this contract
            return [(st, j)]
        return None
    eng.hooks['method'] = method
