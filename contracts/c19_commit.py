"""C19 (indexed tables): `Table.commit` - merging the insert buffer into the frame - under contract.

Abstract frames as in contracts/c16_tables.py: has(f,k), first(f,k), last(f,k) (first / last row with key k in row order), uniq(f),
srt(f).  Class invariant of an indexed table: the frame is unique and sorted.  The buffered rows, keyed by the index columns, form the
frame BF (any keys, any multiplicity, insertion order).  Postcondition of commit on an indexed table (the property's sentence "each key
has exactly one row - the last inserted - and rows are ordered by key"):
    commit returns normally (never raises);  the new frame R is unique and sorted;  has(R,k) <=> has(D,k) or has(BF,k);
    row(R,k) = last(BF,k) if has(BF,k) else row(D,k);  the buffer is empty.
pandas as assumed contracts:
    a.index.intersection(b.index)      the keys present in both
    f.loc[keys]                        the rows of f with those keys, in f's order (all of them when a key occurs several times)
    f.loc[keys] = g                    aligns on the index: raises ValueError when g has a key twice; raises TypeError when a value of g does
                                       not fit the dtype of its column in f (pandas 3: no silent upcast on assignment); else replaces the rows
    f.drop(index=keys)                 the rows of f whose key is not among keys, order kept
    f.index.isin(keys), ~mask, f.loc[mask] / f[mask]     boolean selection, order kept
    f.index.duplicated(keep='first'|'last')              marks all but the first / last occurrence
    pd.concat([a,b])                   rows of a then rows of b; unique iff both are and they share no key
    f.sort_index(inplace=True)         in place: same rows in key order (rows with equal keys in unspecified order)
Runs as its own small verification (separate registry/engine) inside the C19 check.  The unindexed branch (append in order) is the
existing assumed NumPy contract of contracts/c19.py."""
import ast
import time
import z3

from pyvc import smt
from pyvc.contracts import Registry
from pyvc.engine import Engine
from pyvc.values import *

T = 'klongpy/db/sys_fn_db.py::Table.'
HAS = z3.Function('frame:has', Obj, Int, Bool)
FIRST = z3.Function('frame:first', Obj, Int, Obj)
LAST = z3.Function('frame:last', Obj, Int, Obj)
UNIQ = z3.Function('frame:uniq', Obj, Bool)
SRT = z3.Function('frame:sorted', Obj, Bool)
INSET = z3.Function('keys:in', Obj, Int, Bool)
FITS = z3.Function('frame:values-fit-dtypes-of', Obj, Obj, Bool)      # every value of the second frame fits the dtype of its column in the first
kq = z3.Const('k!q', Int)


def uniq_def(f):
    """a frame with one row per key has first == last for every key (NOT the converse: the same row may occur twice)"""
    return z3.Implies(UNIQ(f), z3.ForAll([kq], z3.Implies(HAS(f, kq), FIRST(f, kq) == LAST(f, kq))))


def build(reg, src):
    def setup(eng, st):
        D = VOpaque(hint='df', nonnull=True)
        o = st.alloc('Table', dict(_df=D, buffer=VOpaque(hint='buffer', nonnull=True), columns=VOpaque(hint='columns', nonnull=True),
                                   idx_cols=VOpaque(hint='idx_cols', nonnull=True)), hint='self', fresh=False)
        st.env['self'] = o
        st.assume(z3.And(UNIQ(D.t), SRT(D.t), uniq_def(D.t)))
        st.ghost['BF'] = NONE
        st.ghost['D0'] = D

    def post(s, r):
        bf = s.g('BF')
        R = s.st.field(s.self, '_df')
        D0 = s.g('D0').t
        if not isinstance(R, VOpaque):
            return VBool(False)
        if isinstance(bf, VNoneT):
            return VBool(z3.eq(R.t, D0))            # nothing buffered: the frame is untouched
        B, Rt = bf.t, R.t
        return VBool(z3.And(UNIQ(Rt), SRT(Rt),
                            z3.ForAll([kq], z3.And(HAS(Rt, kq) == z3.Or(HAS(D0, kq), HAS(B, kq)),
                                                   z3.Implies(HAS(Rt, kq), FIRST(Rt, kq) == z3.If(HAS(B, kq), LAST(B, kq), FIRST(D0, kq)))))))

    def buffer_empty(s, r):
        b = s.st.field(s.self, 'buffer')
        return VBool((isinstance(b, VList) and not b.items) or isinstance(s.g('BF'), VNoneT))
    # the indexed, non-empty case: `not self.buffer` false, has_index() true
    reg.fn(T + 'commit', setup=setup, returns=None, raises=[], ensures=[post, buffer_empty])
    reg.fn(T + 'has_index', returns=Bool, verify=False, ensures=[lambda s, r: r], raises=[])

    def raw(e, st, a, k, n):
        """pd.DataFrame(self.buffer, columns=...): the buffered rows in insertion order; their abstract view by the index columns IS BF"""
        bf = VOpaque(hint='buffer_rows', nonnull=True)
        st.ghost['BF'] = bf
        st.assume(uniq_def(bf.t))
        return [(st, bf)]
    reg.externals['pd.DataFrame'] = raw

    def create_index(e, st, a, k, n):
        """_create_index_from_cols(df, idx_cols): index set from the columns, sort_index (NOT stable), row-wise drop_duplicates:
        same keys; sorted; when df has one row per key the rows are those rows, otherwise which rows come first/last is unspecified"""
        W = a[0].t
        X = VOpaque(hint='keyed', nonnull=True)
        same = z3.ForAll([kq], z3.And(FIRST(X.t, kq) == FIRST(W, kq), LAST(X.t, kq) == LAST(W, kq)))
        st.assume(z3.And(SRT(X.t), uniq_def(X.t), z3.ForAll([kq], HAS(X.t, kq) == HAS(W, kq)), z3.Implies(UNIQ(W), z3.And(same, UNIQ(X.t)))))
        return [(st, X)]
    reg.externals['self._create_index_from_cols'] = create_index

    def concat(e, st, a, k, n):
        parts = a[0].items if isinstance(a[0], (VList, VTuple)) else None
        if not parts or len(parts) != 2 or not all(isinstance(p, VOpaque) for p in parts):
            raise Refuse("pd.concat of something else than two frames")
        A_, B_ = parts[0].t, parts[1].t
        C = VOpaque(hint='concat', nonnull=True)
        st.assume(z3.And(z3.ForAll([kq], z3.And(HAS(C.t, kq) == z3.Or(HAS(A_, kq), HAS(B_, kq)),
                                                FIRST(C.t, kq) == z3.If(HAS(A_, kq), FIRST(A_, kq), FIRST(B_, kq)),
                                                LAST(C.t, kq) == z3.If(HAS(B_, kq), LAST(B_, kq), LAST(A_, kq)))),
                         UNIQ(C.t) == z3.And(UNIQ(A_), UNIQ(B_), z3.ForAll([kq], z3.Not(z3.And(HAS(A_, kq), HAS(B_, kq))))),
                         uniq_def(C.t)))
        return [(st, C)]
    reg.externals['pd.concat'] = concat
    reg.assumptions += ["pandas contracts as stated in contracts/c19_commit.py; the key of a row is an integer (any totally ordered key sort would do)",
                        "the buffered rows keyed by the index columns (result of _create_index_from_cols on the buffer frame) are an arbitrary frame BF"]


def configure(eng):
    eng.module_names |= {'pd', 'np'}
    eng.opaque_methods |= {'sort_index', 'duplicated', 'intersection', 'isin', 'drop_duplicates', 'drop'}
    eng.stable_opaque_attrs |= {'index', 'loc'}
    eng.opaque_ops_may_raise = False
    tags = {}

    def base_frame(t):
        """frame term of  <frame>.index / <frame>.loc / <frame>"""
        if z3.is_app(t) and t.decl().name() in ('attr:index', 'attr:loc'):
            return t.arg(0)
        return t

    def truth_buffer(e, v):
        return None
    eng.hooks['truth:Table'] = lambda e, v: z3.BoolVal(True)

    def opaque_method(e, o, name, args, kwargs, st, node):
        t = o.t
        if name == 'intersection':
            A_, B_ = base_frame(t), base_frame(args[0].t)
            ks = VOpaque(hint='keys', nonnull=True)
            st.assume(z3.ForAll([kq], INSET(ks.t, kq) == z3.And(HAS(A_, kq), HAS(B_, kq))))
            tags[str(ks.t)] = ('keys',)
            return [(st, ks)]
        if name == 'isin':
            m = VOpaque(hint='mask', nonnull=True)
            tags[str(m.t)] = ('isin', base_frame(t), args[0].t, False)
            return [(st, m)]
        if name == 'duplicated':
            keep = kwargs.get('keep', args[0] if args else lift('first'))
            ks = z3.simplify(keep.t) if isinstance(keep, VStr) else None
            if ks is None or not z3.is_string_value(ks) or ks.as_string() not in ('first', 'last'):
                raise Refuse("duplicated(keep=...) other than 'first'/'last'")
            m = VOpaque(hint='mask', nonnull=True)
            tags[str(m.t)] = ('dup', base_frame(t), ks.as_string(), False)
            return [(st, m)]
        if name == 'drop_duplicates':
            sub, keep = kwargs.get('subset'), kwargs.get('keep', lift('first'))
            ks = z3.simplify(keep.t) if isinstance(keep, VStr) else None
            if args or any(k not in ('subset', 'keep') for k in kwargs) or ks is None or not z3.is_string_value(ks) or ks.as_string() not in ('first', 'last'):
                raise Refuse("drop_duplicates with other arguments")
            R = VOpaque(hint='dedup', nonnull=True)
            idx_cols = [f.get('idx_cols') for f in st.heap.values() if 'idx_cols' in f]
            by_key = sub is not None and isinstance(sub, VOpaque) and any(isinstance(c, VOpaque) and z3.eq(c.t, sub.t) for c in idx_cols)
            if by_key:            # one row per value of the index columns: the first / last in row order; order kept
                pick = FIRST if ks.as_string() == 'first' else LAST
                st.assume(z3.And(UNIQ(R.t), uniq_def(R.t), z3.ForAll([kq], z3.And(HAS(R.t, kq) == HAS(t, kq), FIRST(R.t, kq) == pick(t, kq), LAST(R.t, kq) == pick(t, kq)))))
            else:                 # row-wise: identical rows collapse; several rows per key may remain
                st.assume(z3.And(uniq_def(R.t), z3.ForAll([kq], HAS(R.t, kq) == HAS(t, kq)), z3.Implies(UNIQ(t), z3.And(UNIQ(R.t), z3.ForAll([kq], z3.And(FIRST(R.t, kq) == FIRST(t, kq), LAST(R.t, kq) == LAST(t, kq)))))))
            return [(st, R)]
        if name == 'drop':
            ks = kwargs.get('index')
            if args or set(kwargs) != {'index'} or not isinstance(ks, VOpaque) or tags.get(str(ks.t), (None,))[0] != 'keys':
                raise Refuse("drop with other arguments than index=<keys>")
            return [(st, select(st, base_frame(t), lambda k: z3.Not(INSET(ks.t, k))))]
        if name == 'sort_index':
            X = t
            inplace = kwargs.get('inplace')
            if args or any(k not in ('inplace', 'kind') for k in kwargs):
                raise Refuse("sort_index with other arguments")
            kind = kwargs.get('kind')
            stable = isinstance(kind, VStr) and z3.is_string_value(z3.simplify(kind.t)) and z3.simplify(kind.t).as_string() in ('stable', 'mergesort')
            S = VOpaque(hint='sorted', nonnull=True)
            same = z3.ForAll([kq], z3.And(FIRST(S.t, kq) == FIRST(X, kq), LAST(S.t, kq) == LAST(X, kq)))
            st.assume(z3.And(SRT(S.t), UNIQ(S.t) == UNIQ(X), uniq_def(S.t), z3.ForAll([kq], HAS(S.t, kq) == HAS(X, kq)),
                             same if stable else z3.Implies(UNIQ(X), same)))
            if inplace is not None and isinstance(inplace, VBool) and z3.is_true(z3.simplify(inplace.t)):
                replace_frame(st, X, S)
                return [(st, NONE)]
            return [(st, S)]
        return None
    eng.hooks['opaque_method'] = opaque_method

    def replace_frame(st, old_t, new_v):
        """the frame OBJECT is updated in place: every holder now sees the new contents"""
        for oid, flds in st.heap.items():
            for f, v in list(flds.items()):
                if isinstance(v, VOpaque) and z3.eq(v.t, old_t):
                    flds[f] = new_v
        for n, v in list(st.env.items()):
            if isinstance(v, VOpaque) and z3.eq(v.t, old_t):
                st.env[n] = new_v

    def unaryop(e, op, v, st, node):
        if isinstance(op, ast.Invert) and isinstance(v, VOpaque) and str(v.t) in tags and tags[str(v.t)][0] in ('isin', 'dup'):
            k, f, x, neg = tags[str(v.t)]
            m = VOpaque(hint='notmask', nonnull=True)
            tags[str(m.t)] = (k, f, x, not neg)
            return [(st, m)]
        return None
    eng.hooks['unaryop'] = unaryop

    def select(st, F, keep_cond, uniq_known=None):
        """rows of F whose key satisfies keep_cond(k), order kept"""
        R = VOpaque(hint='sel', nonnull=True)
        st.assume(z3.And(z3.ForAll([kq], z3.And(HAS(R.t, kq) == z3.And(HAS(F, kq), keep_cond(kq)),
                                                z3.Implies(HAS(R.t, kq), z3.And(FIRST(R.t, kq) == FIRST(F, kq), LAST(R.t, kq) == LAST(F, kq))))),
                         z3.Implies(SRT(F), SRT(R.t)), z3.Implies(UNIQ(F), UNIQ(R.t)), uniq_def(R.t)))
        return R

    def index(e, v, i, st, node):
        if not (isinstance(v, VOpaque) and isinstance(i, VOpaque)):
            return None
        F = base_frame(v.t)
        tag = tags.get(str(i.t))
        if tag is None:
            return None
        if tag[0] == 'keys':
            return [(st, select(st, F, lambda k: INSET(i.t, k)))]
        if tag[0] == 'isin':
            _, f, ks, neg = tag
            if not z3.eq(f, F):
                raise Refuse("mask of another frame")
            return [(st, select(st, F, (lambda k: z3.Not(INSET(ks, k))) if neg else (lambda k: INSET(ks, k))))]
        if tag[0] == 'dup':
            _, f, keep, neg = tag
            if not neg or not z3.eq(f, F):
                raise Refuse("boolean selection other than frame[~frame.index.duplicated(...)]")
            R = VOpaque(hint='dedup', nonnull=True)
            pick = FIRST if keep == 'first' else LAST
            st.assume(z3.And(UNIQ(R.t), uniq_def(R.t), z3.Implies(SRT(F), SRT(R.t)),
                             z3.ForAll([kq], z3.And(HAS(R.t, kq) == HAS(F, kq), FIRST(R.t, kq) == pick(F, kq), LAST(R.t, kq) == pick(F, kq)))))
            return [(st, R)]
        return None
    eng.hooks['index'] = index

    def setitem(e, v, i, val, st, node):
        """<frame>.loc[keys] = other"""
        if isinstance(v, VOpaque) and z3.is_app(v.t) and v.t.decl().name() == 'attr:loc' and isinstance(i, VOpaque) and tags.get(str(i.t), (None,))[0] == 'keys' \
                and isinstance(val, VOpaque):
            F, G, ks = v.t.arg(0), val.t, i.t
            outs = []
            for s2, ok in e.branch(st, UNIQ(G), f"loc-assign-aligns@{node.lineno}"):
                if not ok:
                    outs.append(('raise', s2, VExc('ValueError', site=node.lineno)))       # cannot reindex on an axis with duplicate labels
                    continue
                # pandas 3 does not upcast on assignment: a value that does not fit the column's dtype (a real into an integer column) raises
                s3 = s2.fork()
                s3.assume(z3.Not(FITS(F, G)))
                if e.feasible(s3):
                    outs.append(('raise', s3, VExc('TypeError', site=node.lineno)))
                s2.assume(FITS(F, G))
                N = VOpaque(hint='updated', nonnull=True)
                s2.assume(z3.And(UNIQ(N.t) == UNIQ(F), SRT(N.t) == SRT(F), uniq_def(N.t),
                                 z3.ForAll([kq], z3.And(HAS(N.t, kq) == HAS(F, kq),
                                                        FIRST(N.t, kq) == z3.If(z3.And(INSET(ks, kq), HAS(G, kq)), FIRST(G, kq), FIRST(F, kq)),
                                                        LAST(N.t, kq) == z3.If(z3.And(INSET(ks, kq), HAS(G, kq)), LAST(G, kq), LAST(F, kq))))))
                replace_frame(s2, F, N)
                outs.append(('fall', s2, None))
            return outs
        return None
    eng.hooks['setitem'] = setitem


def commit_check(ctx):
    src = ctx['src']
    reg = Registry('C19')
    build(reg, src)
    eng = Engine(src, reg)
    eng._names = set()
    configure(eng)
    try:
        eng.verify_fn(T + 'commit')
    except Refuse as e:
        rows = [dict(name=T + 'commit#merge.refused', ok=False, undecided=True, backend='z3', detail=f"refused: {e}")]
        return _with_battery(rows, ctx)
    obls = eng.obligations
    smt.discharge(obls, timeout_s=20 if ctx['tier'] == 'quick' else 90)
    rows, n_real = [], 0
    for o in obls:
        kind = o.meta.get('kind')
        if kind == 'vacuity-neg':
            if o.result == 'unsat':
                rows.append(dict(name=o.name.replace('#', '#merge.'), ok=False, undecided=True, backend=o.backend, detail='vacuity probe unsatisfiable'))
            continue
        n_real += 1
        nm = o.name.replace('commit#', 'commit#merge.')
        if o.result == 'unsat':
            rows.append(dict(name=nm, ok=True, backend=o.backend, detail=f"trail={o.meta.get('trail')}", time=o.time))
        elif o.result == 'sat':
            rows.append(dict(name=nm, ok=False, backend=o.backend, detail=f"counter-model on path {o.meta.get('trail')}: {str(o.goal)[:300]}"))
        else:
            rows.append(dict(name=nm, ok=False, undecided=True, backend=o.backend, detail=f"undecided on path {o.meta.get('trail')}: {getattr(o, 'why', '')}"))
    if n_real == 0:
        rows.append(dict(name=T + 'commit#merge.zero-obligations', ok=False, undecided=True, backend='z3', detail='no obligation generated'))
    ctx['eng'].verified[T + 'commit (merge contract)'] = dict(sha=src.sha(src.find(T + 'commit')), paths=eng.paths.get(T + 'commit'), backend='z3 (own registry)')
    return _with_battery(rows, ctx)


def _with_battery(rows, ctx):
    """failed or undecided rows: the native battery decides whether there is a failing input on the real code"""
    bad = [r for r in rows if not r['ok']]
    if bad:
        from pyvc.run import run_replay
        import replay.c19 as rp
        r = run_replay(rp.replay_indexed_commit, {}, bad[0]['name'], timeout_s=60)
        for b in bad:
            if r.get('confirmed'):
                b['confirmed'] = True
                b['undecided'] = False
                b['detail'] += f" | real code: {r.get('detail')}"
            b['replay'] = dict(result=r)
    return rows


commit_check.__name__ = 'indexed-commit'
