"""C16 - the file-backed key-value store is a persistent dictionary; cache accounting.

Single-client reasoning over the symbolic image of FileCache (contracts/filecache.py) and the ghost file model:
 * W  (holds whenever this client owns the lock, also inside worker tasks):
       cur == msum(counted, bytes), every counted term >= 0, 0 <= cur <= max,
       every file is at most once in the heap, heap files are in the table and are writing or counted,
       counted entries are in the table and not writing, an uncounted entry carries 0 bytes (it is a claim only)
 * Q  (quiescent, at entry and exit - normal AND exceptional - of every public method):
       W, lock free, every table entry is non-writing and either
         - counted, its future complete, result == contents of its file (OS view), bytes == len(result), or
         - a failed placeholder (load/write task raised): uncounted, 0 bytes, not in the heap
 * map behaviour: set(k,v) => os[path k] == ser(v), other paths untouched; get(k) == deser(os[path k]) whether cached
   or not (hence "latest set", also through a fresh store on the same directory); never-set / directory key => :undefined
"""
import z3
from pyvc.values import *
from pyvc.state import Raised
from pyvc.contracts import loop
from . import fsmodel as fs
from . import filecache as fc
from .filecache import MSUM, NONNEG, VHeap
from .fsmodel import VArr

F = fc.F
KV = 'klongpy/db/sys_fn_kvs.py::KeyValueStorage.'
H = 'klongpy/db/helpers.py::'
SER = z3.Function('serialize_obj', Obj, Str)
DESER = z3.Function('deserialize_obj', Str, Obj)
FKey = fs.FKey
fq = z3.Const('f!q', FKey)
UNDEF = VOpaque(z3.Const('KLONG_UNDEFINED', Obj), nonnull=True)


def eng_as_obj(v):
    return v.t


def A(st, c):
    ff = st.field(c, 'file_futures')
    hp = st.field(c, 'file_access_times')
    return dict(dom=st.field(ff, 'dom').t, writing=st.field(ff, 'writing').t, bytes=st.field(ff, 'bytes').t,
                fid=st.field(ff, 'fid').t, counted=st.field(ff, 'counted').t, cnt=hp.cnt.t, hsize=hp.size.t,
                cur=st.field(c, 'current_memory_usage').t, max=st.field(c, 'max_memory').t,
                held=st.field(st.field(c, 'file_futures_lock'), '__held').t, root=st.field(c, 'root_path').t)


def sel(a, k): return z3.Select(a, k)


def W(st, c, hole=None, extra_cnt=None):
    a = A(st, c)
    f = fq
    cnt = a['cnt']
    tot = sel(cnt, f) if extra_cnt is None else sel(cnt, f) + sel(extra_cnt, f)
    inheap = z3.Implies(tot >= 1, sel(a['dom'], f))
    if hole is not None:
        inheap = z3.Or(f == hole.t, inheap)
    body = z3.And(sel(cnt, f) >= 0, tot <= 1, inheap,
                  z3.Implies(sel(a['counted'], f), z3.And(sel(a['dom'], f), z3.Not(sel(a['writing'], f)),
                                                          tot >= 1 if hole is None else z3.Or(f == hole.t, tot >= 1))),
                  z3.Implies(z3.And(sel(a['dom'], f), z3.Not(sel(a['counted'], f))), sel(a['bytes'], f) == 0))
    if extra_cnt is not None:
        body = z3.And(body, sel(extra_cnt, f) >= 0,
                      z3.Implies(sel(extra_cnt, f) >= 1, z3.And(sel(a['dom'], f), sel(a['writing'], f))))
    return VBool(z3.And(a['cur'] == MSUM(a['counted'], a['bytes']), NONNEG(a['counted'], a['bytes']),
                        a['cur'] >= 0, a['cur'] <= a['max'], a['hsize'] >= 0,
                        z3.ForAll([f], body)))


def entry_ok(st, c, f):
    """the table entry of f (if any) is a complete, counted, faithful cache of its file - or a failed placeholder"""
    a = A(st, c)
    fid = sel(a['fid'], f)
    p = fs.JOIN(a['root'], f)
    done, failed, res = st.ghost['done_ids'].t, st.ghost['failed_ids'].t, st.ghost['res_of'].t
    good = z3.And(sel(a['counted'], f), sel(done, fid), z3.Not(sel(failed, fid)),
                  sel(res, fid) == sel(st.ghost['os'].t, p), sel(a['bytes'], f) == z3.Length(sel(res, fid)),
                  sel(st.ghost['os_ex'].t, p))
    failedp = z3.And(z3.Not(sel(a['counted'], f)), sel(failed, fid), sel(a['bytes'], f) == 0,     # its task raised; it may still be flagged writing
                     z3.Not(sel(st.ghost['os_ex'].t, p)))                                          # ... because the path is not (cannot be) a file
    return z3.Implies(sel(a['dom'], f), z3.And(fid < st.ghost['next_fid'].t, z3.Or(z3.And(good, z3.Not(sel(a['writing'], f))), failedp)))


def Q(st, c):
    a = A(st, c)
    return And(W(st, c), VBool(z3.Not(a['held'])), VBool(z3.ForAll([fq], entry_ok(st, c, fq))))


def failed_writing_entry(s, c, f):
    a0 = A(s.old, c)
    return VBool(z3.And(sel(a0['dom'], f.t), sel(a0['writing'], f.t), sel(s.old.ghost['failed_ids'].t, sel(a0['fid'], f.t))))


def fs_same(s, *_):
    return And(*[VBool(s.st.ghost[k].t == s.old.ghost[k].t) for k in ('os', 'os_ex', 'disk', 'disk_ex')])


def table_same_except(s, c, f):
    """entries of all other files (and their futures' outcomes) are unchanged"""
    a0, a1 = A(s.old, c), A(s.st, c)
    g = fq
    parts = [z3.ForAll([g], z3.Implies(g != f.t, z3.And(*[sel(a1[k], g) == sel(a0[k], g) for k in ('dom', 'writing', 'bytes', 'fid', 'counted')])))]
    return VBool(z3.And(*parts))


def futures_monotone(s, *_):
    """completed futures stay completed with the same result"""
    i = z3.Const('i!f', Int)
    d0, d1 = s.old.ghost['done_ids'].t, s.st.ghost['done_ids'].t
    r0, r1 = s.old.ghost['res_of'].t, s.st.ghost['res_of'].t
    f0, f1 = s.old.ghost['failed_ids'].t, s.st.ghost['failed_ids'].t
    return VBool(z3.ForAll([i], z3.And(z3.Implies(sel(d0, i), z3.And(sel(d1, i), sel(r1, i) == sel(r0, i))),
                                       z3.Implies(sel(f0, i), sel(f1, i)),
                                       z3.Implies(i < s.old.ghost['next_fid'].t, z3.And(sel(d1, i) == sel(d0, i), sel(f1, i) == sel(f0, i))))))


def havoc_table(st, c, heap=True, table=True, cur=True):
    ff = st.field(c, 'file_futures')
    if table:
        for a, srt in (('dom', fc.BoolArr), ('writing', fc.BoolArr), ('bytes', fc.IntArr), ('fid', fc.IntArr), ('counted', fc.BoolArr)):
            st.setfield(ff, a, VArr(z3.Const(fresh_name('M_' + a), srt)))
    if cur:
        st.setfield(c, 'current_memory_usage', fresh(Int, 'cur'))
    if heap:
        st.setfield(c, 'file_access_times', valid_heap(st, VHeap(VArr(z3.Const(fresh_name('H_cnt'), fc.IntArr)), fresh(Int, 'hsize'))))


def havoc_futures(st):
    st.ghost['done_ids'] = VArr(z3.Const(fresh_name('done_ids'), fc.IdBool))
    st.ghost['failed_ids'] = VArr(z3.Const(fresh_name('failed_ids'), fc.IdBool))
    st.ghost['res_of'] = VArr(z3.Const(fresh_name('res_of'), fc.IdStr))
    nf = fresh(Int, 'next_fid')
    st.assume(nf >= st.ghost['next_fid'])
    st.ghost['next_fid'] = nf


def havoc_path(st, c, f):
    p = VU(fs.JOIN(st.field(c, 'root_path').t, f.t))
    for cell, srt in (('os', Str), ('disk', Str), ('os_ex', Bool), ('disk_ex', Bool)):
        st.ghost[cell] = st.ghost[cell].store(p, fresh(srt, cell + '_p'))
    st.ghost['dirs'] = VArr(z3.Const(fresh_name('dirs'), fs.BoolArr))


# ------------------------------------------------------------------ the aside list `writing` of recover_memory
class VAside(V):
    """local list of set-aside heap entries: None or a multiset of (time, file)"""
    def __init__(self, none, cnt):
        self.none, self.cnt = none, cnt


def aside_cnt(v):
    """multiplicity array of the set-aside entries whatever the representation (None / concrete list / VAside)"""
    zero = z3.K(FKey, z3.IntVal(0))
    if isinstance(v, VNoneT):
        return zero
    if isinstance(v, VList):
        t = zero
        for it in v.items:
            f = it.items[1].t
            t = z3.Store(t, f, z3.Select(t, f) + 1)
        return t
    if isinstance(v, VAside):
        return z3.If(v.none.t, zero, v.cnt.t)
    raise Refuse(f"aside list {v!r}")


def own_future_not_done(st, c, f):
    """the future stored in f's entry is neither completed nor failed (it belongs to the task that is running)"""
    fid = sel(A(st, c)['fid'], f)
    return VBool(z3.And(z3.Not(z3.Select(st.ghost['done_ids'].t, fid)), z3.Not(z3.Select(st.ghost['failed_ids'].t, fid))))


def uffm_params(src):
    """parameters of update_file_futures_and_memory as the code has them (`loaded` exists after fix for the stale-load defect)"""
    fn = src.find(F + 'update_file_futures_and_memory')
    names = [a.arg for a in fn.args.args] if fn is not None else []
    d = dict(file_name=FKey, memory_usage=Int)
    if 'loaded' in names:
        d['loaded'] = Bool
    return d


def build(reg, src):
    from contracts import c16_tables
    reg.extra_checks.append(c16_tables.table_merge_check)
    from contracts import c16_alias
    reg.extra_checks.append(c16_alias.table_ownership_check)
    reg.assumptions += [
        "single client: a submitted task runs when its submitter waits for it, after the lock was released (C18 drops this)",
        "ghost file model of contracts/fsmodel.py; no other process writes into the store directory; os.path.join injective on normalised keys",
        "pickle: deserialize_obj(serialize_obj(v)) == v (assumed external contract); dict/heapq/ThreadPoolExecutor/Lock library contracts (DESIGN section 3)",
        "msum lemmas (point update, term bound, non-negativity, empty) are proved in lean/MapSum.lean and instantiated at every entry change",
        "FileCache.process_contents is the identity with usage len(contents); the table store (PandasDataFrameCache merge) is NOT decided here",
        "alias spellings of one path ('a//b', './a/b') are outside the normalised-key precondition",
        "LRU order of eviction (which entry heappop returns) is not part of the property and not modelled",
    ]
    rr = z3.Const('r!j', Str)
    ra = z3.Const('a!j', FKey)
    KEY = z3.Function('path_key', fs.Path, FKey)      # left inverse of join(root, .): injectivity on normalised keys (assumption), as a rewrite
    reg.axioms.append(('join-injective-on-normalised-keys', z3.ForAll([rr, ra], KEY(fs.JOIN(rr, ra)) == ra, patterns=[fs.JOIN(rr, ra)])))
    reg.externals.update(fs.externals())
    reg.externals['self.executor.submit'] = fc.executor_submit
    reg.externals['time.time_ns'] = lambda eng, st, a, k, n: [(st, VOpaque(hint='ns'))]
    reg.externals['os.getcwd'] = lambda eng, st, a, k, n: [(st, fresh(Str, 'cwd'))]
    reg.externals['Lock'] = lambda eng, st, a, k, n: [(st, st.alloc('Lock', {'__held': lift(False)}))]
    reg.externals['ThreadPoolExecutor'] = lambda eng, st, a, k, n: [(st, st.alloc('Executor', {}))]
    reg.externals['heapq.heappush'] = heappush
    reg.externals['heapq.heappop'] = heappop
    reg.externals['heapq.heapify'] = lambda eng, st, a, k, n: [(st, NONE)]
    reg.fn(F + 'process_contents', inline=True)
    reg.fn(H + 'key_to_file_path', inline=True)

    def setup(eng, st):
        fs.init_fs(st)
        st.env['self'] = fc.mk_cache(st, held=None)
        valid_heap(st, st.field(st.env['self'], 'file_access_times'))

    held = lambda s: VBool(A(s.st, s.self)['held'])
    not_held = lambda s: VBool(z3.Not(A(s.st, s.self)['held']))
    Ws = lambda s, *a: W(s.st, s.self)
    Qs = lambda s, *a: Q(s.st, s.self)
    lock_unchanged = lambda s, *a: VBool(A(s.st, s.self)['held'] == A(s.old, s.self)['held'])

    # ---------------- __init__
    def init_setup(eng, st):
        fs.init_fs(st)
        st.env['self'] = st.alloc('FileCache', {}, fresh=False)
        st.ghost['done_ids'] = VArr(z3.Const('done_ids0', fc.IdBool))
        st.ghost['failed_ids'] = VArr(z3.Const('failed_ids0', fc.IdBool))
        st.ghost['res_of'] = VArr(z3.Const('res_of0', fc.IdStr))
        st.ghost['next_fid'] = fresh(Int, 'next_fid')

    def init_hint(s, r):
        a = A(s.st, s.self)
        return VBool(z3.And(MSUM(a['counted'], a['bytes']) == 0, NONNEG(a['counted'], a['bytes'])))   # msum_empty (Lean)

    reg.fn(F + '__init__', cases=[('max-given', lambda e, st: (init_setup(e, st), st.env.__setitem__('max_memory', fresh(Int, 'mm')), st.assume(st.env['max_memory'] > 0), st.env.__setitem__('root_path', fresh(Str, 'rp')), st.assume(len_(st.env['root_path']) > 0))),
                                 ('defaults', lambda e, st: (init_setup(e, st), st.env.__setitem__('max_memory', NONE), st.env.__setitem__('root_path', NONE)))],
           returns=None, post_hints=[init_hint],
           ensures=[Qs, fs_same, lambda s, r: VBool(z3.ForAll([fq], z3.Not(sel(A(s.st, s.self)['dom'], fq))))])

    # ---------------- update_file_access_time
    def ufat_post(s, r):
        a0, a1 = A(s.old, s.self), A(s.st, s.self)
        return And(VBool(a1['cnt'] == z3.Store(a0['cnt'], s.file_name.t, 1)), W(s.st, s.self, hole=s.file_name), fs_same(s), lock_unchanged(s),
                   *[VBool(a1[k] == a0[k]) for k in ('dom', 'writing', 'bytes', 'fid', 'counted', 'cur', 'max')])

    reg.fn(F + 'update_file_access_time', params=dict(file_name=FKey), setup=setup, returns=None, raises=[],
           requires=[held, lambda s: W(s.st, s.self, hole=s.file_name),
                     lambda s: VBool(sel(A(s.st, s.self)['dom'], s.file_name.t))],
           modifies=lambda eng, st, s: havoc_table(st, s.self, table=False, cur=False),
           ensures=[ufat_post])

    # ---------------- _unload_file
    def unload_post(s, r):
        a0, a1 = A(s.old, s.self), A(s.st, s.self)
        f = s.file_name.t
        return And(VBool(a1['dom'] == z3.Store(a0['dom'], f, False)), VBool(a1['counted'] == z3.Store(a0['counted'], f, False)),
                   VBool(z3.ForAll([fq], z3.Implies(fq != f, z3.And(*[sel(a1[k], fq) == sel(a0[k], fq) for k in ('writing', 'bytes', 'fid')])))),
                   VBool(a1['cur'] == MSUM(a1['counted'], a1['bytes'])), NONNEG_(a1), VBool(a1['cur'] >= 0), VBool(a1['cur'] <= a0['cur']),
                   VBool(a1['cnt'] == a0['cnt']), VBool(a1['hsize'] == a0['hsize']), fs_same(s), lock_unchanged(s))

    reg.fn(F + '_unload_file', params=dict(file_name=FKey), setup=setup, returns=None, raises=[],
           requires=[held, lambda s: W(s.st, s.self, hole=s.file_name)],
           modifies=lambda eng, st, s: havoc_table(st, s.self, heap=False),
           ensures=[unload_post])

    # ---------------- recover_memory
    def rm_inv(s):
        return W(s.st, s.self, extra_cnt=aside_cnt(s.writing if s.has('writing') else NONE))

    def rm_frame(s, *a, extra=None):
        a0, a1 = A(s.old, s.self), A(s.st, s.self)
        g = fq
        now = sel(a1['cnt'], g) if extra is None else sel(a1['cnt'], g) + sel(extra, g)
        return VBool(z3.ForAll([g], z3.And(
            z3.Implies(sel(a1['dom'], g), z3.And(sel(a0['dom'], g), *[sel(a1[k], g) == sel(a0[k], g) for k in ('writing', 'bytes', 'fid', 'counted')])),
            z3.Implies(z3.And(sel(a0['dom'], g), z3.Or(sel(a0['writing'], g), sel(a0['cnt'], g) == 0)), sel(a1['dom'], g)),     # never evicted: writing or not in the heap
            now <= sel(a0['cnt'], g))))

    def rm_loop_mod(eng, st):
        havoc_table(st, st.env['self'])

    def rm_post(s, r):
        a1 = A(s.st, s.self)
        return And(r == VBool(a1['cur'] + s.claim.t <= a1['max']), r, W(s.st, s.self), rm_frame(s), fs_same(s), lock_unchanged(s),
                   VBool(a1['max'] == A(s.old, s.self)['max']))

    reg.fn(F + 'recover_memory', params=dict(claim=Int), setup=setup, returns=Bool, raises=[],
           requires=[held, lambda s: W(s.st, s.self), lambda s: s.claim <= VInt(A(s.st, s.self)['max'])],
           modifies=lambda eng, st, s: havoc_table(st, s.self),
           loops={0: loop(invariant=[rm_inv, lambda s: rm_frame(s, extra=aside_cnt(s.writing if s.has('writing') else NONE)), lambda s: VBool(A(s.st, s.self)['held']), fs_same,
                                     lambda s: VBool(A(s.st, s.self)['max'] == A(s.old, s.self)['max'])],
                          variant=lambda s: VInt(A(s.st, s.self)['hsize']),
                          havoc=dict(writing=lambda hint: VAside(fresh(Bool, 'aside_none'), VArr(z3.Const(fresh_name('aside'), fc.IntArr))),
                                     data='opaque', oldest_file=FKey),
                          modifies=rm_loop_mod,
                          exit_hints=[lambda s: msum_empty(A(s.st, s.self))]),
                  1: loop(invariant=[lambda s: W(s.st, s.self, extra_cnt=s.g('__rest').t), lambda s: rm_frame(s, extra=s.g('__rest').t), lambda s: VBool(A(s.st, s.self)['held']), fs_same,
                                     lambda s: VBool(A(s.st, s.self)['max'] == A(s.old, s.self)['max']),
                                     lambda s: And(*[VBool(A(s.st, s.self)[k] == s.g('__l1_' + k).t) for k in ('dom', 'writing', 'bytes', 'fid', 'counted', 'cur')])],
                          modifies=lambda eng, st: (havoc_table(st, st.env['self'], table=False, cur=False),
                                                    st.ghost.__setitem__('__rest', VArr(z3.Const(fresh_name('rest'), fc.IntArr)))))},
           ensures=[rm_post])

    # ---------------- update_file_futures_and_memory
    def uffm_posts():
        def cached_clause(s, r):
            a0, a1 = A(s.old, s.self), A(s.st, s.self)
            f = s.file_name.t
            cached = sel(a1['dom'], f)
            return VBool(z3.And(cached, sel(a1['counted'], f), z3.Not(sel(a1['writing'], f)), sel(a1['bytes'], f) == s.memory_usage.t,
                                                   sel(a1['fid'], f) == sel(a0['fid'], f), sel(a1['cnt'], f) == 1))
        return [lambda s, r: W(s.st, s.self), lambda s, r: not_held(s), fs_same, lambda s, r: rm_frame_except(s, s.file_name.t),
                cached_clause, lambda s, r: VBool(A(s.st, s.self)['max'] == A(s.old, s.self)['max'])]

    def rm_frame_except(s, f):
        a0, a1 = A(s.old, s.self), A(s.st, s.self)
        g = fq
        return VBool(z3.ForAll([g], z3.Implies(g != f, z3.And(
            z3.Implies(sel(a1['dom'], g), z3.And(sel(a0['dom'], g), *[sel(a1[k], g) == sel(a0[k], g) for k in ('writing', 'bytes', 'fid', 'counted')])),
            z3.Implies(z3.And(sel(a0['dom'], g), z3.Or(sel(a0['writing'], g), sel(a0['cnt'], g) == 0)), sel(a1['dom'], g)),
            sel(a1['cnt'], g) <= sel(a0['cnt'], g)))))

    reg.fn(F + 'update_file_futures_and_memory', params=uffm_params(src), setup=setup, returns=None, raises=[],
           requires=[not_held, lambda s: W(s.st, s.self),
                     lambda s: VBool(z3.And(sel(A(s.st, s.self)['dom'], s.file_name.t), z3.Not(sel(A(s.st, s.self)['counted'], s.file_name.t)),
                                            z3.Or(sel(A(s.st, s.self)['writing'], s.file_name.t), sel(A(s.st, s.self)['cnt'], s.file_name.t) == 0))),
                     lambda s: And(s.memory_usage >= 0, s.memory_usage <= VInt(A(s.st, s.self)['max'])),
                     # single client: a load task never finds a pending WRITE of its file (the client that would submit it is waiting for the load)
                     lambda s: Implies(s.loaded, VBool(z3.Not(sel(A(s.st, s.self)['writing'], s.file_name.t)))) if s.has('loaded') else VBool(True),
                     # single client: the entry holds the future of the very task that is completing - it is not done yet
                     lambda s: own_future_not_done(s.st, s.self, s.file_name.t)],
           modifies=lambda eng, st, s: havoc_table(st, s.self),
           ensures=uffm_posts())

    # ---------------- worker tasks
    def P(s): return VU(fs.JOIN(A(s.st, s.self)['root'], s.file_name.t))

    def entry_counted(s, nbytes):
        a0, a1 = A(s.old, s.self), A(s.st, s.self)
        f = s.file_name.t
        return VBool(z3.And(sel(a1['dom'], f), sel(a1['counted'], f), z3.Not(sel(a1['writing'], f)), sel(a1['bytes'], f) == nbytes,
                            sel(a1['fid'], f) == sel(a0['fid'], f), sel(a1['cnt'], f) == 1))

    def table_unchanged(s, *a):
        a0, a1 = A(s.old, s.self), A(s.st, s.self)
        return And(*[VBool(a1[k] == a0[k]) for k in ('dom', 'writing', 'bytes', 'fid', 'counted', 'cur', 'max', 'cnt', 'hsize')])

    def others_fs(s, *a):
        return fs.others_untouched(s.old, s.st, P(s))

    def task_pre(writing):
        def pre(s):
            a = A(s.st, s.self)
            f = s.file_name.t
            return And(VBool(z3.And(sel(a['dom'], f), z3.Not(sel(a['counted'], f)), sel(a['writing'], f) == writing,
                                    z3.Or(sel(a['writing'], f), sel(a['cnt'], f) == 0))),
                       own_future_not_done(s.st, s.self, f))
        return pre

    def wf_mod(eng, st, s):
        havoc_table(st, s.self)
        havoc_path(st, s.self, s.file_name)

    reg.fn(F + '_write_file', params=dict(file_name=FKey, new_file_contents=Str, use_fsync=Bool), setup=setup, returns=Str, raises=['OSError'],
           requires=[not_held, Ws, task_pre(True), lambda s: len_(s.new_file_contents) <= VInt(A(s.st, s.self)['max'])],
           modifies=wf_mod,
           ensures=[lambda s, r: W(s.st, s.self), lambda s, r: not_held(s), lambda s, r: r == s.new_file_contents,
                    lambda s, r: And(s.g('os')[P(s)] == s.new_file_contents, s.g('os_ex')[P(s)]),
                    lambda s, r: Implies(s.use_fsync, And(s.g('disk')[P(s)] == s.new_file_contents, s.g('disk_ex')[P(s)])),
                    others_fs, lambda s, r: entry_counted(s, z3.Length(s.new_file_contents.t)),
                    lambda s, r: rm_frame_except(s, s.file_name.t), lambda s, r: VBool(A(s.st, s.self)['max'] == A(s.old, s.self)['max'])],
           ensures_exc=[lambda s, e: not_held(s), table_unchanged, others_fs, lambda s, e: Not(s.g('os_ex')[P(s)])])

    def lf_mod(eng, st, s):
        havoc_table(st, s.self)

    reg.fn(F + '_load_file', params=dict(file_name=FKey), setup=setup, returns=Str, raises=['IsADirectoryError', 'FileNotFoundError'],
           requires=[not_held, Ws, task_pre(False),
                     lambda s: Implies(s.g('os_ex')[P(s)], len_(s.g('os')[P(s)]) <= VInt(A(s.st, s.self)['max']))],
           modifies=lf_mod,
           ensures=[lambda s, r: W(s.st, s.self), lambda s, r: not_held(s), lambda s, r: And(r == s.g('os')[P(s)], s.g('os_ex')[P(s)]),
                    fs_same, lambda s, r: entry_counted(s, z3.Length(s.g('os')[P(s)].t)),
                    lambda s, r: rm_frame_except(s, s.file_name.t), lambda s, r: VBool(A(s.st, s.self)['max'] == A(s.old, s.self)['max'])],
           ensures_exc=[lambda s, e: not_held(s), table_unchanged, fs_same, lambda s, e: Not(s.g('os_ex')[P(s)])])

    # ---------------- public operations
    def pub_mod(eng, st, s):
        havoc_table(st, s.self)
        havoc_futures(st)

    def upd_mod(eng, st, s):
        pub_mod(eng, st, s)
        havoc_path(st, s.self, s.file_name)

    def root_same(s, *a):
        return VBool(z3.And(A(s.st, s.self)['root'] == A(s.old, s.self)['root'], A(s.st, s.self)['max'] == A(s.old, s.self)['max']))

    reg.fn(F + 'update_file', params=dict(file_name=FKey, new_file_contents=Str, use_fsync=Bool), setup=setup, returns=Bool,
           requires=[Qs], modifies=upd_mod, raises=['MemoryError', 'OSError'],
           ensures=[Qs, lambda s, r: r,
                    lambda s, r: And(s.g('os')[P(s)] == s.new_file_contents, s.g('os_ex')[P(s)]),
                    lambda s, r: Implies(s.use_fsync, And(s.g('disk')[P(s)] == s.new_file_contents, s.g('disk_ex')[P(s)])),
                    others_fs, lambda s, r: rm_frame_except(s, s.file_name.t), futures_monotone, root_same],
           ensures_exc=[Qs, others_fs, lambda s, e: rm_frame_except(s, s.file_name.t), futures_monotone, root_same])

    reg.fn(F + 'get_file', params=dict(file_name=FKey), setup=setup, returns=Str,
           requires=[Qs], modifies=pub_mod, raises=['FileNotFoundError', 'IsADirectoryError', 'MemoryError', 'OSError'],
           ensures=[Qs, lambda s, r: And(r == s.g('os')[P(s)], s.g('os_ex')[P(s)]), fs_same,
                    lambda s, r: rm_frame_except(s, s.file_name.t), futures_monotone, root_same],
           ensures_exc=[Qs, fs_same, lambda s, e: rm_frame_except(s, s.file_name.t), futures_monotone, root_same,
                        # a get fails only because the path is not a readable file (absent, a directory, cached failure) or is too big
                        lambda s, e: Implies(VBool(e.cls != 'MemoryError'), Not(s.g('os_ex')[P(s)])),
                        # an OSError other than not-found / is-a-directory only re-raises the stored failure of a write task
                        lambda s, e: Implies(VBool(e.cls == 'OSError'), failed_writing_entry(s, s.self, s.file_name))])

    reg.fn(F + 'unload_file', params=dict(file_name=FKey), setup=setup, returns=None, raises=[], requires=[Qs], modifies=pub_mod,
           ensures=[Qs, fs_same, lambda s, r: VBool(z3.Not(sel(A(s.st, s.self)['dom'], s.file_name.t))),
                    lambda s, r: table_same_except(s, s.self, s.file_name), futures_monotone, root_same])

    # ---------------- KeyValueStorage
    def kv_setup(eng, st):
        setup(eng, st)
        c = st.env.pop('self')
        st.env['self'] = st.alloc('KeyValueStorage', {'cache': c}, fresh=False)

    def C(s): return s.st.field(s.self, 'cache')
    def KP(s): return VU(fs.JOIN(A(s.st, C(s))['root'], s.x.t))
    QK = lambda s, *a: Q(s.st, C(s))

    reg.externals['serialize_obj'] = lambda eng, st, a, k, n: [(st, VStr(SER(eng.as_obj(a[0]))))]
    reg.externals['deserialize_obj'] = lambda eng, st, a, k, n: [(st, VOpaque(DESER(a[0].t)))]

    def kv_get_post(s, r):
        p = KP(s)
        isfile = s.g('os_ex')[p]
        return And(Implies(isfile, same(r, VOpaque(DESER(s.g('os')[p].t)))),
                   Implies(Not(isfile), same(r, UNDEF)))          # never-set key (absent path, or a directory created for a nested key)

    reg.fn(KV + 'get', params=dict(x=FKey), setup=kv_setup,
           requires=[QK], returns='opaque',
           ensures=[QK, kv_get_post, fs_same],
           ensures_exc=[QK, fs_same,
                        # for a string key get fails only when the stored value exceeds the cache limit or the last set of that key failed
                        lambda s, e: Or(VBool(e.cls == 'MemoryError'), failed_writing_entry(s, C(s), s.x))])
    reg.fn(KV + 'set', params=dict(x=FKey), setup=kv_setup, requires=[QK], returns=None,
           ensures=[QK, lambda s, r: And(s.g('os')[KP(s)] == VStr(SER(eng_as_obj(s.y))), s.g('os_ex')[KP(s)]),
                    lambda s, r: And(s.g('disk')[KP(s)] == VStr(SER(eng_as_obj(s.y))), s.g('disk_ex')[KP(s)]),
                    lambda s, r: fs.others_untouched(s.old, s.st, KP(s))],
           ensures_exc=[QK, lambda s, e: fs.others_untouched(s.old, s.st, KP(s))])
    reg.fn(KV + '__getitem__', setup=kv_setup, requires=[QK], returns='opaque', verify=True,
           cases=[('str-key', lambda e, st: (kv_setup(e, st), st.env.__setitem__('x', fresh(FKey, 'x'))))],
           ensures=[QK, kv_get_post, fs_same])
    reg.fn(KV + '__setitem__', params=dict(x=FKey), setup=kv_setup, requires=[QK], returns=None,
           ensures=[QK, lambda s, r: And(s.g('os')[KP(s)] == VStr(SER(eng_as_obj(s.y))), s.g('os_ex')[KP(s)])])

    from pyvc.leancheck import lean_check
    reg.extra_checks.append(lean_check('MapSum.lean', ['msum_update', 'msum_term_le', 'nonneg_update', 'msum_empty', 'msum_nonneg']))
    from replay import c16 as rp
    # batteries of the sub-verifications: registered so that the thorough tier runs them proactively on the real code
    reg.replays.append((r'#owns\.|#returns-a-new-table', rp.replay_table_ownership))
    reg.replays.append((r'PandasDataFrameCache\.update#', rp.replay_table_merge))
    reg.replays.append((r'recover_memory', rp.replay_evict_during_pending_write))
    reg.replays.append((r'.', rp.replay_kvs_generic))


def msum_empty(a):
    """(forall f. not counted[f]) => msum(counted, bytes) == 0        (lean/MapSum.lean: msum_empty)"""
    return VBool(z3.Implies(z3.ForAll([fq], z3.Not(sel(a['counted'], fq))), MSUM(a['counted'], a['bytes']) == 0))


def valid_heap(st, hp):
    """library fact of the multiset abstraction: size is the sum of the multiplicities, hence 0 <= cnt[f] <= size"""
    st.assume(z3.ForAll([fq], z3.And(z3.Select(hp.cnt.t, fq) >= 0, z3.Select(hp.cnt.t, fq) <= hp.size.t)))
    return hp


def NONNEG_(a):
    return VBool(NONNEG(a['counted'], a['bytes']))


# ------------------------------------------------------------------ heapq (assumed library contract on the multiset abstraction)
def heappush(eng, st, args, kwargs, node):
    hp, item = args
    if not isinstance(hp, VHeap):
        raise Refuse("heappush on something that is not the access-time heap")
    if isinstance(item, VTuple) and len(item.items) == 2 and isinstance(item.items[1], VU):
        f = item.items[1]
    else:
        raise Refuse(f"heappush of {item!r}")
    new = valid_heap(st, VHeap(hp.cnt.store(f, hp.cnt[f] + 1), hp.size + 1))
    eng.rebind(st, hp, new)
    return [(st, NONE)]


def heappop(eng, st, args, kwargs, node):
    hp = args[0]
    if not isinstance(hp, VHeap):
        raise Refuse("heappop on something that is not the access-time heap")
    outs = []
    for s2, nonempty in eng.branch(st, (hp.size > 0).t, 'heappop'):
        if not nonempty:
            outs.append(eng.exc(s2, 'IndexError', node))
            continue
        f = fresh(FKey, 'oldest')
        s2.assume(hp.cnt[f] >= 1)
        new = valid_heap(s2, VHeap(hp.cnt.store(f, hp.cnt[f] - 1), hp.size - 1))
        eng.rebind(s2, hp, new)
        outs.append((s2, VTuple([VOpaque(hint='t'), f])))
    return outs


REGIONS = {}


def configure(eng):
    fc.configure(eng)
    eng.globals_v['KLONG_UNDEFINED'] = UNDEF
    eng.hooks['lock_of'] = lambda st: [flds['__held'] for flds in st.heap.values() if '__held' in flds][0]

    def new_dict(e, st):
        return st.alloc('FFMap', {'dom': VArr(z3.K(FKey, z3.BoolVal(False))), 'writing': VArr(z3.K(FKey, z3.BoolVal(False))),
                                  'bytes': VArr(z3.K(FKey, z3.IntVal(0))), 'fid': VArr(z3.K(FKey, z3.IntVal(0))),
                                  'counted': VArr(z3.K(FKey, z3.BoolVal(False)))})
    eng.hooks['new_dict'] = new_dict

    def setattr_fc(e, o, attr, v, st, node):
        if attr == 'file_access_times' and isinstance(v, VList) and not v.items:
            st.heap[o.oid][attr] = VHeap(VArr(z3.K(FKey, z3.IntVal(0))), lift(0))
            return True
        return False
    eng.hooks['setattr:FileCache'] = setattr_fc

    def blen(e, args, kwargs, st, node):
        if isinstance(args[0], VHeap):
            return [(st, args[0].size)]
        return None
    eng.hooks['builtin:len'] = blen

    def comprehension(e, node, kind, it, st):
        """[elt for (t, fn) in heap if cond]: the real elt / cond expressions are evaluated on a generic element;
        the result keeps exactly the elements satisfying cond (multiset filter)"""
        if not isinstance(it, VHeap) or kind != 'list':
            return None
        g = node.generators[0]
        s1 = st.fork()
        fn = VU(fq)
        t = VOpaque(hint='t')
        e.assign_target(g.target, VTuple([t, fn]), s1, node)
        conds = []
        for c in g.ifs:
            (s2, cv), = e.ev(c, s1)
            conds.append(e.truth(cv))
        (s2, eltv), = e.ev(node.elt, s1)
        if not (isinstance(eltv, VTuple) and len(eltv.items) == 2 and eltv.items[0] is t and eltv.items[1] is fn):
            raise Refuse("heap comprehension does not keep (t, fn) unchanged")
        cond = z3.And(*conds) if conds else z3.BoolVal(True)
        newcnt = z3.Lambda([fq], z3.If(cond, z3.Select(it.cnt.t, fq), 0))
        size = fresh(Int, 'hsize')
        st.assume(z3.And(size.t >= 0, size.t <= it.size.t))
        return [(st, valid_heap(st, VHeap(VArr(newcnt), size)))]
    eng.hooks['comprehension'] = comprehension

    def method(e, o, m, args, kwargs, st, node):
        if isinstance(o, VAside) and m == 'append':
            f = args[0].items[1]
            new = VAside(o.none, VArr(z3.Store(o.cnt.t, f.t, z3.Select(o.cnt.t, f.t) + 1)))
            e.rebind(st, o, new)
            return [(st, NONE)]
        return None
    eng.hooks['method'] = method

    def for_element(e, it, st, node):
        if isinstance(it, (VAside, VList)) and e.cur_key.endswith('recover_memory'):
            rest = st.ghost['__rest'].t
            f = fresh(FKey, 'pushed')
            st.assume(z3.Select(rest, f.t) >= 1)
            st.ghost['__rest'] = VArr(z3.Store(rest, f.t, z3.Select(rest, f.t) - 1))
            return VTuple([VOpaque(hint='t'), f])
        return None
    eng.hooks['for_element'] = for_element

    def for_begin(e, it, st, node):
        if e.cur_key.endswith('recover_memory'):
            st.ghost['__rest'] = VArr(aside_cnt(it))
            a = A(st, st.env['self'])
            for k in ('dom', 'writing', 'bytes', 'fid', 'counted', 'cur'):
                st.ghost['__l1_' + k] = VArr(a[k]) if k != 'cur' else VInt(a[k])
    eng.hooks['for_begin'] = for_begin

    def for_exit(e, it, st, node):
        if e.cur_key.endswith('recover_memory'):
            st.assume(z3.ForAll([fq], z3.Select(st.ghost['__rest'].t, fq) == 0))      # every set-aside entry was pushed back
    eng.hooks['for_exit'] = for_exit
