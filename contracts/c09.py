"""C09 - the interpreter is a faithful dictionary of Python values and functions.

 (1) klong[k] = v: the context assignment contract of C03 (wrap on both paths: new name, existing name), compiled cache cleared;
 (2) klong[k] returns data unchanged and functions as a KGFnWrapper bound to (interpreter, function, k);
 (3) KGLambda: the collected argument list is the first n of x,y,z (n = number of reserved names among the parameters),
     `klong` first when requested; the wrapped callable is called exactly once with exactly the frame values of those
     symbols in positional order and its return value is the result;
 (4) KGFnWrapper.__call__: wrong argument count raises before anything is evaluated; the current definition of the symbol is
     used when it is still a function, the original otherwise; the call made is klong.call(KGCall(fn.a, args, fn.arity)),
     exactly once, with the arguments in order (Python lists converted by the interpreter's own kg_asarray).
"""
import z3
from pyvc.values import *
from pyvc.state import Raised
from pyvc.contracts import loop
from . import ctxmodel as cm
from . import c03
from .ctxmodel import KC, KI, VArr

T = 'klongpy/types.py::'
SYM = {n: VOpaque(z3.Const('SYM_' + n, Obj), nonnull=True) for n in 'xyz'}
ORDER = ['x', 'y', 'z']


def build(reg, src):
    from contracts import c09_arity
    reg.extra_checks.append(c09_arity.arity_check)
    c03.build(reg, src, verify_evaluator=False)
    reg.assumptions += [
        "inspect.signature (safe_inspect) is an assumed pure function of the callable; membership tests on its result are uninterpreted",
        "np.asarray is an assumed pure function; the evaluator (call/eval/_eval_fn) is under contract in C03 and assumed here",
        "the frame handed to a KGLambda maps x,y,z to the evaluated arguments in positional order (built by _eval_fn; its "
        "positional construction is NOT under contract: see DESIGN C03-(2))",
        "sys_fn._handle_import (arity remapping through inspect.Parameter kinds) and KGFnWrapper._find_symbol are not under contract",
        "attributes a / args / arity / fn of function objects are not written by the functions under contract (read as functions of the object)",
    ]
    reg.assumed_calls.update({'safe_inspect': 'nonnull', 'np.asarray': 'nonnull', 'self.klong._backend.kg_asarray': 'nonnull'})
    reg.pure_calls |= {'safe_inspect', 'np.asarray', 'self.klong._backend.kg_asarray'}

    # ---------------- KGLambda
    def lam_setup(eng, st):
        cm.init_ghost(st)
        st.env['self'] = st.alloc('KGLambda', {}, fresh=False)
        st.env['fn'] = VOpaque(hint='pyfn', nonnull=True)

    def params_of(s):
        """the mapping the constructor inspects: args if truthy else safe_inspect(fn)"""
        return s._cur['params']

    def in_params(s, name):
        p = s._cur['params']
        return VBool(z3.Select(z3.Select(s.st.ghost['has'].t, p.t), z3.Function('inj:str', Str, Obj)(z3.StringVal(name))))

    def lam_init_post(s, r):
        args = s.st.field(s.self, 'args')
        if not isinstance(args, VList):
            return VBool(False)
        n = sum((If(in_params(s, nm), 1, 0) for nm in ORDER), lift(0))
        parts = [lift(len(args.items)) == n]
        for i, a in enumerate(args.items):
            parts.append(same(a, SYM[ORDER[i]]))        # positional: the i-th collected symbol is the i-th reserved symbol
        parts.append(same(s.st.field(s.self, 'fn'), s.fn0))
        pk = s.st.field(s.self, '_provide_klong')
        parts.append(VBool(eng_truth(pk)) == Or(VBool(eng_truth(s.provide_klong0)), in_params(s, 'klong')))
        return And(*parts)

    reg.fn(T + 'KGLambda.__init__', setup=lam_setup,
           cases=[('signature', lambda e, st: (lam_setup(e, st), st.env.__setitem__('args', NONE), st.env.__setitem__('provide_klong', fresh(Bool, 'pk')), st.env.__setitem__('wildcard', fresh(Bool, 'wc')))),
                  ('explicit-args', lambda e, st: (lam_setup(e, st), st.env.__setitem__('args', VOpaque(hint='argnames', nonnull=True)),
                                                   st.assume(st.env['args'].pred('truth')),
                                                   st.env.__setitem__('provide_klong', fresh(Bool, 'pk')), st.env.__setitem__('wildcard', fresh(Bool, 'wc'))))],
           returns=None, ensures=[lam_init_post])

    def lam_call_setup(m, provide, wildcard=False):
        def f(eng, st):
            cm.mk_klong(st, 'klong')
            ctx = st.field(st.env['klong'], '_context')
            st.env['ctx'] = ctx
            st.env['self'] = st.alloc('KGLambda', {'fn': VOpaque(hint='pyfn', nonnull=True), 'args': VList([SYM[n] for n in ORDER[:m]]),
                                                   '_provide_klong': lift(provide), '_wildcard': lift(wildcard)}, fresh=False)
            st.ghost['pycalls'] = lift(0)
            st.ghost['lookups'] = VList([])
        return f

    def lam_call_post(s, r):
        st = s.st
        m = len(s.old.field(s.self, 'args').items)
        provide = z3.is_true(s.old.field(s.self, '_provide_klong').t)
        parts = [st.ghost['pycalls'] == 1]
        pa = st.ghost.get('pyargs')
        looks = st.ghost['lookups'].items           # [(symbol, value)] in evaluation order
        if pa is None or len(pa.items) != m + (1 if provide else 0) or len(looks) != m:
            return VBool(False)
        items = list(pa.items)
        if provide:
            parts.append(same(items[0], s.klong0))
            items = items[1:]
        for i in range(m):
            parts.append(same(looks[i].items[0], SYM[ORDER[i]]))     # the i-th lookup is of the i-th reserved symbol
            parts.append(same(items[i], looks[i].items[1]))          # ... and its value is the i-th positional argument
        parts.append(same(r, st.ghost['pyret']))
        return And(*parts)

    cases = []
    for m in range(4):
        for provide in (False, True):
            cases.append((f"arity{m}{'-klong' if provide else ''}", lam_call_setup(m, provide)))
    reg.fn(T + 'KGLambda._get_pos_args', inline=True)
    reg.fn(T + 'KGLambda.__call__', cases=cases, requires=[lambda s: cm.ctx_inv(s.st, s.ctx)], returns='opaque', ensures=[lam_call_post],
           # a failing lookup or a raising callable: the callable was invoked at most once
           ensures_exc=[lambda s, e: s.g('pycalls') <= 1])
    reg.fn(T + 'KGLambda.get_arity', cases=[(f"n{m}{'-klong' if pk else ''}", lam_call_setup(m, pk)) for m in range(4) for pk in (False, True)], returns=Int, raises=[],
           ensures=[lambda s, r: r == len(s.old.field(s.self, 'args').items)])

    # ---------------- KGFnWrapper.__call__
    def wrap_setup(n, has_sym):
        def f(eng, st):
            k = cm.mk_klong(st, 'klong')
            st.env.pop('klong')
            st.ghost['callcnt'] = VArr(z3.Const('callcnt0', c03.CALLCNT))
            st.ghost['ret_of'] = VArr(z3.Const('ret_of0', z3.ArraySort(Obj, Obj)))
            st.ghost['klong_calls'] = VList([])
            fn = VOpaque(hint='kgfn', nonnull=True)
            st.env['self'] = st.alloc('KGFnWrapper', {'klong': k, 'fn': fn, '_sym': VOpaque(hint='sym', nonnull=True) if has_sym else NONE}, fresh=False)
            if has_sym:
                st.assume(st.field(st.env['self'], '_sym').pred('isinst:KGSym'))
            st.env['args'] = VTuple([VOpaque(hint=f'a{i}') for i in range(n)])
            st.env['kwargs'] = VOpaque(hint='kwargs')
        return f

    ATTR = lambda name, o: z3.Function('attr:' + name, Obj, Obj)(o)

    def wrap_post(s, r):
        st = s.st
        calls = st.ghost['klong_calls'].items
        if len(calls) != 1:
            return VBool(False)
        kc = calls[0]                      # the KGCall handed to klong.call
        rec = st.ghost.get('kgcall:' + str(kc.t))
        if rec is None:
            return VBool(False)
        a, cargs, arity = rec.items
        n = len(s.args0.items)
        if not isinstance(cargs, VList) or len(cargs.items) != n:
            return VBool(False)
        # which definition is used: the current binding of the symbol when it is a function (not a call), else the original
        sym = s.old.field(s.self, '_sym')
        orig = s.old.field(s.self, 'fn')
        if isinstance(sym, VOpaque):
            cur = st.ghost.get('wrap_lookup')
            if cur is None:
                return VBool(False)
            if isinstance(cur, VNoneT) or st.ghost.get('wrap_lookup_failed') is not None:
                tgt = orig.t
            else:
                usecur = z3.And(cur.pred('isinst:KGFn').t, z3.Not(cur.pred('isinst:KGCall').t))
                tgt = z3.If(usecur, cur.t, orig.t)
        else:
            tgt = orig.t
        parts = [same(a, VOpaque(ATTR('a', tgt))), same(arity, VOpaque(ATTR('arity', tgt))),
                 VOpaque(ATTR('arity', tgt)) == lift(n),
                 same(r, VOpaque(z3.Select(st.ghost['ret_of'].t, kc.t)))]
        for i in range(n):
            x = s.args0.items[i]
            islist = x.pred('isinst:list')
            # a Python list becomes the Klong list it denotes: the interpreter's OWN list conversion (kg_asarray - strings stay strings,
            # ragged and mixed lists stay lists), not NumPy's homogenising asarray
            parts.append(If(islist, same(cargs.items[i], VOpaque(z3.Function('assumed:self.klong._backend.kg_asarray', Obj, Obj)(x.t))), same(cargs.items[i], x)))
        return And(*parts)

    def wrap_exc(s, e):
        # an arity mismatch (or anything else failing) never evaluates a call twice; RuntimeError is raised before any evaluation
        calls = s.st.ghost['klong_calls'].items
        if e.cls == 'RuntimeError':
            return VBool(len(calls) == 0)
        return VBool(len(calls) <= 1)

    def wrapper_unchanged(s, *a):
        # a call never rewrites the wrapper: the name resolved at construction stays (the NEXT call re-resolves it too)
        return And(*[same(s.st.field(s.self, k), s.old.field(s.self, k)) for k in ('_sym', 'fn', 'klong')])
    wcases = [(f"args{n}{'-bound' if hs else '-unbound'}", wrap_setup(n, hs)) for n in range(4) for hs in (True, False)]
    reg.fn(T + 'KGFnWrapper.__call__', cases=wcases, requires=[lambda s: cm.ctx_inv(s.st, s.st.field(s.st.field(s.self, 'klong'), '_context'))],
           returns='opaque', ensures=[wrap_post, wrapper_unchanged], ensures_exc=[wrap_exc, wrapper_unchanged])

    # ---------------- KGFnWrapper.__init__: the name is resolved WHEN THE WRAPPER IS MADE (the given one, else the one the function is
    # bound to at that moment) and stored; a later rebinding of the name is what __call__ then follows
    def winit_setup(given):
        def f(eng, st):
            st.env['self'] = st.alloc('KGFnWrapper', {}, fresh=False)
            st.env['klong'] = VOpaque(hint='klong', nonnull=True)
            st.env['fn'] = VOpaque(hint='fn', nonnull=True)
            st.env['sym'] = VOpaque(hint='sym', nonnull=True) if given else NONE
            st.ghost['find_calls'] = VList([])
        return f

    def winit_post(s, r):
        flds = s.st.heap.get(s.self.oid, {})
        if not all(k in flds for k in ('klong', 'fn', '_sym')):
            return VBool(False)              # the wrapper no longer stores the resolved name at construction
        finds = s.st.ghost['find_calls'].items
        if isinstance(s._entry['sym'], VNoneT):
            ok = len(finds) == 1 and same(finds[0].items[0], s._entry['fn']).t is not None
            return And(VBool(len(finds) == 1), same(flds['_sym'], finds[0].items[1]) if len(finds) == 1 else VBool(False),
                       same(flds['fn'], s._entry['fn']), same(flds['klong'], s._entry['klong']))
        return And(VBool(len(finds) == 0), same(flds['_sym'], s._entry['sym']), same(flds['fn'], s._entry['fn']), same(flds['klong'], s._entry['klong']))
    reg.fn(T + 'KGFnWrapper.__init__', cases=[('sym-given', winit_setup(True)), ('sym-searched', winit_setup(False))], returns=None, ensures=[winit_post])
    reg.fn(T + 'KGFnWrapper._find_symbol', returns='opaque', verify=False, raises=[],
           ghost_at_call=lambda eng, st, s, r: 'find_calls' in st.ghost and st.ghost.__setitem__('find_calls', VList(st.ghost['find_calls'].items + [VTuple([s.fn, r])])))

    # ---------------- KlongInterpreter item access
    # the compiled-expression cache has to be cleared on every (re)binding and deletion UNLESS every call of compiled code is guarded by
    # the admission test on the actual arguments (contracts/c05_values.call_guard, itself an obligation of C04/C05): then code left in the
    # cache is only ever called on the kinds it is valid for (a deleted variable: the lookup raises inside the contained try) and clearing
    # is an optimisation decision, not something the property needs
    from contracts import c05_values as _cv
    guard_ok = _cv.call_guard(src)[0]

    def ki_setup(eng, st):
        c03.klong_setup(eng, st)
        st.ghost['ctx_sets'] = VList([])
        st.ghost['ctx_dels'] = VList([])
        st.ghost['cache_cleared'] = lift(0)
        st.env['k'] = VOpaque(hint='k', nonnull=True)
        st.env['v'] = VOpaque(hint='v')

    def key_ok(s, kk):
        """the key used on the context is k itself when it is a symbol, else KGSym(k)"""
        k = s.k0
        return If(k.pred('isinst:KGSym'), same(kk, k),
                  And(kk.pred('isinst:KGSym'), VBool(z3.Function('sym_of', Obj, Obj)(kk.t) == k.t)))

    def ki_set_post(s, r):
        sets = s.st.ghost['ctx_sets'].items
        if len(sets) != 1:
            return VBool(False)
        kk, vv = sets[0].items
        return And(key_ok(s, kk), same(vv, s.v0), Or(VBool(guard_ok), s.g('cache_cleared') >= 1))

    reg.fn(KI + '__setitem__', setup=ki_setup, requires=[c03.inv_k], returns=None, ensures=[ki_set_post, c03.pres_k],
           ensures_exc=[lambda s, e: VBool(len(s.st.ghost['ctx_sets'].items) <= 1)])

    def ki_get_post(s, r):
        looked = s.st.ghost.get('ki_lookup')
        if looked is None:
            return VBool(False)
        kk, val = looked.items
        isfn = val.pred('isinst:KGFn')
        w = s.st.ghost.get('wrapper:' + str(r.t)) if isinstance(r, VOpaque) else None
        wrapped = VBool(False) if w is None else And(same(w.items[0], s.self), same(w.items[1], val), same(w.items[2], kk))
        return And(key_ok(s, kk), If(isfn, wrapped, same(r, val)))
    reg.fn(KI + '__getitem__', setup=ki_setup, requires=[c03.inv_k], returns='opaque', ensures=[ki_get_post, c03.pres_k])

    def ki_del_post(s, r):
        dels = s.st.ghost['ctx_dels'].items
        if len(dels) != 1:
            return VBool(False)
        return And(key_ok(s, dels[0]), Or(VBool(guard_ok), s.g('cache_cleared') >= 1))
    reg.fn(KI + '__delitem__', setup=ki_setup, requires=[c03.inv_k], returns=None, ensures=[ki_del_post, c03.pres_k])

    # ---------------- _resolve_fn: a symbol bound to a Python callable (a bare KGLambda, e.g. imported by .py) resolves to that
    # callable, whatever the symbol - including the reserved x, y, z of a function that received it as an argument
    def resolve_setup(eng, st):
        ki_setup(eng, st)
        st.env.pop('k', None)
        st.env.pop('v', None)
        f = VOpaque(hint='f', nonnull=True)
        st.env['f'] = f
        st.assume(f.pred('isinst:KGSym').t)
        st.env['f_args'] = VOpaque(hint='f_args', nonnull=True)
        st.env['f_arity'] = fresh(Int, 'f_arity')

    def resolve_post(s, r):
        looked = s.st.ghost.get('ki_lookup')
        if looked is None or not isinstance(r, VTuple) or len(r.items) != 3:
            return VBool(looked is None)
        kk, val = looked.items
        return Implies(And(same(kk, s._entry['f']), val.pred('isinst:KGLambda'), Not(val.pred('isinst:KGFn'))),
                       And(same(r.items[0], val), same(r.items[1], s.f_args0), VBool(r.items[2].t == s.f_arity0.t) if isinstance(r.items[2], VInt) else VBool(False)))
    reg.fn(KI + '_resolve_fn', setup=resolve_setup, requires=[c03.inv_k], returns='opaque', ensures=[resolve_post, c03.pres_k],
           modifies=c03.eff_k, idempotent_effects=True)

    # ghost logs at the context calls (bookkeeping only)
    reg.fns[KC + '__setitem__'].ghost_at_call = lambda eng, st, s, r: 'ctx_sets' in st.ghost and st.ghost.__setitem__('ctx_sets', VList(st.ghost['ctx_sets'].items + [VTuple([s.k, s.v])]))
    reg.fns[KC + '__delitem__'].ghost_at_call = lambda eng, st, s, r: 'ctx_dels' in st.ghost and st.ghost.__setitem__('ctx_dels', VList(st.ghost['ctx_dels'].items + [s.k]))

    def log_get(eng, st, s, r):
        if 'lookups' in st.ghost:
            st.ghost['lookups'] = VList(st.ghost['lookups'].items + [VTuple([s.k, r])])
        st.ghost['wrap_lookup'] = r
        st.ghost['ki_lookup'] = VTuple([s.k, r])
    reg.fns[KC + '__getitem__'].ghost_at_call = log_get
    reg.fns[KC + '__getitem__'].ghost_at_raise = lambda eng, st, s, e: (st.ghost.__setitem__('wrap_lookup', NONE), st.ghost.__setitem__('wrap_lookup_failed', lift(True)))

    def log_klong_call(eng, st, s, ret):
        c03.log_call(eng, st, s, ret)
        if 'klong_calls' in st.ghost:
            st.ghost['klong_calls'] = VList(st.ghost['klong_calls'].items + [s.x])
    reg.fns[KI + 'call'].ghost_at_call = log_klong_call

    from replay import c09 as rp
    reg.replays.append((r'KGLambda', rp.replay_lambda))
    reg.replays.append((r'KGFnWrapper', rp.replay_wrapper))
    reg.replays.append((r'_resolve_fn', rp.replay_resolve))
    reg.replays.append((r'KlongInterpreter\.__(set|get|del)item__', rp.replay_items))


def eng_truth(v):
    v = lift(v)
    if isinstance(v, VBool):
        return v.t
    if isinstance(v, VOpaque):
        return z3.And(v.pred('truth').t, z3.Not(v.pred('isnone').t))
    raise Refuse(f"truth of {v!r}")


REGIONS = {}


def configure(eng):
    c03.configure(eng)
    peq = z3.Function('p:eq', Obj, Obj, Bool)
    c03.RES_IMPL[0] = lambda k: z3.Or(*[peq(k, SYM[n].t) for n in ORDER])
    eng.stable_opaque_attrs |= {'a', 'args', 'arity', 'fn'}
    eng.globals_v['reserved_fn_args'] = VList([lift(n) for n in ORDER])
    eng.globals_v['reserved_fn_symbols'] = VList([SYM[n] for n in ORDER])
    eng.globals_v['reserved_fn_symbol_map'] = VOpaque(z3.Const('reserved_fn_symbol_map', Obj), nonnull=True)

    prev_index = eng.hooks['index']

    def index(e, obj, key, st, node):
        if obj is e.globals_v['reserved_fn_symbol_map'] and isinstance(key, VStr) and z3.is_string_value(key.t) and key.t.as_string() in SYM:
            return [(st, SYM[key.t.as_string()])]
        return prev_index(e, obj, key, st, node)
    eng.hooks['index'] = index

    prev_call_opaque = eng.hooks['call_opaque']

    def call_opaque(e, fv, args, kwargs, st, node):
        if 'pycalls' in st.ghost:
            # the wrapped Python callable: log the invocation (count, positional arguments, result); it may raise
            st.ghost['pycalls'] = st.ghost['pycalls'] + 1
            st.ghost['pyargs'] = VTuple(list(args))
            s2 = st.fork()
            r = VOpaque(hint='pyresult')
            st.ghost['pyret'] = r
            return [(st, r), e.exc(s2, '<any>', node)]
        return prev_call_opaque(e, fv, args, kwargs, st, node)
    eng.hooks['call_opaque'] = call_opaque

    def new_call(e, args, kwargs, st, node):
        o = e.mk_opaque_instance('KGCall', st)
        a = list(args) + [kwargs.get(k) for k in ('a', 'args', 'arity')[len(args):]]
        st.ghost['kgcall:' + str(o.t)] = VTuple(a[:3])
        if isinstance(a[0], VOpaque):
            st.assume(VBool(z3.Function('wrapped_fn', Obj, Obj)(o.t) == z3.Function('lambda_fn', Obj, Obj)(a[0].t)))
        return [(st, o)]
    eng.hooks['new:KGCall'] = new_call

    def new_wrapper(e, args, kwargs, st, node):
        o = e.mk_opaque_instance('KGFnWrapper', st)
        st.ghost['wrapper:' + str(o.t)] = VTuple([args[0], args[1], kwargs.get('sym', args[2] if len(args) > 2 else NONE)])
        return [(st, o)]
    eng.hooks['new:KGFnWrapper'] = new_wrapper

    def new_sym(e, args, kwargs, st, node):
        o = e.mk_opaque_instance('KGSym', st)
        st.assume(VBool(z3.Function('sym_of', Obj, Obj)(o.t) == e.as_obj(args[0])))
        return [(st, o)]
    eng.hooks['new:KGSym'] = new_sym

    prev_om = eng.hooks.get('opaque_method')

    def opaque_method(e, obj, name, args, kwargs, st, node):
        if name == 'clear' and 'cache_cleared' in st.ghost:
            st.ghost['cache_cleared'] = st.ghost['cache_cleared'] + 1
            return [(st, NONE)]
        return prev_om(e, obj, name, args, kwargs, st, node) if prev_om else None
    eng.hooks['opaque_method'] = opaque_method

    # the target function object used by KGFnWrapper.__call__: the object whose .a was read last
    prev_getattr = None
