"""C10 - a dictionary behaves as a finite map under any sequence of operations.

Abstract view of a dictionary d: has[d] (domain) and mem[d] (values) - ghost maps of contracts/ctxmodel.py.  Every history
property of the statement follows from the per-operation whole-view postconditions below by induction on the history.
 * d,[k v] and [k v],d : the result IS d (same object), view' = view[k -> v]  (stated over the whole view: other keys untouched)
 * d?k : view(k) if present else :undefined, view unchanged       * k_d : view' = view minus k, same object, absent key is a no-op
 * #d = len(d)                                                    * f'd applies f once per (key,value) pair of items()
 * the string/string branch of Join cannot capture a dictionary operand
 * a literal :{...} is parsed into a call of copy_lambda (deep copy at every evaluation)
"""
import ast
import z3
from pyvc.values import *
from pyvc.state import Raised
from pyvc.contracts import loop
from . import ctxmodel as cm
from .ctxmodel import VArr

D = 'klongpy/dyads.py::'
M = 'klongpy/monads.py::'
AD = 'klongpy/adverbs.py::'
T = 'klongpy/types.py::'
UNDEF = VOpaque(z3.Const('KLONG_UNDEFINED', Obj), nonnull=True)
sc, kk = z3.Const('sc!q', Obj), z3.Const('kk!q', Obj)


def has_at(st, d, k): return z3.Select(z3.Select(st.ghost['has'].t, d), k)
def mem_at(st, d, k): return z3.Select(z3.Select(st.ghost['mem'].t, d), k)


def view_same(s, *a):
    return And(VBool(s.st.ghost['has'].t == s.old.ghost['has'].t), VBool(s.st.ghost['mem'].t == s.old.ghost['mem'].t))


def only_key_changed(s, d, k):
    st, old = s.st, s.old
    return VBool(z3.ForAll([sc, kk], z3.Implies(z3.Not(z3.And(sc == d, kk == k)),
                                                z3.And(has_at(st, sc, kk) == has_at(old, sc, kk),
                                                       z3.Implies(has_at(old, sc, kk), mem_at(st, sc, kk) == mem_at(old, sc, kk))))))


def mkdict(st, name):
    d = VOpaque(hint=name, nonnull=True)
    st.assume(d.pred('isinst:dict'))
    st.assume(Not(d.pred('isinst:str')))
    return d


def build(reg, src):
    reg.assumptions += [
        "Python dict: a finite map keyed by hash/== (so 1, 1.0 and True are one key; KGSym.__eq__/__hash__ distinguish symbols from strings); "
        "items() yields every pair exactly once; len() is the number of keys - assumed library contract",
        "stored values are never Python None (Klong values); copy.deepcopy returns a fresh equal object (assumed)",
        "the induction over operation histories from the per-operation whole-view postconditions is the standard ADT argument (stated, not re-proved)",
        "At/Index on a dictionary (eval_dyad_at_index) is not under contract",
    ]
    reg.assumed_calls.update({'backend.kg_asarray': 'nonnull', 'bknp.isarray': Bool, '_arr_to_list': 'nonnull', 'backend.get_dtype_kind': 'opaque',
                              'numpy.asarray': 'nonnull', 'bknp.asarray': 'nonnull', 'bknp.concatenate': 'nonnull', 'backend.is_number': Bool,
                              'backend.np.abs': 'nonnull', 'is_char': Bool, 'finditer': 'nonnull', 'bknp.where': 'nonnull', 'backend.kg_equal': Bool,
                              'backend.str_to_chr_arr': 'nonnull', 'is_empty': Bool, 'is_iterable': Bool, 'is_list': Bool, 'backend.to_numpy': 'nonnull',
                              'backend.is_array': Bool, 'ord': Int})
    reg.pure_calls |= {'backend.kg_asarray', 'is_list', 'is_empty', 'is_iterable', 'backend.is_number', 'is_char'}
    reg.fn(T + 'is_dict', inline=True)

    def base(eng, st):
        cm.init_ghost(st)
        st.env['backend'] = VOpaque(hint='backend', nonnull=True)

    # ---------------- Join
    def join_dict_left(eng, st):
        base(eng, st)
        st.env['a'] = mkdict(st, 'd')
        st.env['b'] = VList([VOpaque(hint='k', nonnull=True), VOpaque(hint='v', nonnull=True)])

    def join_dict_right(eng, st):
        base(eng, st)
        st.env['b'] = mkdict(st, 'd')
        a = VOpaque(hint='pair', nonnull=True)
        st.assume(Not(a.pred('isinst:dict')))
        st.assume(Not(a.pred('isinst:str')))
        st.assume(VBool(z3.Function('assumed:is_list', Obj, Bool)(a.t)))
        st.assume(VBool(z3.Function('len:obj', Obj, Int)(a.t) == 2))
        st.env['a'] = a
        st.ghost['pair'] = VTuple([VOpaque(hint='k', nonnull=True), VOpaque(hint='v', nonnull=True)])

    def join_str_dict(eng, st):
        base(eng, st)
        a = VOpaque(hint='s', nonnull=True)
        st.assume(a.pred('isinst:str'))
        st.assume(Not(a.pred('isinst:dict')))
        st.assume(Not(VBool(z3.Function('assumed:is_list', Obj, Bool)(a.t))))      # a string is not a list (types.is_list)
        st.env['a'] = a
        st.env['b'] = mkdict(st, 'd')
        st.ghost['concat'] = lift(False)

    def join_post(s, r):
        a, b = s.a0, s.b0
        if isinstance(b, VList):                       # d,[k v]
            d, k, v = a, b.items[0], b.items[1]
        elif 'pair' in s.old.ghost:                    # [k v],d
            d, (k, v) = b, s.old.ghost['pair'].items
        else:                                          # "string",d : not the string branch, not a dictionary update (len != 2 unknown) ...
            return Not(s.g('concat'))          # the string+string branch (a+b) was not taken
        return And(same(r, d), VBool(has_at(s.st, d.t, k.t)), VBool(mem_at(s.st, d.t, k.t) == v.t), only_key_changed(s, d.t, k.t))

    reg.fn(D + 'eval_dyad_join', cases=[('dict,pair', join_dict_left), ('pair,dict', join_dict_right), ('string,dict', join_str_dict)],
           returns='opaque', ensures=[join_post])

    # ---------------- Find
    def find_setup(eng, st):
        base(eng, st)
        st.env['a'] = mkdict(st, 'd')
        st.env['b'] = VOpaque(hint='k', nonnull=True)

    def find_post(s, r):
        d, k = s.a0.t, s.b0.t
        return And(If(VBool(has_at(s.old, d, k)), same(r, VOpaque(mem_at(s.old, d, k))), same(r, UNDEF)), view_same(s))
    reg.fn(D + 'eval_dyad_find', setup=find_setup, returns='opaque', ensures=[find_post], raises=[])

    # ---------------- Drop
    def drop_setup(eng, st):
        base(eng, st)
        st.env['b'] = mkdict(st, 'd')
        st.env['a'] = VOpaque(hint='k', nonnull=True)

    def drop_post(s, r):
        d, k = s.b0.t, s.a0.t
        return And(same(r, s.b0), VBool(z3.Not(has_at(s.st, d, k))), only_key_changed(s, d, k))
    reg.fn(D + 'eval_dyad_drop', setup=drop_setup, returns='opaque', ensures=[drop_post], raises=[])

    # ---------------- Size
    def size_setup(eng, st):
        base(eng, st)
        a = mkdict(st, 'd')
        st.assume(Not(VBool(z3.Function('assumed:backend.is_number', Obj, Bool)(a.t))))
        st.assume(Not(VBool(z3.Function('assumed:is_char', Obj, Bool)(a.t))))
        st.env['a'] = a
    reg.fn(M + 'eval_monad_size', setup=size_setup, returns='opaque',
           ensures=[lambda s, r: And(VBool(isinstance(r, VInt)), r == VInt(z3.Function('len:obj', Obj, Int)(s.a0.t))) if isinstance(r, VInt) else VBool(False), view_same])

    # ---------------- Each
    def each_setup(eng, st):
        base(eng, st)
        a = mkdict(st, 'd')
        st.assume(Not(VBool(z3.Function('assumed:is_iterable', Obj, Bool)(a.t))))
        st.env['a'] = a
        st.env['f'] = VOpaque(hint='f', nonnull=True)
        st.env['op'] = VOpaque(hint='op')
        st.ghost['fcalls'] = VList([])

    def each_post(s, r):
        calls = s.st.ghost['fcalls'].items
        if len(calls) > 1:
            return VBool(False)                # f applied more than once to one pair
        if len(calls) == 1:
            (arg,) = calls[0].items
            el = s.st.ghost.get('generic_elem')
            if el is None:
                return VBool(False)
            return same(arg, VOpaque(z3.Function('assumed:backend.kg_asarray', Obj, Obj)(el.t)))    # f receives the [key value] pair
        return VBool(True)
    reg.fn(AD + 'eval_adverb_each', setup=each_setup, returns='opaque', ensures=[each_post], idempotent_effects=True,
           loops={0: loop(havoc=dict(has_str=Bool, r='nonnull', u='opaque', x='opaque'))})

    # ---------------- literal: parsed into a call of copy_lambda whose body deep-copies
    def check_literal(ctx):
        t = ctx['src'].tree('klongpy/parser.py')
        res = []
        lam = None
        for n in t.body:
            if isinstance(n, ast.Assign) and any(isinstance(x, ast.Name) and x.id == 'copy_lambda' for x in n.targets):
                v = n.value
                if isinstance(v, ast.Call) and getattr(v.func, 'id', None) == 'KGLambda' and v.args and isinstance(v.args[0], ast.Lambda):
                    lam = v.args[0]
        ok = False
        detail = 'copy_lambda = KGLambda(lambda x: copy.deepcopy(x)) not found'
        if lam is not None and len(lam.args.args) == 1:
            p = lam.args.args[0].arg
            body = ast.dump(lam.body)
            want = [ast.dump(ast.parse(f"copy.deepcopy({p})", mode='eval').body), ast.dump(ast.parse(f"deepcopy({p})", mode='eval').body)]
            ok = body in want
            detail = f"copy_lambda body: {ast.unparse(lam.body)}"
        res.append(dict(name='klongpy/parser.py::copy_lambda#body-is-deepcopy-of-its-argument', ok=ok, backend='ast-structural', detail=detail))
        # the ':{' branch of kg_read returns KGCall(copy_lambda, args=<dict built from the read list>, arity=0)
        fn = ctx['src'].find('klongpy/parser.py::kg_read')
        found = False
        for n in ast.walk(fn):
            if isinstance(n, ast.If) and isinstance(n.test, ast.Compare) and isinstance(n.test.comparators[0], ast.Constant) and n.test.comparators[0].value == '{':
                rets = [x for x in ast.walk(n) if isinstance(x, ast.Return)]
                for rt in rets[:1]:
                    v = rt.value.elts[1] if isinstance(rt.value, ast.Tuple) and len(rt.value.elts) == 2 else None
                    if isinstance(v, ast.Call) and getattr(v.func, 'id', None) == 'KGCall' and v.args and getattr(v.args[0], 'id', None) == 'copy_lambda':
                        found = True
                break
        res.append(dict(name="klongpy/parser.py::kg_read#dict-literal-evaluates-through-copy_lambda", ok=found, backend='ast-structural',
                        detail="':{' branch returns KGCall(copy_lambda, ...)" if found else "':{' branch does not return a call of copy_lambda"))
        bad = [r for r in res if not r['ok']]
        if bad:
            from pyvc.run import run_replay
            from replay import c10 as rp10
            r = run_replay(rp10.replay_dict, {}, bad[0]['name'], timeout_s=60)
            for b in bad:
                b['confirmed'] = bool(r.get('confirmed'))
                b['replay'] = dict(result=r)
                if r.get('confirmed'):
                    b['detail'] += f" | real code: {r.get('detail')}"
        return res
    reg.extra_checks.append(check_literal)

    # a dictionary bound to a second name IS the same object (e::d): the interpreter stores the value it is given (C09's contract of
    # KlongInterpreter.__setitem__, through which the Define verb goes), re-verified here
    def binding_keeps_identity(ctx):
        from pyvc.subverify import subverify
        from contracts import c09
        from replay import c10 as rp10
        key = 'klongpy/interpreter.py::KlongInterpreter.__setitem__'
        rows, _ = subverify(src, 'C10', c09, [key], replay=rp10.replay_dict, why='klong[name]=v binds name to v itself (no copy)')
        ctx['eng'].verified[key] = dict(sha=src.sha(src.find(key)), backend='z3 (contract of contracts/c09.py)')
        return rows
    binding_keeps_identity.__name__ = 'binding-keeps-identity'
    reg.extra_checks.append(binding_keeps_identity)

    from replay import c10 as rp
    # (bounded, labelled) keys of different kinds with the same text are different keys: Python's dict/hash/== on the key objects is an
    # assumed contract of the proof above - this battery is what looks at the key classes themselves
    def key_kinds(ctx):
        from pyvc.run import run_replay
        r = run_replay(lambda inputs, name: dict(rows=rp.key_kind_rows()), {}, 'key-kinds', timeout_s=60)
        rows_ = r.get('rows') if isinstance(r, dict) else None
        if not rows_:
            return [dict(name='key-kinds(bounded)::harness', ok=False, undecided=True, backend='native-execution (bounded)', detail=str(r)[:200])]
        return [dict(name=f"key-kinds(bounded)::{g}", ok=bool(ok), backend='native-execution (bounded)', detail=d, confirmed=not ok) for g, ok, d in rows_]
    key_kinds.__name__ = 'key-kinds'
    reg.extra_checks.append(key_kinds)
    reg.bounded.append(dict(check='key-kinds', tool='native execution', bound='4 pairs of key kinds with the same text, both insertion orders', result='see rows'))
    reg.replays.append((r'.', rp.replay_dict))


REGIONS = {}


def configure(eng):
    cm.configure(eng)
    eng.globals_v['KLONG_UNDEFINED'] = UNDEF
    eng.opaque_classes |= {'KGSym', 'KGChar'}
    eng.module_names |= {'bknp', 'backend'}

    prev_index = eng.hooks['index']

    def index(e, obj, key, st, node):
        # [k v],d : the two members of the pair (an array of two members)
        if 'pair' in st.ghost and isinstance(obj, VOpaque) and obj is st.env.get('a') and isinstance(key, VInt) and z3.is_int_value(key.t):
            return [(st, st.ghost['pair'].items[key.t.as_long()])]
        return prev_index(e, obj, key, st, node)
    eng.hooks['index'] = index

    prev_om = eng.hooks.get('opaque_method')

    def opaque_method(e, obj, name, args, kwargs, st, node):
        if name == 'get' and len(args) == 1 and 'has' in st.ghost:
            k = e.as_obj(args[0])
            outs = []
            for s2, present in e.branch(st, z3.Select(z3.Select(st.ghost['has'].t, obj.t), k), 'dict.get'):
                outs.append((s2, VOpaque(z3.Select(z3.Select(s2.ghost['mem'].t, obj.t), k), nonnull=True) if present else NONE))
            return outs
        if name == 'items':
            return [(st, VOpaque(hint='items', nonnull=True))]
        return prev_om(e, obj, name, args, kwargs, st, node) if prev_om else None
    eng.hooks['opaque_method'] = opaque_method

    def binop(e, op, a, b, st, node):
        if isinstance(op, ast.Add) and 'concat' in st.ghost:
            st.ghost['concat'] = lift(True)
        return None
    eng.hooks['binop'] = binop

    def call_opaque(e, fv, args, kwargs, st, node):
        if 'fcalls' in st.ghost:
            st.ghost['fcalls'] = VList(st.ghost['fcalls'].items + [VTuple(list(args))])
            s2 = st.fork()
            return [(st, VOpaque(hint='fresult')), e.exc(s2, '<any>', node)]
        raise Refuse("call of an opaque value")
    eng.hooks['call_opaque'] = call_opaque
