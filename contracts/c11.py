"""C11 - readable output reads back to the same value (core kinds).

 * strings: the writer's loop proves  kg_write_string(s) = '"' ++ enc(s) ++ '"'  (enc doubles quotes; positional spec encP),
   the reader's loop proves  read_string(t,i) = dec(t,i)  (positional spec decS/decN); Lean proves dec(enc s ++ '"' ++ tail) = s
   when the character after the closing quote is not a quote (lean/Strings.lean: roundtrip);
 * characters: kg_write_char(c) = "0c" ++ c and read_char returns the character at i+2, consuming exactly 3;
 * symbols: kg_write_symbol(x) = ":" ++ str(x);
 * kg_write dispatch order over the class lattice (symbol before string, character before string, integer before float);
 * bounded stand-in (labelled, per value kind): write -> read -> match and write-again over a closed value universe, on the
   real kg_write / .rs, including Form(Format) for atoms.
"""
import z3
from pyvc.values import *
from pyvc.state import Raised
from pyvc.contracts import loop

W = 'klongpy/writer.py::'
P = 'klongpy/parser.py::'
Q = '"'
encP = specfn('encP', [Str, Int], Str)
decS = specfn('decS', [Str, Int], Str)
decN = specfn('decN', [Str, Int], Int)


def L(s): return len_(s.t)


def acc(s):
    """the function's join-accumulator, whatever the local is called (contracts talk about the abstraction, not the temporary)"""
    c = [v for k, v in s._cur.items() if isinstance(v, VStrAcc) or (isinstance(v, VList) and all(isinstance(x, VStr) for x in v.items))]
    if len(c) != 1:
        raise Refuse(f"expected exactly one join accumulator, found {len(c)}")
    return as_str(c[0])


def as_str(v):
    """a join-accumulator list as its concatenation"""
    if isinstance(v, VList):
        t = lift("")
        for x in v.items:
            t = t + x
        return t
    return v


def enc_unfold(s, k):
    """definition of encP at k: the encoding of s[:k]"""
    if not isinstance(s, VStr):
        return VBool(True)
    k = lift(k)
    c = s.at(k - 1)
    return And(Implies(k <= 0, encP(s, k) == ""),
               Implies(And(k > 0, k <= len_(s)), encP(s, k) == encP(s, k - 1) + If(c == Q, lift(Q + Q), c)))


def dec_unfold(t, i):
    n = len_(t)
    at = t.at
    return And(Implies(i >= n, And(decS(t, i) == "", decN(t, i) == 0)),
               Implies(And(i < n, at(i) == Q, i + 1 < n, at(i + 1) == Q), And(decS(t, i) == lift(Q) + decS(t, i + 2), decN(t, i) == 2 + decN(t, i + 2))),
               Implies(And(i < n, at(i) == Q, Not(And(i + 1 < n, at(i + 1) == Q))), And(decS(t, i) == "", decN(t, i) == 1)),
               Implies(And(i < n, at(i) != Q), And(decS(t, i) == at(i) + decS(t, i + 1), decN(t, i) == 1 + decN(t, i + 1))))


def build(reg, src):
    reg.assumptions += [
        "spec functions encP / decS / decN exist in three renderings (SMT unfolding here, Python in replay/c11.py, Lean in lean/Strings.lean); "
        "their pairing is by hand and narrowed by a bounded cross-check on every run",
        "reals: float(str(x)) == x and CPython's repr grammar are assumed; integers: int(str(n)) == n assumed; lists / dictionaries / "
        "Form-Format: only the bounded stand-in (labelled), not proved",
        "inf / nan are outside the reader's number syntax (domain boundary)",
    ]
    # ---------------- writer
    reg.fn(W + 'kg_write_string', params=dict(s=Str, display=Bool), returns=Str, raises=[],
           loops={0: loop(invariant=[lambda s: acc(s) == lift(Q) + encP(s.s, s.g('__for_i'))],
                          hints=[lambda s: enc_unfold(s.s, s.g('__for_i') + 1), lambda s: enc_unfold(s.s, s.g('__for_i'))])},
           pre_hints=[lambda s: enc_unfold(s.s, 0)],
           ensures=[lambda s, r: If(s.display, r == s.s, r == lift(Q) + encP(s.s, len_(s.s)) + lift(Q)) if isinstance(s.s, VStr) else VBool(True)])
    reg.fn(W + 'kg_write_char', params=dict(c=Str, display=Bool), returns=Str, raises=[],
           ensures=[lambda s, r: If(s.display, r == s.c, r == lift("0c") + s.c) if isinstance(s.c, VStr) else VBool(True)])
    reg.fn(W + 'kg_write_symbol', params=dict(display=Bool), returns=Str,
           ensures=[lambda s, r: If(s.display, r == VStr(z3.Function('str:obj', Obj, Str)(s.x.t)),
                                    r == lift(":") + VStr(z3.Function('str:obj', Obj, Str)(s.x.t))) if isinstance(r, VStr) else VBool(False)])

    # ---------------- reader
    reg.fn(P + 'cmatch', inline=True)
    reg.fn(P + 'cexpect2', inline=True)
    reg.fn(P + 'read_string', params=dict(t=Str, i=Int), requires=[lambda s: s.i >= 0], returns=(Int, Str), raises=[],
           loops={0: loop(invariant=[lambda s: s.i >= s.i0,
                                     lambda s: acc(s) + decS(s.t, s.i) == decS(s.t, s.i0),
                                     lambda s: s.i + decN(s.t, s.i) == s.i0 + decN(s.t, s.i0)],
                          hints=[lambda s: dec_unfold(s.t, s.i)], exit_hints=[lambda s: dec_unfold(s.t, s.i)],
                          variant=lambda s: L(s) - s.i)},
           ensures=[lambda s, r: r[1] == decS(s.t, s.i0), lambda s, r: r[0] == s.i0 + decN(s.t, s.i0)])
    reg.fn(P + 'read_char', params=dict(t=Str, i=Int), requires=[lambda s: s.i >= 0], returns=(Int, 'opaque'),
           ensures=[lambda s, r: And(r[0] == s.i0 + 3, s.t.sub(s.i0, 2) == "0c", s.i0 + 2 < L(s),
                                     VBool(z3.Function('char_text', Obj, Str)(r[1].t) == s.t.at(s.i0 + 2).t))])

    # ---------------- dispatch order of kg_write
    def disp_case(kind):
        def f(eng, st):
            a = VOpaque(hint='a', nonnull=True)
            isint = VBool(z3.Function('assumed:is_integer/2', Obj, Obj, Bool)(a.t, z3.Const('backend', Obj)))
            isflt = VBool(z3.Function('assumed:is_float/2', Obj, Obj, Bool)(a.t, z3.Const('backend', Obj)))
            facts = {'symbol': [a.pred('isinst:KGSym'), a.pred('isinst:str')],
                     'integer': [Not(a.pred('isinst:KGSym')), isint, isflt],            # is_float is also true of ints
                     'float': [Not(a.pred('isinst:KGSym')), Not(isint), isflt],
                     'char': [Not(a.pred('isinst:KGSym')), Not(isint), Not(isflt), a.pred('isinst:KGChar'), a.pred('isinst:str')],
                     'string': [Not(a.pred('isinst:KGSym')), Not(isint), Not(isflt), Not(a.pred('isinst:KGChar')), a.pred('isinst:str')]}[kind]
            for fct in facts:
                st.assume(fct)
            st.assume(Not(same(a, UNDEF)))
            st.env['a'] = a
            st.env['backend'] = VOpaque(z3.Const('backend', Obj), nonnull=True)
            st.env['display'] = fresh(Bool, 'display')
            st.ghost['writer_called'] = VList([])
            st.ghost['expect'] = lift(kind)
        return f

    def disp_post(s, r):
        called = s.st.ghost['writer_called'].items
        want = {'symbol': 'kg_write_symbol', 'integer': 'kg_write_integer', 'float': 'kg_write_float', 'char': 'kg_write_char',
                'string': 'kg_write_string'}[s.st.ghost['expect'].t.as_string()]
        return VBool(len(called) == 1 and called[0] == want)

    reg.fn(W + 'kg_write', cases=[(k, disp_case(k)) for k in ('symbol', 'integer', 'float', 'char', 'string')], returns='opaque', ensures=[disp_post])
    for nm in ('kg_write_integer', 'kg_write_float', 'kg_write_dict', 'kg_write_list', 'kg_write_fn', 'kg_write_channel'):
        reg.fn(W + nm, verify=False, returns=Str)
    for nm in ('kg_write_symbol', 'kg_write_integer', 'kg_write_float', 'kg_write_char', 'kg_write_string', 'kg_write_dict', 'kg_write_list'):
        reg.fns[W + nm].ghost_at_call = (lambda name: lambda eng, st, s, r: 'writer_called' in st.ghost and
                                         st.ghost.__setitem__('writer_called', VList(st.ghost['writer_called'].items + [name])))(nm)
    # ---------------- read_list: the list IS the sequence of lexeme values between the brackets, in order - no value is re-interpreted
    # (a string or character equal to "[" is a member, not a list opener)
    SeqObjL = z3.SeqSort(Obj)

    def rl_setup(eng, st):
        st.env['module'] = VOpaque(hint='module')
        st.ghost['lex'] = VSeq(z3.Empty(SeqObjL))

    def lexeme(eng, st, s, r):
        if 'lex' in st.ghost and isinstance(r, VTuple):
            q = r.items[1]
            qo = eng.as_obj(q)
            isnone = q.pred('isnone').t if isinstance(q, VOpaque) else z3.BoolVal(isinstance(q, VNoneT))
            cur = st.ghost['lex'].t
            st.ghost['lex'] = VSeq(z3.If(isnone, cur, z3.Concat(cur, z3.Unit(qo))))
    reg.fn(P + 'kg_read', verify=False, params=dict(t=Str, i=Int), returns=(Int, 'opaque'), ghost_at_call=lexeme,
           ensures=[lambda s, r: r[0] >= s.i0])
    reg.fn(P + 'skip', verify=False, params=dict(t=Str, i=Int), returns=Int, raises=[], ensures=[lambda s, r: r >= s.i0])

    def rl_seq(v):
        return z3.Empty(SeqObjL) if isinstance(v, VList) and not v.items else v.t

    def rl_post(s, r):
        if not s.has('arr'):
            return VBool(True)               # at a call site (nested list): the nested call has its own lexeme sequence
        if not isinstance(r, VTuple) or not isinstance(r.items[1], (VSeq, VList)):
            return VBool(False)
        return VBool(rl_seq(r.items[1]) == s.g('lex').t)
    reg.fn(P + 'read_list', params=dict(t=Str, delim=Str, i=Int), setup=rl_setup, requires=[lambda s: s.i >= 0], returns=(Int, 'opaque'),
           ensures=[rl_post, lambda s, r: r[0] >= 0],
           loops={0: loop(invariant=[lambda s: VBool(rl_seq(s.arr) == s.g('lex').t), lambda s: s.i >= 0],
                          havoc=dict(arr=lambda h: VSeq(z3.Const(fresh_name(h), SeqObjL)), q='opaque'),
                          modifies=lambda eng, st: st.ghost.__setitem__('lex', VSeq(z3.Const(fresh_name('lex'), SeqObjL))))})

    reg.assumed_calls.update({'_backend.to_display': 'nonnull', 'is_integer': Bool, 'is_float': Bool, 'is_list': Bool})
    reg.pure_calls |= {'is_integer', 'is_float', 'is_list'}

    from pyvc.leancheck import lean_check
    reg.extra_checks.append(lean_check('Strings.lean', ['roundtrip', 'encb_length']))
    from replay import c11 as rp
    reg.extra_checks.append(rp.check_spec_renderings)
    reg.extra_checks.append(rp.check_roundtrip_bounded)

    # several objects on one channel: .r must leave the channel exactly behind the object it returned (contracts/c11_read.py)
    def sequential_read_position(ctx):
        from pyvc.subverify import subverify
        from contracts import c11_read
        rows, sub = subverify(src, 'C11', c11_read, [c11_read.K], replay=rp.replay_sequential_reads,
                              why='.r leaves the channel exactly behind the object it returned', timeout_s=20)
        if src.find(c11_read.K) is not None:
            ctx['eng'].verified[c11_read.K] = dict(sha=src.sha(src.find(c11_read.K)), backend='z3 (contracts/c11_read.py)')
        ctx['eng'].reg.assumptions += [a for a in sub.reg.assumptions if a not in ctx['eng'].reg.assumptions]
        if any(r.get('undecided') for r in rows):
            # the contract cannot be attached to this code: the native battery still decides a concrete failure
            from pyvc.run import run_replay
            rr = run_replay(rp.replay_sequential_reads, {}, c11_read.K + '#undecided', timeout_s=60)
            if rr.get('confirmed'):
                rows.append(dict(name=c11_read.K + '#undecided.replay-battery-fails', ok=False, backend='native-execution', confirmed=True,
                                 replay=dict(result=rr), detail=f"proof undecided; the replay battery fails on the real code: {str(rr.get('detail'))[:300]}"))
        return rows
    sequential_read_position.__name__ = 'sequential-read-position'
    reg.extra_checks.append(sequential_read_position)
    reg.replays.append((r'read_list', rp.replay_lists))
    reg.replays.append((r'.', rp.replay_strings))


UNDEF = VOpaque(z3.Const('KLONG_UNDEFINED', Obj), nonnull=True)
REGIONS = {}


def configure(eng):
    eng.opaque_classes |= {'KGChar', 'KGSym'}
    eng.globals_v['KLONG_UNDEFINED'] = UNDEF

    def new_char(e, args, kwargs, st, node):
        o = e.mk_opaque_instance('KGChar', st)
        if isinstance(args[0], VStr):
            st.assume(VBool(z3.Function('char_text', Obj, Str)(o.t) == args[0].t))
        return [(st, o)]
    eng.hooks['new:KGChar'] = new_char

    def call_unknown(e, key, args, kwargs, st, node):
        return None

    def method(e, o, m, args, kwargs, st, node):
        if m == 'append' and len(args) == 1 and isinstance(o, (VSeq, VList)) and e.cur_key.endswith('::read_list'):
            base = z3.Empty(z3.SeqSort(Obj)) if isinstance(o, VList) and not o.items else (o.t if isinstance(o, VSeq) else None)
            if base is None:
                return None
            e.rebind(st, o, VSeq(z3.Concat(base, z3.Unit(e.as_obj(args[0])))))
            return [(st, NONE)]
        return None
    eng.hooks['method'] = method
    # to_display returns its argument for non-tensor values (assumed): identity keeps the class facts of `a`
    eng.reg.externals['_backend.to_display'] = lambda e, st, a, k, n: [(st, a[0])]
