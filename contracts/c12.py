"""C12 - parsing always terminates (and is repeatable).

Contracts on the real lexer (klongpy/parser.py) and recursive-descent parser (klongpy/interpreter.py):
 (1) every while loop has an integer variant, bounded below while the guard holds, strictly decreasing;
 (2) progress postconditions  i0 <= ret <= L+1, token => ret > i0, None => ret >= L;
 (3) the mutual recursion decreases the lexicographic measure (L + 1 - i, rank);
 (4) source asserts, callee preconditions.
Values other than the text and the index are opaque; conditions on them fork both ways.
"""
import z3
from pyvc.values import *
from pyvc.contracts import loop

P = 'klongpy/parser.py::'
I = 'klongpy/interpreter.py::KlongInterpreter.'
T = 'klongpy/types.py::'

RANK = {'read_cond': 7, 'read_expr_array': 7, '_read_fn_args': 7, '_apply_adverbs': 7, 'prog': 6, '_expr': 5, '_factor': 4,
        'read_list': 3, 'kg_read_array': 3, 'kg_read': 2, 'skip': 1}


def L(s): return len_(s.t)
def M(s): return L(s) + 1 - s.i
def pre_idx(s): return And(s.i >= 0, s.i <= L(s) + 1)
def strp(name, c): return VBool(z3.Function('str:' + name, Str, Bool)(c.t))
def isnum(c): return strp('isnumeric', c)


def idx_post(s, r):          # for functions returning the index
    return And(r >= s.i0, r <= L(s) + 1)


def pair_post(s, r):         # for functions returning (index, value)
    return And(r[0] >= s.i0, r[0] <= L(s) + 1)


def token_post(s, r):        # a token was read => progress and inside the text; None => at/after the end
    return And(Implies(Not(is_none(r[1])), And(r[0] > s.i0, s.i0 < L(s))),
               Implies(is_none(r[1]), r[0] >= L(s)))


def progress_post(s, r):     # parser levels: any call that starts inside the text consumes something; at the end there is no node
    return And(Implies(s.i0 < L(s), r[0] > s.i0), Implies(s.i0 >= L(s), is_none(r[1])))


def dec(name):
    return lambda s: (M(s), RANK[name])


INV_I = [lambda s: s.i >= s.i0, lambda s: s.i <= L(s) + 1]


def build(reg, src):
    reg.assumptions += [
        "termination of callees outside the parser is assumed: get_fn_arity (structural recursion over the finite parse tree), is_empty, "
        "backend.kg_asarray, constructors of the node classes, reserved_fn_symbol_map.get, list_to_dict",
        "RecursionError counts as raising (the property allows 'raises an error')",
        "determinism / repeatability is argued from the frame (DESIGN C12-(4)), not an SMT obligation",
        "work bound: the ghost `frontier` discipline proves that parser-level readers never re-parse (no backtracking, nothing "
        "parsed after a caught parse error); the step from there to 'number of reader calls linear in len(t)' is the laminar-"
        "interval argument written in the comment (on paper), and builtin string operations (find, slicing) count as one step",
        "parsing has no effect on variables: the evaluator entries (eval, call, _eval_fn, __call__, __setitem__, __delitem__, "
        "__getitem__) carry `requires false` - any call from a parser function fails that precondition; context writes by other "
        "routes (parse_module sets self._module) are outside this obligation",
        "kg_read_array(**kwargs): keyword arguments are modelled as read_neg / ignore_newline / module with arbitrary values",
    ]
    reg.assumed_calls.update({
        'get_fn_arity': 'opaque', 'is_empty': Bool, 'backend.kg_asarray': 'nonnull', 'reserved_fn_symbol_map.get': 'opaque',
        'list_to_dict': 'opaque', 'self._backend.kg_asarray': 'nonnull',
    })
    # ---- tiny helpers: executed symbolically at every call site (inline), so a change in them is seen by all callers
    for k in ('cmatch', 'cmatch2', 'cpeek', 'cpeek2'):
        reg.fn(P + k, inline=True)
    for k in ('safe_eq', 'is_symbolic', 'is_adverb', 'in_map', 'get_adverb_arity'):
        reg.fn(T + k, inline=True)
    for k in ('_is_monad', '_is_dyad', 'current_module'):
        reg.fn(I + k, inline=True)

    reg.fn(P + 'cexpect', params=dict(t=Str, i=Int, c=Str), requires=[pre_idx], returns=Int,
           ensures=[lambda s, r: And(r == s.i0 + 1, s.i0 < L(s))], raises=['UnexpectedChar'])
    reg.fn(P + 'cexpect2', params=dict(t=Str, i=Int, a=Str, b=Str), requires=[pre_idx], returns=Int,
           ensures=[lambda s, r: And(r == s.i0 + 2, s.i0 + 1 < L(s))], raises=['UnexpectedChar'])

    reg.fn(P + 'read_shifted_comment', params=dict(t=Str, i=Int), requires=[pre_idx], returns=Int, raises=[],
           loops={0: loop(invariant=INV_I + [lambda s: Implies(s.i0 <= L(s), s.i <= L(s))], variant=lambda s: L(s) - s.i)},
           ensures=[idx_post, lambda s, r: Implies(s.i0 <= L(s), r <= L(s))])
    reg.fn(P + 'skip_space', params=dict(t=Str, i=Int, ignore_newline=Bool), requires=[pre_idx], returns=Int, raises=[],
           loops={0: loop(invariant=INV_I + [lambda s: Implies(s.i0 <= L(s), s.i <= L(s))], variant=lambda s: L(s) - s.i)},
           ensures=[idx_post, lambda s, r: Implies(s.i0 <= L(s), r <= L(s))])
    reg.fn(P + 'skip', params=dict(t=Str, i=Int, ignore_newline=Bool), requires=[pre_idx], returns=Int, raises=[],
           decreases=dec('skip'), ensures=[idx_post, lambda s, r: Implies(s.i0 <= L(s), r <= L(s))])
    reg.fn(P + 'read_sys_comment', params=dict(t=Str, i=Int, a=Str), requires=[pre_idx], returns=Int,
           raises=['RuntimeError'],
           loops={0: loop(invariant=[lambda s: s.j >= 0, lambda s: s.i + s.j + len_(s.a) <= L(s) + 1],
                          variant=lambda s: L(s) - (s.i + s.j + 1))},
           ensures=[idx_post])
    reg.fn(P + 'read_num', params=dict(t=Str, i=Int),
           requires=[pre_idx, lambda s: s.i < L(s), lambda s: Or(s.t.at(s.i) == '-', isnum(s.t.at(s.i)))],
           returns=(Int, 'opaque'), raises=['ValueError'],
           loops={0: loop(invariant=INV_I + [lambda s: Implies(s.i == s.i0, isnum(s.t.at(s.i0)))],
                          variant=lambda s: L(s) + 1 - s.i, havoc=dict(use_float=Bool))},
           ensures=[pair_post, lambda s, r: r[0] > s.i0, lambda s, r: Not(is_none(r[1]))])
    reg.fn(P + 'read_char', params=dict(t=Str, i=Int), requires=[pre_idx], returns=(Int, 'opaque'),
           raises=['UnexpectedChar', 'UnexpectedEOF'],
           ensures=[lambda s, r: And(r[0] == s.i0 + 3, r[0] <= L(s)), lambda s, r: Not(is_none(r[1]))])
    reg.fn(P + 'read_sym', params=dict(t=Str, i=Int), requires=[pre_idx], returns=(Int, 'opaque'),
           loops={0: loop(invariant=INV_I + [lambda s: Implies(s.i0 <= L(s), s.i <= L(s))], variant=lambda s: L(s) - s.i)},
           ensures=[pair_post, lambda s, r: Not(is_none(r[1])),
                    lambda s, r: Implies(And(s.i0 < L(s), Or(strp('isalpha', s.t.at(s.i0)), strp('isdigit', s.t.at(s.i0)), s.t.at(s.i0) == '.')),
                                         r[0] > s.i0)])
    reg.fn(P + 'read_op', params=dict(t=Str, i=Int), requires=[pre_idx, lambda s: s.i < L(s)], returns=(Int, 'opaque'),
           ensures=[lambda s, r: And(Or(r[0] == s.i0 + 1, r[0] == s.i0 + 2), r[0] <= L(s)), lambda s, r: Not(is_none(r[1]))])
    reg.fn(P + 'read_string', params=dict(t=Str, i=Int), requires=[pre_idx], returns=(Int, Str), raises=[],
           loops={0: loop(invariant=INV_I + [lambda s: Implies(s.i0 <= L(s), s.i <= L(s))], variant=lambda s: L(s) - s.i)},
           ensures=[pair_post, lambda s, r: Not(is_none(r[1]))])
    reg.fn(P + 'read_list', params=dict(t=Str, delim=Str, i=Int), requires=[pre_idx], returns=(Int, 'opaque'),
           decreases=dec('read_list'),
           loops={0: loop(invariant=INV_I, variant=lambda s: L(s) + 1 - s.i, havoc=dict(arr='nonnull', q='opaque'))},
           ensures=[pair_post, lambda s, r: Not(is_none(r[1]))])
    reg.fn(P + 'kg_read', params=dict(t=Str, i=Int, read_neg=Bool, ignore_newline=Bool), requires=[pre_idx],
           returns=(Int, 'opaque'), decreases=dec('kg_read'), ensures=[pair_post, token_post])

    def kwargs_setup(eng, st):
        st.env['**kwargs'] = dict(read_neg=fresh(Bool, 'read_neg'), ignore_newline=fresh(Bool, 'ignore_newline'),
                                  module=VOpaque(hint='module'))
    reg.fn(P + 'kg_read_array', params=dict(t=Str, i=Int), requires=[pre_idx], returns=(Int, 'opaque'),
           decreases=dec('kg_read_array'), setup=kwargs_setup, ensures=[pair_post, token_post])
    reg.fn(P + 'peek_adverb', params=dict(t=Str, i=Int), requires=[pre_idx], returns=(Int, 'opaque'), raises=[],
           ensures=[lambda s, r: Or(And(r[0] == s.i0, is_none(r[1])),
                                    And(Not(is_none(r[1])), Or(r[0] == s.i0 + 1, r[0] == s.i0 + 2), r[0] <= L(s)))])

    def klong_setup(name):
        def f(eng, st):
            o = st.alloc('KlongInterpreter', dict(_backend=VOpaque(hint='backend'), _vm=VOpaque(hint='vm'), _vd=VOpaque(hint='vd'),
                                                  _module=VOpaque(hint='module'), _context=VOpaque(hint='ctx')), hint=name, fresh=False)
            st.env[name] = o
        return f

    reg.fn(P + 'read_cond', params=dict(t=Str, i=Int), requires=[pre_idx], returns=(Int, 'opaque'), setup=klong_setup('klong'),
           decreases=dec('read_cond'), ensures=[pair_post])
    reg.fn(P + 'read_expr_array', params=dict(t=Str, i=Int), requires=[pre_idx], returns=(Int, 'opaque'), setup=klong_setup('klong'),
           decreases=dec('read_expr_array'),
           loops={0: loop(invariant=INV_I, variant=lambda s: L(s) - s.i, havoc=dict(r='opaque', expr='opaque'))},
           ensures=[pair_post])

    ks = klong_setup('self')
    reg.fn(I + 'parse_module', setup=ks, returns=None)
    reg.fn(I + '_apply_adverbs', params=dict(t=Str, i=Int), requires=[pre_idx], returns=(Int, 'opaque'), setup=ks,
           decreases=dec('_apply_adverbs'),
           loops={0: loop(invariant=INV_I + [lambda s: Implies(is_none(s.aa), s.ii == s.i),
                                             lambda s: Implies(Not(is_none(s.aa)), And(s.ii > s.i, s.ii <= L(s)))],
                          variant=lambda s: L(s) + 1 - s.i, havoc=dict(arr='opaque'))},
           ensures=[pair_post])
    reg.fn(I + '_read_fn_args', params=dict(t=Str, i=Int), requires=[pre_idx], returns=(Int, 'opaque'), setup=ks,
           decreases=dec('_read_fn_args'),
           loops={0: loop(invariant=INV_I, variant=lambda s: L(s) + 1 - s.i, havoc=dict(arr='opaque', a='opaque', c='opaque'))},
           ensures=[pair_post, lambda s, r: r[0] > s.i0])
    reg.fn(I + '_factor', params=dict(t=Str, i=Int, ignore_newline=Bool), requires=[pre_idx], returns=(Int, 'opaque'), setup=ks,
           decreases=dec('_factor'), ensures=[pair_post, progress_post])
    reg.fn(I + '_expr', params=dict(t=Str, i=Int, ignore_newline=Bool), requires=[pre_idx], returns=(Int, 'opaque'), setup=ks,
           decreases=dec('_expr'),
           loops={0: loop(invariant=INV_I + [lambda s: s.ii <= L(s) + 1,
                                             lambda s: Implies(Not(is_none(s.aa)), s.ii > s.i),
                                             lambda s: Implies(s.i0 < L(s), s.i > s.i0)],
                          variant=lambda s: L(s) + 1 - s.i, havoc=dict(a='opaque', aa='opaque', aaa='opaque'))},
           ensures=[pair_post, progress_post])
    reg.fn(I + 'prog', params=dict(t=Str, i=Int, ignore_newline=Bool), requires=[pre_idx], returns=(Int, 'opaque'), setup=ks,
           decreases=dec('prog'),
           loops={0: loop(invariant=INV_I, variant=lambda s: L(s) - s.i, havoc=dict(arr='opaque', q='opaque', c='opaque'))},
           ensures=[pair_post])
    reg.fn(T + 'has_none', returns=Bool, raises=[], loops={0: loop()})

    # ---- work bound: no re-parsing.  Ghost `frontier` = the position up to which the text has been consumed by the recursive
    # readers in this activation.  Every recursive reader requires i >= frontier; when one returns (i', node) the frontier moves
    # to i'; when one RAISES the frontier moves past the end of the text, so nothing can be parsed after a caught parse error
    # (no backtracking).  With the progress postconditions (every call that returns a node consumes >= 1 character) the calls
    # of one activation cover disjoint, increasing intervals, nested calls at the same position are bounded by the rank of the
    # termination measure => the number of reader calls is linear in len(t) (each doing lexer work linear in what it consumes).
    # The lexer level (kg_read, read_list, kg_read_array: tokens and data literals) is NOT in the group: the parser uses kg_read
    # as a one-token lookahead and re-reads that token (or list literal) from the same position - a constant factor per nesting
    # rank, not a branching re-parse.
    GROUP = ['read_cond', 'read_expr_array', '_apply_adverbs', '_read_fn_args', '_factor', '_expr', 'prog']
    fr = lambda s: s.g('frontier')

    def moved(eng, st, s, r):
        st.ghost['frontier'] = r[0] if isinstance(r, VTuple) else VInt(L(s).t + 2)

    def burnt(eng, st, s, e):
        st.ghost['frontier'] = VInt(L(s).t + 2)
    for name in GROUP:
        c = reg.fns[(P if (P + name) in reg.fns else I) + name]
        prev_setup = c.setup

        def setup(eng, st, prev_setup=prev_setup):
            if prev_setup:
                prev_setup(eng, st)
            st.ghost['frontier'] = fresh(Int, 'frontier')
        c.setup = setup
        c.requires = list(c.requires) + [lambda s: s.i >= fr(s)]
        c.ghost_at_call = moved
        c.ghost_at_raise = burnt
        for k, lp in (c.loops or {}).items():
            prev_mod = lp.modifies

            def mod(eng, st, prev_mod=prev_mod):
                if prev_mod:
                    prev_mod(eng, st)
                st.ghost['frontier'] = fresh(Int, 'frontier')
            lp.modifies = mod
            lp.invariant = list(lp.invariant) + [lambda s: fr(s) <= s.i]

    # ---- parsing has no effect on variables: the evaluator is unreachable from the parser (`requires false` at its entries)
    for name in ('eval', 'call', '_eval_fn', '__call__', '__setitem__', '__delitem__', '__getitem__'):
        reg.fn(I + name, requires=[lambda s: VBool(False)], returns='opaque', verify=False)

    # ---- repeatability: the parser keeps no state between parses.  Frame obligation (one per parser function, AST-structural):
    # no parser function stores into the interpreter object (self.<attr> = ..., self.<attr>[...] = ..., del, op=) except
    # parse_module's `_module`; the functions of parser.py have no interpreter to write to (klong is only passed through).
    def parser_frame(ctx):
        import ast as _ast
        rows = []
        allowed = {('parse_module', '_module')}
        keys = [I + n for n in ('prog', '_expr', '_factor', '_read_fn_args', '_apply_adverbs', 'parse_module', '_is_monad', '_is_dyad', 'current_module')] + \
               [P + n for n in ('read_cond', 'read_expr_array', 'kg_read', 'kg_read_array', 'read_list')]
        for k in keys:
            fn = src.find(k)
            if fn is None:
                continue
            name = k.split('.')[-1].split('::')[-1]
            bad = []
            for n in _ast.walk(fn):
                tg = []
                if isinstance(n, _ast.Assign):
                    tg = n.targets
                elif isinstance(n, (_ast.AugAssign, _ast.AnnAssign)):
                    tg = [n.target]
                elif isinstance(n, _ast.Delete):
                    tg = n.targets
                for t in tg:
                    for x in (_ast.walk(t) if isinstance(t, (_ast.Tuple, _ast.List)) else [t]):
                        root, attr = x, None
                        while isinstance(root, (_ast.Attribute, _ast.Subscript)):
                            if isinstance(root, _ast.Attribute) and isinstance(root.value, _ast.Name):
                                attr = root.attr
                            root = root.value
                        if isinstance(root, _ast.Name) and root.id in ('self', 'klong') and isinstance(x, (_ast.Attribute, _ast.Subscript)) \
                                and (name, attr) not in allowed:
                            bad.append(f"line {n.lineno}: {_ast.unparse(n)[:70]}")
            rows.append(dict(name=f"{k}#frame.writes-no-interpreter-state", ok=not bad, backend='ast-structural',
                             detail=('; '.join(bad[:3]) + ' - parser state that survives the parse: a later parse of the same text may differ') if bad
                             else 'no store into the interpreter object'))
        bad_rows = [r for r in rows if not r['ok']]
        if bad_rows:
            from pyvc.run import run_replay
            from replay import c12 as rp12
            rr = run_replay(rp12.replay_reparse, {}, bad_rows[0]['name'], timeout_s=120)
            for b in bad_rows:
                b['confirmed'] = bool(rr.get('confirmed'))
                b['replay'] = dict(result=rr)
                if rr.get('confirmed'):
                    b['detail'] += f" | real code: {rr.get('detail')}"
        return rows
    parser_frame.__name__ = 'parser-frame'
    reg.extra_checks.append(parser_frame)

    from replay import c12 as rp
    reg.replays.append((r'#call\d*:KlongInterpreter\.(eval|call|_eval_fn|__call__|__setitem__|__delitem__|__getitem__)', rp.replay_parse_effects))
    reg.replays.append((r'#call\d*:.*\.pre\d+$', rp.replay_work_bound))
    reg.replays.append((r'::(read_string|read_sym|read_num|read_char|read_shifted_comment|kg_read|skip_space|skip)\b', rp.replay_work_bound))
    reg.replays.append((r'read_sys_comment#loop0\.variant', rp.replay_read_sys_comment))
    reg.replays.append((r'.', rp.replay_parse_generic))


REGIONS = {}


def configure(eng):
    eng.opaque_classes |= {'KGOp', 'KGSym', 'KGChar', 'KGCall', 'KGFn', 'KGAdverb', 'KGCond', 'KGExprArray', 'KGLambda'}
    eng.globals_v['reserved_fn_symbol_map'] = VOpaque(hint='rfsm')
    eng.globals_v['copy_lambda'] = VOpaque(hint='copy_lambda')
