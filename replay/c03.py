"""C03 replay and the bounded check of merge_projections."""
import itertools


def fill_spec(arr):
    """reference: at every step, the remaining holes are filled left to right with that step's arguments;
    a None argument leaves its hole open"""
    cur = list(arr[0])
    for fa in arr[1:]:
        holes = [i for i, v in enumerate(cur) if v is None]
        for h, a in zip(holes, fa):
            cur[h] = a
    return cur


def fill_pointwise(arr):
    """the positional rendering FP/H of contracts/c03_merge.py, executable: FP(k+1, p) from FP(k, .) and the hole count H(k, p)"""
    cur = list(arr[0])                      # FP(1, .)
    for k in range(1, len(arr)):
        h, nxt = 0, []
        for p in range(len(cur)):           # h == H(k, p)
            if cur[p] is not None:
                nxt.append(cur[p])
            else:
                nxt.append(arr[k][h] if h < len(arr[k]) else cur[p])
                h += 1
        cur = nxt
    return cur


def check_merge_projections(ctx):
    """exhaustive over the language's domain: the first list has 1..3 entries (x,y,z) with at least one hole, followed
    by up to 3 further argument lists whose length is at most the number of open holes (the parser never supplies more
    arguments than holes); values are distinct sentinels (the function is parametric in them)."""
    import sys
    sys.path.insert(0, ctx['src'].repo)
    import importlib
    import numpy as np
    for m in [k for k in sys.modules if k.startswith('klongpy')]:
        del sys.modules[m]
    types = importlib.import_module('klongpy.types')
    bad = None
    n = 0
    vals = itertools.count(1)

    def value():
        # the arguments of a projection are arbitrary values: sentinels of several kinds (string, number, array, nested list);
        # the merged list must hold the SAME objects
        i = next(vals)
        return [f"v{i}", i, np.array([i, i + 1]), np.array([np.array([i]), f"s{i}"], dtype=object)][i % 4]

    def same_lists(got, want):
        return isinstance(got, list) and isinstance(want, list) and len(got) == len(want) and all(g is w for g, w in zip(got, want))

    def lists(k):
        for pat in itertools.product([True, False], repeat=k):
            yield [None if h else value() for h in pat]
    def rec(cur_lists, holes, depth):
        nonlocal bad, n
        if bad:
            return
        if len(cur_lists) > 1:
            n += 1
            arr = [list(x) for x in cur_lists]
            try:
                got = types.merge_projections([list(a) for a in arr])
                got = list(got)
            except Exception as e:
                got = f"raised {type(e).__name__}: {e}"
            want = fill_spec(arr)
            if not same_lists(fill_pointwise(arr), want):
                bad = dict(arr=repr(arr), got='(specification renderings disagree) ' + repr(fill_pointwise(arr)), want=repr(want))
                return
            if not same_lists(got, want):
                bad = dict(arr=repr(arr), got=repr(got), want=repr(want))
                return
        if depth == 3 or holes == 0:
            return
        for k in range(1, holes + 1):
            for fa in lists(k):
                filled = sum(1 for v in fa if v is not None)
                rec(cur_lists + [fa], holes - filled, depth + 1)
    for k0 in (1, 2, 3):
        for first in lists(k0):
            h = sum(1 for v in first if v is None)
            if h:
                rec([first], h, 0)
    name = "klongpy/types.py::merge_projections#bounded.equals-fill-spec"
    if bad:
        return [dict(name=name, ok=False, backend='exhaustive-enumeration(bounded)', confirmed=True,
                     detail=f"merge_projections({bad['arr']}) = {bad['got']}, the reference filling gives {bad['want']}", replay=bad)]
    return [dict(name=name, ok=True, backend='exhaustive-enumeration(bounded)', detail=f"{n} argument-list histories agree with the fill specification")]


def replay_stack(inputs, obl):
    """context-stack discipline: the scope sequence (same objects, same order) is unchanged by any program, also failing ones"""
    from klongpy import KlongInterpreter
    problems = []
    progs = ['f::{x+y};f(1;2)', 'g::{[a];a::x;a*2};g(3)', 'h::{x%0};h(1)', 'k::{.undefinedfn(x)};k(1)', 'f::{x,y,z};g::f(;2;);h::g(;5);h(7)',
             'r::{:[x>2;x;.f(x+1)]};r(0)', 'p::{x(1)};p({x+1})', 'q::{[t];t::{x%0};t(x)};q(1)', 'a::{b(x)};b::{c(x)};c::{x%0};a(1)',
             "e::{x%0}'[1 2 3]", 'w::{[l];l::x;{x%0}(l)};w(2)', '.py("no_such_module_xyz")', 'u::{x};u(1;2;3;4)']
    for pr in progs:
        k = KlongInterpreter()
        before = ([id(d) for d in k._context._context], k._context._min_ctx_count)
        try:
            k(pr)
        except Exception:
            pass
        after = ([id(d) for d in k._context._context], k._context._min_ctx_count)
        if before != after:
            problems.append(f"{pr!r}: context stack changed from depth {len(before[0])} to {len(after[0])}")
        try:
            if k('1+1') != 2:
                problems.append(f"after {pr!r} the interpreter evaluates 1+1 wrongly")
        except Exception as e:
            problems.append(f"after {pr!r} the interpreter fails on 1+1: {type(e).__name__}")
    if problems:
        return dict(confirmed=True, detail='; '.join(problems[:3]))
    return dict(confirmed=False, detail='stack preserved in all scripted programs')


def replay_cond(inputs, obl):
    from klongpy import KlongInterpreter
    problems = []
    k = KlongInterpreter()
    for pr, want in ((':[0;1;2]', 2), (':[[];1;2]', 2), (':["";1;2]', 2), (':[1;1;2]', 1), (':[[0];1;2]', 1), (':["a";1;2]', 1), (':[0.0;1;2]', 2),
                     (':[0c0;1;2]', 1), (':[:a;1;2]', 1)):
        got = k(pr)
        if got != want:
            problems.append(f"{pr} -> {got}, expected {want}")
    for test, n in (('c(1)', 2), ('c(0)', 2)):
        k = KlongInterpreter()
        k('n::0;c::{n::n+1;x}')
        k(f':[{test};c(10);c(20)]')
        if k('n') != n:
            problems.append(f":[{test};c(10);c(20)] evaluated {k('n')} sub-expressions instead of {n} (test + one branch)")
    if problems:
        return dict(confirmed=True, detail='; '.join(problems[:3]))
    return dict(confirmed=False, detail='conditionals select by Klong truth and evaluate one branch')


def replay_scopes(inputs, obl):
    """lookup / assignment / deletion through the real KlongContext against a list-of-dicts model"""
    from klongpy.interpreter import KlongContext
    from klongpy.core import KGSym, KGCall
    problems = []
    for strict in (0, 1):
        c = KlongContext([{KGSym('s'): 1}, {KGSym('t'): 2}], strict_mode=strict)
        a, b, s_, x = KGSym('a'), KGSym('b'), KGSym('s'), KGSym('x')
        c[a] = 1
        c.push({b: 5, x: 9})
        try:
            c[a] = 2
            c[s_] = 7
        except Exception as e:
            problems.append(f"assignment raised {type(e).__name__}")
        if c[a] != 2 or c._context[1].get(a) != 2 or a in c._context[0]:
            problems.append("assignment to an existing outer name did not update the scope that holds it")
        if c._context[2].get(s_) != 7:
            problems.append("assignment did not update the scope holding the name")
        if strict == 0:
            c[x] = 11
        if strict == 0 and c._context[0].get(x) != 11:
            problems.append("x was not assigned in the innermost scope")
        f = lambda: 3
        c[a] = f
        if not isinstance(c[a], KGCall):
            problems.append("a Python callable assigned to an existing name is stored unwrapped (not callable from Klong)")
        c.pop()
        if c[a] is None:
            problems.append("lookup after pop")
        del c[a]
        try:
            c[a]
            problems.append("deleted name still resolves")
        except KeyError:
            pass
    if problems:
        return dict(confirmed=True, detail='; '.join(problems[:3]))
    return dict(confirmed=False, detail='KlongContext behaves as a stack of maps in the scripted histories')


def replay_application(inputs, obl):
    """function application forms whose value is fixed by the reference: recursion through .f with declared locals, projections whose
    arguments are lists, nested calls"""
    from klongpy import KlongInterpreter
    problems = []
    cases = [
        ('fact::{[a];a::x;:[x<2;1;a*.f(x-1)]};fact(5)', 120),
        ('fib::{[a b];a::x;b::x-1;:[x<2;x;.f(a-1)+.f(b-1)]};fib(10)', 55),
        ('down::{[t];t::x;:[x>0;.f(x-1);0];t};down(3)', 3),
        ('sum::{[h];h::*x;:[0=#x;0;h+.f(1_x)]};sum([1 2 3 4])', 10),
        ('f::{x,y};g::f(;[1 2 3]);g(0)', [0, 1, 2, 3]),
        ('f::{x,y};g::f([1 2 3];);g(0)', [1, 2, 3, 0]),
        ('f::{x,y,z};g::f(;[1 2];);h::g(0;);h(9)', [0, 1, 2, 9]),
        ('f::{(#x)+y};g::f("abc";);g(1)', 4),
    ]
    for prog, want in cases:
        k = KlongInterpreter()
        try:
            got = k(prog)
            got = got.tolist() if hasattr(got, 'tolist') else got
        except Exception as e:
            got = f"raised {type(e).__name__}: {str(e)[:70]}"
        if got != want:
            problems.append(f"{prog} -> {got!r}, the reference gives {want!r}")
    if problems:
        return dict(confirmed=True, detail='; '.join(problems[:3]))
    return dict(confirmed=False, detail='recursion through .f and projections with list arguments give the reference values')


def replay_call_vs_body(inputs, obl):
    """f(a;b) against the body with the arguments substituted, for bodies whose compiled form can fail where the interpreter has a
    defined answer (division by zero), with scalar and list arguments, literal and held in variables"""
    from klongpy import KlongInterpreter
    from klongpy.core import kg_write
    problems = []
    for body, args in (('x%y', ['1', '0']), ('x%y', ['[1 2]', '0']), ('(x+1)%y', ['3', '0']), ('x%y-y', ['5', '2']), ('x!y', ['7', '0'])):
        k = KlongInterpreter()
        k('f::{' + body + '}')
        sub = body
        for nm, a in zip('xy', args):
            sub = sub.replace(nm, '(' + a + ')')
        try:
            want = kg_write(k(sub), k._backend)
        except Exception as e:
            want = 'raises ' + type(e).__name__
        try:
            got = kg_write(k(f"f({';'.join(args)})"), k._backend)
        except Exception as e:
            got = 'raises ' + type(e).__name__
        if got != want:
            problems.append(f"f::{{{body}}}; f({';'.join(args)}) gives {got}, the substituted body {sub} gives {want}")
    if problems:
        return dict(confirmed=True, detail='; '.join(problems[:3]))
    return dict(confirmed=False, detail='call form and substituted body agree where compiled code fails')
