"""Replay for C07: gradient forms whose function fails at its k-th evaluation; snapshot of all globals before/after."""
import numpy as np


def _snap(k):
    out = {}
    for name in ('p', 'w', 'b', 'q'):
        try:
            v = k[name]
        except KeyError:
            continue
        out[name] = (type(v).__name__, np.array(v, dtype=float).tolist() if isinstance(v, (np.ndarray, list, float, int)) else repr(v))
    return out


def replay_grad_purity(inputs, obl):
    from klongpy import KlongInterpreter
    problems = []
    forms = [
        ('p::[1.0 2.0 3.0];n::0;f::{n::n+1;:[n>%d;.undefinedfn(1);+/x*x]}', 'f∇p'),
        ('p::[1.0 2.0 3.0];n::0;f::{n::n+1;:[n>%d;.undefinedfn(1);+/x*x]}', 'f:>p'),
        ('w::[1.0 2.0];b::3.0;n::0;loss::{n::n+1;:[n>%d;.undefinedfn(1);(+/w*w)+b*b]}', 'loss:>[w b]'),
        # a parameter list naming a symbol twice: every occurrence is rebound, the user's value must come back
        ('w::[1.0 2.0];b::3.0;n::0;loss::{n::n+1;:[n>%d;.undefinedfn(1);(+/w*w)+b*b]}', 'loss:>[w w]'),
        ('w::[1.0 2.0];b::3.0;n::0;loss::{n::n+1;:[n>%d;.undefinedfn(1);(+/w*w)+b*b]}', 'loss:>[b w b]'),
        ('q::[1.0 2.0];n::0;g::{n::n+1;:[n>%d;.undefinedfn(1);x*x]}', 'q∂g'),
        ('w::[1.0 2.0];n::0;h::{n::n+1;:[n>%d;.undefinedfn(1);w*w]}', '[w]∂h'),
    ]
    for setup, expr in forms:
        for kfail in (0, 1, 2, 3, 50):
            k = KlongInterpreter()
            try:
                k(setup % kfail)
            except Exception as e:
                problems.append(f"setup failed: {e}")
                continue
            before = _snap(k)
            try:
                k(expr)
            except Exception:
                pass
            after = _snap(k)
            if before != after:
                diff = {n: (before[n], after.get(n)) for n in before if before[n] != after.get(n)}
                problems.append(f"{expr} with the function failing at evaluation {kfail + 1}: variables changed {diff}")
                break
    if problems:
        return dict(confirmed=True, detail='; '.join(problems[:2]))
    return dict(confirmed=False, detail='all variables unchanged after every gradient form, also when the function fails at its k-th call')
