"""Replay harnesses for C15: the real _call_periodic / KGTimerHandler driven by a recording virtual-time loop
(the assumed asyncio contract realised as a test double, passed in as the `loop` argument)."""


class FakeHandle:
    def __init__(self, when, fn, args):
        self.when, self.fn, self.args, self.cancelled, self.fired = when, fn, args, False, False

    def cancel(self):
        self.cancelled = True


class FakeLoop:
    def __init__(self, now=0.0):
        self.now = now
        self.handles = []

    def time(self): return self.now

    def call_soon(self, fn, *a):
        h = FakeHandle(self.now, fn, a); self.handles.append(h); return h

    def call_later(self, d, fn, *a):
        h = FakeHandle(self.now + d, fn, a); self.handles.append(h); return h

    def call_at(self, w, fn, *a):
        h = FakeHandle(w, fn, a); self.handles.append(h); return h

    def live(self):
        return [h for h in self.handles if not h.cancelled and not h.fired]

    def step(self):
        lv = sorted(self.live(), key=lambda h: h.when)
        if not lv:
            return False
        h = lv[0]
        self.now = max(self.now, h.when)
        h.fired = True
        h.fn(*h.args)
        return True


def replay_run_self_cancel(inputs, obl):
    """callback cancels its own timer and returns true: nothing may remain scheduled"""
    from klongpy.sys_fn_timer import _call_periodic
    interval = int(inputs.get('interval', 1))
    loop = FakeLoop(float(inputs.get('start', 0.0)) if isinstance(inputs.get('start'), (int, float)) else 0.0)
    box = {}
    ticks = []

    def cb():
        ticks.append(loop.now)
        r = box['t'].cancel()
        box['timerc'] = r
        return 1
    box['t'] = _call_periodic(loop, 'x', interval, cb)
    loop.step()
    live = loop.live()
    for _ in range(3):
        if not loop.step():
            break
    if box.get('timerc') == 1 and (live or len(ticks) > 1):
        return dict(confirmed=True, detail=f".timerc returned 1 inside the callback at t={ticks[0]}, yet {len(live)} handle(s) remained "
                                           f"scheduled and the callback ran again at {ticks[1:]} (interval={interval})")
    return replay_timer_generic(inputs, obl)


def replay_timer_generic(inputs, obl):
    """generic scenarios: tick times are the interval boundaries; cancel returns 1 then 0; false return stops"""
    from klongpy.sys_fn_timer import _call_periodic, eval_sys_fn_cancel_timer
    problems = []
    for interval in (0, 1, 2, 5):
        for slow in (0.0, 0.5, 2.5):
            loop = FakeLoop(10.0)
            ticks = []

            def cb():
                ticks.append(loop.now)
                loop.now += slow * max(interval, 1)
                return len(ticks) < 4
            t = _call_periodic(loop, 'x', interval, cb)
            if len(loop.live()) != 1:
                problems.append(f"interval={interval}: {len(loop.live())} live handles after creation")
            n = 0
            while loop.step() and n < 10:
                n += 1
                if len(loop.live()) > 1:
                    problems.append(f"interval={interval} slow={slow}: {len(loop.live())} live handles at once")
            if len(ticks) != 4:
                problems.append(f"interval={interval} slow={slow}: {len(ticks)} ticks, expected 4 (callback returned false at the 4th)")
            if interval > 0:
                for a in ticks:
                    k = (a - 10.0) / interval
                    if abs(k - round(k)) > 1e-9 or round(k) < 1:
                        problems.append(f"interval={interval} slow={slow}: tick at {a} is not on a boundary after start=10")
                if len(set(ticks)) != len(ticks):
                    problems.append(f"interval={interval} slow={slow}: two ticks for one boundary {ticks}")
            r1 = eval_sys_fn_cancel_timer(t)
            loop2 = FakeLoop(0.0)
            t2 = _call_periodic(loop2, 'y', max(interval, 1), lambda: 1)
            a, b = eval_sys_fn_cancel_timer(t2), eval_sys_fn_cancel_timer(t2)
            if (a, b) != (1, 0) or loop2.live():
                problems.append(f".timerc on a live timer returned {a} then {b}; live handles afterwards: {len(loop2.live())}")
            if r1 != 0:
                problems.append(f".timerc on a timer already stopped by a false return gave {r1}")
    if eval_sys_fn_cancel_timer(42) != 0:
        problems.append(".timerc(42) != 0")
    if problems:
        return dict(confirmed=True, detail='; '.join(problems[:4]))
    return dict(confirmed=False, detail="generic timer scenarios behave as specified")
