"""Replay harnesses for C15: the real _call_periodic / KGTimerHandler driven by a recording virtual-time loop
(the assumed asyncio contract realised as a test double, passed in as the `loop` argument)."""


class FakeHandle:
    def __init__(self, when, fn, args):
        self.when, self.fn, self.args, self.cancelled, self.fired = when, fn, args, False, False

    def cancel(self):
        self.cancelled = True


class FakeLoop:
    def __init__(self, now=0.0):
        self.now = now
        self.handles = []

    def time(self): return self.now

    def call_soon(self, fn, *a):
        h = FakeHandle(self.now, fn, a); self.handles.append(h); return h

    def call_later(self, d, fn, *a):
        h = FakeHandle(self.now + d, fn, a); self.handles.append(h); return h

    def call_at(self, w, fn, *a):
        h = FakeHandle(w, fn, a); self.handles.append(h); return h

    def live(self):
        return [h for h in self.handles if not h.cancelled and not h.fired]

    def step(self):
        lv = sorted(self.live(), key=lambda h: h.when)
        if not lv:
            return False
        h = lv[0]
        self.now = max(self.now, h.when)
        h.fired = True
        h.fn(*h.args)
        return True


def replay_run_self_cancel(inputs, obl):
    """callback cancels its own timer and returns true: nothing may remain scheduled"""
    from klongpy.sys_fn_timer import _call_periodic
    interval = int(inputs.get('interval', 1))
    loop = FakeLoop(float(inputs.get('start', 0.0)) if isinstance(inputs.get('start'), (int, float)) else 0.0)
    box = {}
    ticks = []

    def cb():
        ticks.append(loop.now)
        r = box['t'].cancel()
        box['timerc'] = r
        return 1
    box['t'] = _call_periodic(loop, 'x', interval, cb)
    loop.step()
    live = loop.live()
    for _ in range(3):
        if not loop.step():
            break
    if box.get('timerc') == 1 and (live or len(ticks) > 1):
        return dict(confirmed=True, detail=f".timerc returned 1 inside the callback at t={ticks[0]}, yet {len(live)} handle(s) remained "
                                           f"scheduled and the callback ran again at {ticks[1:]} (interval={interval})")
    return replay_timer_generic(inputs, obl)


def replay_timer_generic(inputs, obl):
    """generic scenarios: tick times are the interval boundaries; cancel returns 1 then 0; false return stops"""
    from klongpy.sys_fn_timer import _call_periodic, eval_sys_fn_cancel_timer
    problems = []
    for interval in (0, 1, 2, 5):
        for slow in (0.0, 0.5, 2.5):
            loop = FakeLoop(10.0)
            ticks = []

            def cb():
                ticks.append(loop.now)
                loop.now += slow * max(interval, 1)
                return len(ticks) < 4
            t = _call_periodic(loop, 'x', interval, cb)
            if len(loop.live()) != 1:
                problems.append(f"interval={interval}: {len(loop.live())} live handles after creation")
            n = 0
            while loop.step() and n < 10:
                n += 1
                if len(loop.live()) > 1:
                    problems.append(f"interval={interval} slow={slow}: {len(loop.live())} live handles at once")
            if len(ticks) != 4:
                problems.append(f"interval={interval} slow={slow}: {len(ticks)} ticks, expected 4 (callback returned false at the 4th)")
            if interval > 0:
                for a in ticks:
                    k = (a - 10.0) / interval
                    if abs(k - round(k)) > 1e-9 or round(k) < 1:
                        problems.append(f"interval={interval} slow={slow}: tick at {a} is not on a boundary after start=10")
                if len(set(ticks)) != len(ticks):
                    problems.append(f"interval={interval} slow={slow}: two ticks for one boundary {ticks}")
            r1 = eval_sys_fn_cancel_timer(t)
            loop2 = FakeLoop(0.0)
            t2 = _call_periodic(loop2, 'y', max(interval, 1), lambda: 1)
            a, b = eval_sys_fn_cancel_timer(t2), eval_sys_fn_cancel_timer(t2)
            if (a, b) != (1, 0) or loop2.live():
                problems.append(f".timerc on a live timer returned {a} then {b}; live handles afterwards: {len(loop2.live())}")
            if r1 != 0:
                problems.append(f".timerc on a timer already stopped by a false return gave {r1}")
    if eval_sys_fn_cancel_timer(42) != 0:
        problems.append(".timerc(42) != 0")
    problems += raising_callback_problems() + tick_placement_problems() + truth_problems() + real_asyncio_early_dispatch_problems()
    if problems:
        return dict(confirmed=True, detail='; '.join(problems[:4]))
    return dict(confirmed=False, detail="generic timer scenarios behave as specified")


def tick_placement_problems():
    """which boundary each tick serves, against an independent oracle: the first tick serves boundary 1; after a tick for boundary m
    that ends at time e the next tick serves the least boundary j > m with start + j*interval > e.  Dispatch latencies: exactly on
    the deadline, within the clock resolution BEFORE it (asyncio: due when `when < time() + resolution`), late by less / more than
    an interval; callback durations from 0 to 2.5 intervals."""
    import math
    from klongpy.sys_fn_timer import _call_periodic
    problems = []
    RES = 1e-3
    for interval in (1, 2, 5):
        for lat_name, lat in (('on the deadline', 0.0), ('within the clock resolution before the deadline', -RES / 2),
                              ('0.3 intervals late', 0.3 * interval), ('1.6 intervals late', 1.6 * interval)):
            for dur in (0.0, 0.25, 0.75, 1.0, 1.5, 2.5):
                start = 10.0
                loop = FakeLoop(start)
                served, ends = [], []

                def cb():
                    loop.now += dur * interval
                    ends.append(loop.now)
                    return len(ends) < 5
                _call_periodic(loop, 'x', interval, cb)
                for _ in range(8):
                    lv = sorted(loop.live(), key=lambda h: h.when)
                    if not lv:
                        break
                    h = lv[0]
                    loop.now = max(loop.now, h.when + lat)
                    h.fired = True
                    served.append((h.when - start) / interval)
                    h.fn(*h.args)
                want, m = [], None
                for e in ends:
                    m = 1 if m is None else j
                    want.append(m)
                    j = max(m, math.floor((e - start) / interval + 1e-9)) + 1
                got = [round(x, 6) for x in served]
                if got != [float(x) for x in want]:
                    problems.append(f"interval={interval}, dispatch {lat_name}, callback takes {dur} intervals: ticks serve boundaries {got}, expected {want}")
    return problems[:3]


def truth_problems():
    """the timer goes on exactly while the callback returns a true value (Python truth of the value, as Klong results arrive)"""
    import numpy as np
    from klongpy.sys_fn_timer import _call_periodic
    problems = []
    falsy = [0, 0.0, False, None, '', [], np.int64(0), np.float64(0.0), np.bool_(False), np.array([]), np.array(0), np.array([0])]
    truthy = [1, 2.5, True, 'a', [0], np.int64(3), np.float64(0.5), np.bool_(True), np.array([7]), np.array(2)]
    for interval in (0, 1):
        for v in falsy + truthy:
            try:
                bool(v)
            except Exception:           # a value without a truth value (an empty array in this NumPy) is outside the property
                continue
            loop = FakeLoop(0.0)
            calls = []

            def cb():
                calls.append(loop.now)
                return 1 if len(calls) < 2 else (v if len(calls) == 2 else 0)
            t = _call_periodic(loop, 'x', interval, cb)
            n = 0
            try:
                while loop.step() and n < 6:
                    n += 1
            except Exception as e:
                problems.append(f"interval={interval}: the tick whose callback returned {v!r} ({type(v).__name__}) raised {e!r}")
                continue
            want = 2 if not bool(v) else 3
            if len(calls) != want:
                problems.append(f"interval={interval}: the callback returned {v!r} ({type(v).__name__}, {'true' if bool(v) else 'false'}) at its 2nd tick "
                                f"and was called {len(calls)} times in all, expected {want}")
    return problems[:3]


def real_asyncio_early_dispatch_problems():
    """the real asyncio loop (its own _run_once) on a virtual clock that is advanced to within the clock resolution before each deadline"""
    import asyncio
    import selectors
    from klongpy.sys_fn_timer import _call_periodic

    class NoWait(selectors.DefaultSelector):
        def select(self, timeout=None):
            return super().select(0)

    class VLoop(asyncio.SelectorEventLoop):
        def __init__(self, res):
            super().__init__(NoWait())
            self.vnow = 100.0
            self._clock_resolution = res

        def time(self):
            return self.vnow
    problems = []
    for res, early in ((1e-3, 4e-4), (1e-9, 5e-10)):
        loop = VLoop(res)
        ticks = []
        try:
            t = _call_periodic(loop, 'x', 1, lambda: (ticks.append(loop.vnow), 1)[1])
            for _ in range(12):
                if len(ticks) >= 4:
                    break
                whens = [h._when for h in loop._scheduled if not h._cancelled]
                if not whens:
                    break
                loop.vnow = max(loop.vnow, min(whens) - early)
                loop.call_soon(loop.stop)
                loop.run_forever()
            t.cancel()
        finally:
            loop.close()
        served = [round(x - 100.0) for x in ticks]
        if served != [1, 2, 3, 4]:
            problems.append(f"asyncio loop with clock resolution {res}, each timer dispatched {early}s before its deadline (allowed: when < time()+resolution): "
                            f"ticks at {ticks} serve boundaries {served}, expected [1, 2, 3, 4]")
    return problems[:1]


def raising_callback_problems():
    """a callback that raises (or returns something without a truth value) ends the timer: nothing stays scheduled and a later
    .timerc reports 0 - it returns 1 exactly when it stopped a live timer"""
    import numpy as np
    from klongpy.sys_fn_timer import _call_periodic, eval_sys_fn_cancel_timer
    problems = []
    for interval in (0, 1):
        for what, last in (('raises ValueError', 'raise'), ('returns a two-element array (no truth value)', np.array([1, 2]))):
            loop = FakeLoop(0.0)
            calls = []

            def cb():
                calls.append(loop.now)
                if len(calls) < 2:
                    return 1
                if isinstance(last, str):
                    raise ValueError('boom')
                return last
            t = _call_periodic(loop, 'x', interval, cb)
            raised = False
            for _ in range(5):
                try:
                    if not loop.step():
                        break
                except Exception:
                    raised = True
            live = len(loop.live())
            r = eval_sys_fn_cancel_timer(t)
            if not raised:
                problems.append(f"interval={interval}: a callback that {what} did not surface an error")
            if live or len(calls) != 2 or r != 0:
                problems.append(f"interval={interval}: the callback {what} at its 2nd tick: {len(calls)} calls, {live} handle(s) still scheduled, "
                                f".timerc afterwards returned {r} (0 expected: the timer is not live)")
    return problems[:2]
