"""Replay for C19: operation sequences on real tables against a list-of-rows model."""


def replay_table(inputs, obl):
    from klongpy import KlongInterpreter
    import numpy as np
    problems = []
    k = KlongInterpreter()
    k('.py("klongpy.db")')
    k('t::.table([["a" [1 2]] ["b" [10 20]]])')
    def col(name):
        return [int(x) for x in k(f't?"{name}"')]
    def check(what, a, b):
        if col('a') != a or col('b') != b:
            problems.append(f"after {what}: t?\"a\"={col('a')} t?\"b\"={col('b')}, expected {a} {b}")
    try:
        check('create', [1, 2], [10, 20])
        k('.insert(t;[3 30])')
        check('.insert(t;[3 30]) (read directly after the insert)', [1, 2, 3], [10, 20, 30])
        if k('#t') != 3:
            problems.append(f"#t = {k('#t')} after 3 rows")
        k('.insert(t;[[4 40] [5 50]])')
        check('batch insert', [1, 2, 3, 4, 5], [10, 20, 30, 40, 50])
        k('.insert(t;[6 60])')
        k('t,"c",,[1 2 3 4 5 6]')
        if [int(x) for x in k('t?"c"')] != [1, 2, 3, 4, 5, 6]:
            problems.append("added column does not cover the pending row")
        try:
            k('.insert(t;[7 70])')
            problems.append("insert with the wrong number of columns accepted")
        except Exception:
            pass
    except Exception as e:
        problems.append(f"raised {type(e).__name__}: {e}")
    if problems:
        return dict(confirmed=True, detail='; '.join(problems[:3]))
    return dict(confirmed=False, detail='table contents agree with the row model')
