"""Replay for C19: operation sequences on real tables against a list-of-rows model."""


def replay_table(inputs, obl):
    from klongpy import KlongInterpreter
    import numpy as np
    problems = []
    k = KlongInterpreter()
    k('.py("klongpy.db")')
    k('t::.table([["a" [1 2]] ["b" [10 20]]])')
    def col(name):
        return [int(x) for x in k(f't?"{name}"')]
    def check(what, a, b):
        if col('a') != a or col('b') != b:
            problems.append(f"after {what}: t?\"a\"={col('a')} t?\"b\"={col('b')}, expected {a} {b}")
    try:
        check('create', [1, 2], [10, 20])
        k('.insert(t;[3 30])')
        check('.insert(t;[3 30]) (read directly after the insert)', [1, 2, 3], [10, 20, 30])
        if k('#t') != 3:
            problems.append(f"#t = {k('#t')} after 3 rows")
        k('.insert(t;[[4 40] [5 50]])')
        check('batch insert', [1, 2, 3, 4, 5], [10, 20, 30, 40, 50])
        k('.insert(t;[6 60])')
        k('t,"c",,[1 2 3 4 5 6]')
        if [int(x) for x in k('t?"c"')] != [1, 2, 3, 4, 5, 6]:
            problems.append("added column does not cover the pending row")
        try:
            k('.insert(t;[7 70])')
            problems.append("insert with the wrong number of columns accepted")
        except Exception:
            pass
    except Exception as e:
        problems.append(f"raised {type(e).__name__}: {e}")
    if problems:
        return dict(confirmed=True, detail='; '.join(problems[:3]))
    return replay_histories(inputs, obl)


def replay_indexed_commit(inputs, obl):
    """indexed table: insert histories (same key several times with and without a read in between, new / existing / interleaved keys,
    single and batch) against a dict model: one row per key - the last inserted - ordered by key, and no insert makes the table unusable"""
    from klongpy import KlongInterpreter
    problems = []
    hists = [
        [('ins', [2, 21]), ('ins', [2, 22]), ('read',)],
        [('ins', [5, 51]), ('ins', [5, 52]), ('read',)],
        [('ins', [2, 21]), ('read',), ('ins', [2, 22]), ('read',)],
        [('batch', [[5, 51], [5, 52], [1, 11], [5, 53]]), ('read',)],
        [('ins', [5, 50]), ('read',)], [('ins', [0, 1]), ('ins', [9, 90]), ('ins', [4, 40]), ('read',)],
        [('ins', [2, 2.5]), ('read',)], [('ins', [2, 2.5]), ('ins', [9, 1.25]), ('read',), ('ins', [3, 7]), ('read',)],      # a real into an integer column
        [('ins', [7, 71]), ('ins', [1, 12]), ('ins', [7, 72]), ('ins', [3, 30]), ('read',), ('ins', [3, 31]), ('ins', [3, 32]), ('read',)],
    ]
    import random
    rnd = random.Random(7)
    big = [[rnd.randint(0, 9), i] for i in range(240)]           # long buffers: an unstable sort shows
    hists.append([('batch', big), ('read',)])
    hists.append([('ins', r) for r in big[:60]] + [('read',)])
    for h in hists:
        k = KlongInterpreter()
        k('.py("klongpy.db")')
        k('T::.table([["k" [1 2 7]] ["v" [10 20 70]]])')
        k('.index(T;["k"])')
        model = {1: 10, 2: 20, 7: 70}
        try:
            for op in h:
                if op[0] == 'ins':
                    k(f".insert(T;[{op[1][0]} {op[1][1]}])")
                    model[op[1][0]] = op[1][1]
                elif op[0] == 'batch':
                    k(".insert(T;[" + ' '.join(f"[{a} {b}]" for a, b in op[1]) + "])")
                    for a, b in op[1]:
                        model[a] = b
                else:
                    ks = [int(x) for x in k('T?"k"')]
                    vs = [float(x) for x in k('T?"v"')]
                    n = int(k('#T'))
                    want_k = sorted(model)
                    if ks != want_k or vs != [float(model[x]) for x in want_k] or n != len(model):
                        problems.append(f"after {str(h[:h.index(op) + 1])[:160]}: keys {ks} values {vs} count {n}; one row per key, last inserted, ordered by key gives "
                                        f"{want_k} {[model[x] for x in want_k]}")
                        break
        except Exception as e:
            problems.append(f"history {str(h)[:160]}: raised {type(e).__name__}: {str(e)[:100]}")
        if problems:
            break
    if problems:
        return dict(confirmed=True, detail='; '.join(problems[:2]))
    return dict(confirmed=False, detail='indexed insert histories agree with the one-row-per-key model')


def replay_db_view(inputs, obl):
    """query / insert / other read / query histories through the real interpreter: the SQL must see exactly the rows inserted so far,
    whichever read path flushed the insert buffer, before and after adding a column, creating and dropping an index"""
    import itertools
    import numpy as np
    from klongpy import KlongInterpreter

    def fresh():
        k = KlongInterpreter()
        k('.py("klongpy.db")')
        k('T::.table([["a" [1 2 3]] ["b" [10 20 30]]])')
        k('db::.db(:{},"T",,T)')
        return k

    def q(k, sql='select a,b from T'):
        r = np.asarray(k(f'db("{sql}")'))
        return r.reshape(-1, 2).tolist() if r.size else []
    reads = {'none': None, '#T': '#T', 'T?"a"': 'T?"a"', 'query': 'db("select count(*) from T")', '.schema': '.schema(T)'}
    inserts = {'one row': ('.insert(T;[4 40])', [[4, 40]]), 'a batch': ('.insert(T;[[4 40] [5 50]])', [[4, 40], [5, 50]])}
    problems = []
    for (rn, rd), (iname, (ins, new)), first in itertools.product(reads.items(), inserts.items(), (True, False)):
        k = fresh()
        want = [[1, 10], [2, 20], [3, 30]]
        try:
            if first:
                q(k)
            k(ins)
            want = want + new
            if rd:
                k(rd)
            got = q(k)
            if got != want:
                problems.append(f"{'query; ' if first else ''}insert {iname}; {rn}; query: the SQL sees {got}, the table holds {want}")
            k('.insert(T;[6 60])')
            want = want + [[6, 60]]
            if rd:
                k(rd)
            got = q(k)
            if got != want:
                problems.append(f"{'query; ' if first else ''}insert {iname}; {rn}; query; insert; {rn}; query: the SQL sees {got}, the table holds {want}")
        except Exception as e:
            problems.append(f"{'query; ' if first else ''}insert {iname}; {rn}; query raised {e!r}")
    # table names that are also names the implementation uses for itself
    for nm in ('x', 'k', 'v', 'df', 'e', 'ctx', 'self', 'tbl'):
        try:
            k = KlongInterpreter()
            k('.py("klongpy.db")')
            k('tt::.table([["a" [1 2 3]] ["b" [10 20 30]]])')
            k(f'db::.db(:{{}},"{nm}",,tt)')
            r = np.asarray(k(f'db("select a from {nm}")')).reshape(-1).tolist()
            if r != [1, 2, 3]:
                problems.append(f'a table registered under the name "{nm}": select a from {nm} gives {r}')
        except Exception as ex:
            problems.append(f'a table registered under the name "{nm}": the query raises {type(ex).__name__}: {str(ex)[:70]}')
    # index created / dropped between queries
    try:
        k = fresh()
        q(k)
        k('.index(T;["a"])')
        k('.insert(T;[2 21])')
        r1 = q(k, 'select a,b from T order by a')
        k('.rindex(T)')
        k('.insert(T;[2 22])')
        k('#T')
        r2 = q(k)
        if r1 != [[1, 10], [2, 21], [3, 30]]:
            problems.append(f"query; index; re-insert key 2; query: the SQL sees {r1}")
        if r2 != [[1, 10], [2, 21], [3, 30], [2, 22]]:
            problems.append(f"...; drop index; insert [2 22]; #T; query: the SQL sees {r2}")
    except Exception as e:
        problems.append(f"index history raised {e!r}")
    if problems:
        return dict(confirmed=True, detail='; '.join(problems[:3]) + (f" (+{len(problems) - 3} more)" if len(problems) > 3 else ''))
    return dict(confirmed=False, detail='every query saw exactly the rows inserted so far (40 histories + index history)')


def replay_histories(inputs, obl, maxlen=3):
    """every operation sequence up to length `maxlen` (insert a new key, re-insert an existing key, insert a batch with a repeated key,
    read a column, count, index on a, drop the index, query through .db) on a real table, each followed by ONE read that is compared
    with a list-of-rows model: unindexed = insertion order; indexed = one row per key (the last inserted), in key order"""
    import itertools
    import numpy as np
    from klongpy import KlongInterpreter
    OPS = ('new', 'old', 'batch', 'col', 'count', 'index', 'rindex', 'db')

    def run(seq):
        k = KlongInterpreter()
        k('.py("klongpy.db")')
        k('T::.table([["a" [1 2 3]] ["b" [10 20 30]]])')
        k('db::.db(:{},"T",,T)')
        rows, indexed, nk, nb = [[1, 10], [2, 20], [3, 30]], False, [100], [1000]

        def put(r):
            if indexed:
                for i, x in enumerate(rows):
                    if x[0] == r[0]:
                        rows[i] = r
                        return
                rows.append(r)
                rows.sort(key=lambda x: x[0])
            else:
                rows.append(r)
        trace = []
        for op in seq:
            trace.append(op)
            if op == 'new':
                nk[0] += 1; nb[0] += 1
                k(f'.insert(T;[{nk[0]} {nb[0]}])'); put([nk[0], nb[0]])
            elif op == 'old':
                nb[0] += 1
                k(f'.insert(T;[2 {nb[0]}])'); put([2, nb[0]])
            elif op == 'batch':
                nk[0] += 1; b1, b2, b3 = nb[0] + 1, nb[0] + 2, nb[0] + 3; nb[0] += 3
                k(f'.insert(T;[[{nk[0]} {b1}] [2 {b2}] [{nk[0]} {b3}]])')
                for r in ([nk[0], b1], [2, b2], [nk[0], b3]):
                    put(r)
            elif op == 'index':
                if indexed or len({r[0] for r in rows}) != len(rows):
                    return None            # the property speaks of indexes on columns whose values are unique
                k('.index(T;["a"])'); indexed = True; rows.sort(key=lambda x: x[0])
            elif op == 'rindex':
                k('.rindex(T)'); indexed = False
            if op == 'count':
                got = int(k('#T'))
                if got != len(rows):
                    return f"{'; '.join(trace)}: #T = {got}, the table holds {len(rows)} rows"
            elif op == 'db':
                r = np.asarray(k('db("select a,b from T")'))
                got = sorted(r.reshape(-1, 2).tolist()) if r.size else []
                if got != sorted(rows):
                    return f"{'; '.join(trace)}: the SQL sees {got}, the table holds {sorted(rows)}"
            elif op == 'col':
                a, b = [int(x) for x in k('T?"a"')], [int(x) for x in k('T?"b"')]
                if [list(x) for x in zip(a, b)] != rows:
                    return f"{'; '.join(trace)}: T?a,T?b = {list(zip(a, b))}, expected {rows}"
        # closing reads: count first (no other read has flushed the buffer), then the columns
        got = int(k('#T'))
        if got != len(rows):
            return f"{'; '.join(trace)}; #T = {got}, the table holds {len(rows)} rows"
        a, b = [int(x) for x in k('T?"a"')], [int(x) for x in k('T?"b"')]
        if [list(x) for x in zip(a, b)] != rows:
            return f"{'; '.join(trace)}; T?a,T?b = {list(zip(a, b))}, expected {rows}"
        return None
    problems, n = [], 0
    for L in range(1, maxlen + 1):
        for seq in itertools.product(OPS, repeat=L):
            n += 1
            try:
                p = run(seq)
            except Exception as e:
                p = f"{'; '.join(seq)}: raised {type(e).__name__}: {e}"
            if p:
                problems.append(p)
                if len(problems) >= 3:
                    break
        if problems:
            break
    if problems:
        return dict(confirmed=True, detail=' | '.join(problems))
    return dict(confirmed=False, detail=f"{n} operation sequences up to length {maxlen} agree with the row model")


def replay_table_value_ownership(inputs, obl):
    """a table's rows change only through inserts into THAT table: two tables built from the same column list, a column read out
    earlier, and the column list itself must not change when an existing key is re-inserted into one indexed table"""
    from klongpy import KlongInterpreter
    k = KlongInterpreter()
    k('.py("klongpy.db")')
    k('a::[1 2 3];b::[10 20 30];e::[];e::e,,"a",,a;e::e,,"b",,b')
    k('T::.table(e);U::.table(e)')
    k('.index(T;["a"])')
    k('c::T?"b"')
    before_u, before_c = k('U?"b"').tolist(), k('c').tolist()
    k('.insert(T;[2 99])')
    t_b = k('T?"b"').tolist()
    after_u, after_c, src = k('U?"b"').tolist(), k('c').tolist(), list(k('(e@1)@1'))
    problems = []
    if t_b != [10, 99, 30]:
        problems.append(f"T?b after re-inserting key 2 is {t_b}")
    if after_u != before_u:
        problems.append(f"table U received no insert but U?'b' changed from {before_u} to {after_u} (T and U were built from the same column list)")
    if after_c != before_c:
        problems.append(f"c::T?'b' read BEFORE the insert changed from {before_c} to {after_c}")
    if [int(x) for x in src] != [10, 20, 30]:
        problems.append(f"the column list given to .table changed to {src}")
    if problems:
        return dict(confirmed=True, detail='T::.table(e);U::.table(e);.index(T;["a"]);c::T?"b";.insert(T;[2 99]): ' + '; '.join(problems))
    return dict(confirmed=False, detail='an insert into one table reaches neither another table built from the same columns, nor a column read earlier, nor the column list')


def replay_index_order(inputs, obl):
    """.index(t; cols) orders the rows by the key columns IN THE ORDER GIVEN: a two-column key named (b,a) sorts by b first"""
    from klongpy import KlongInterpreter
    problems = []
    for cols, key in (('["b" "a"]', lambda r: (r[1], r[0])), ('["a" "b"]', lambda r: (r[0], r[1])), ('["b"]', lambda r: (r[1],))):
        k = KlongInterpreter()
        k('.py("klongpy.db")')
        k('T::.table([["a" [1 2 3 1]] ["b" [9 5 7 2]] ["c" [10 20 30 40]]])')
        rows = [[1, 9, 10], [2, 5, 20], [3, 7, 30], [1, 2, 40]]
        try:
            k(f'.index(T;{cols})')
            k('.insert(T;[0 8 50])')
            rows.append([0, 8, 50])
            got = [list(map(int, r)) for r in zip(k('T?"a"'), k('T?"b"'), k('T?"c"'))]
            want = sorted(rows, key=key)
            if got != want:
                problems.append(f".index(T;{cols}); insert [0 8 50]: rows come out as {got}, ordered by the key they should be {want}")
        except Exception as e:
            problems.append(f".index(T;{cols}) raised {type(e).__name__}: {str(e)[:80]}")
    if problems:
        return dict(confirmed=True, detail='; '.join(problems[:2]))
    return dict(confirmed=False, detail='rows of a table indexed on one or two columns are ordered by those columns in the order given')


def replay_index_change_pending(inputs, obl):
    """creating or dropping an index while rows are still buffered (no read since the inserts): the buffered rows must be merged under the
    rule they were inserted under - against a model (dict by key while indexed, list otherwise)"""
    from klongpy import KlongInterpreter
    problems = []
    hists = [
        ['index', ('ins', [2, 99]), 'rindex'],
        ['index', ('ins', [2, 99]), ('ins', [0, 5]), 'rindex'],
        ['index', ('ins', [3, 31]), ('ins', [3, 32]), 'rindex', ('ins', [3, 33])],
        [('ins', [2, 99]), 'index'],
        ['index', ('ins', [1, 11]), 'rindex', 'index', ('ins', [1, 12]), 'rindex'],
    ]
    for h in hists:
        k = KlongInterpreter()
        k('.py("klongpy.db")')
        k('T::.table([["a" [1 2 3]] ["b" [10 20 30]]])')
        rows, indexed = [[1, 10], [2, 20], [3, 30]], False
        try:
            for op in h:
                if op == 'index':
                    k('.index(T;["a"])')
                    seen = {}
                    for r in rows:          # one row per key (the last), ordered by key
                        seen[r[0]] = r
                    rows, indexed = [seen[x] for x in sorted(seen)], True
                elif op == 'rindex':
                    k('.rindex(T)')
                    indexed = False
                else:
                    k(f'.insert(T;[{op[1][0]} {op[1][1]}])')
                    if indexed:
                        d = {r[0]: r for r in rows}
                        d[op[1][0]] = list(op[1])
                        rows = [d[x] for x in sorted(d)]
                    else:
                        rows.append(list(op[1]))
            got = [list(map(int, r)) for r in zip(k('T?"a"'), k('T?"b"'))]
            if got != rows:
                problems.append(f"{h}: the table holds {got}, the rows inserted are {rows}")
        except Exception as e:
            problems.append(f"{h}: raised {type(e).__name__}: {str(e)[:80]}")
    if problems:
        return dict(confirmed=True, detail='; '.join(problems[:2]))
    return dict(confirmed=False, detail='index changes with pending rows agree with the model')
