"""Replay for C18: the real FileCache with its executor replaced (attribute assignment from the harness) by a deferred
executor, so that the harness decides when worker tasks run relative to the client calls."""
import os
import shutil
import tempfile
import threading
from concurrent.futures import Future


class DeferredExecutor:
    def __init__(self):
        self.tasks = []

    def submit(self, fn, *a):
        f = Future()
        self.tasks.append((f, fn, a))
        return f

    def run_next(self):
        f, fn, a = self.tasks.pop(0)
        try:
            f.set_result(fn(*a))
        except BaseException as e:
            f.set_exception(e)


def _cache(max_memory=1000):
    from klongpy.db.file_cache import FileCache
    d = tempfile.mkdtemp(prefix='c18_replay_')
    c = FileCache(max_memory=max_memory, root_path=d)
    c.executor = DeferredExecutor()
    return c, d


def _acct(c):
    tot = sum(b for (w, b, fut) in c.file_futures.values() if not w and fut.done() and fut.exception() is None and b)
    return c.current_memory_usage, tot


def replay_unload_during_load(inputs, obl):
    c, d = _cache()
    try:
        with open(os.path.join(d, 'f'), 'wb') as fh:
            fh.write(b'hello')
        out = {}
        t = threading.Thread(target=lambda: out.setdefault('r', _call(c.get_file, 'f')))
        t.start()
        while not c.executor.tasks:
            pass
        c.unload_file('f')                 # another client unloads while the load task is pending
        c.executor.run_next()
        t.join(5)
        r = out.get('r')
        cur, tot = _acct(c)
        if isinstance(r, Exception) or cur != tot or cur < 0:
            return dict(confirmed=True, detail=f"unload_file during a pending load: the getter got {r!r}; current_memory_usage={cur}, counted entries sum to {tot}")
        return dict(confirmed=False, detail=f"getter got {r!r}, accounting {cur}=={tot}")
    finally:
        shutil.rmtree(d, ignore_errors=True)


def replay_double_count(inputs, obl):
    c, d = _cache()
    try:
        with open(os.path.join(d, 'f'), 'wb') as fh:
            fh.write(b'hello')
        out = {}
        t1 = threading.Thread(target=lambda: out.setdefault('g', _call(c.get_file, 'f')))
        t1.start()
        while len(c.executor.tasks) < 1:
            pass
        t2 = threading.Thread(target=lambda: out.setdefault('u', _call(c.update_file, 'f', b'0123456789')))
        t2.start()
        while len(c.executor.tasks) < 2:
            pass
        c.executor.run_next()              # the load finishes first and marks the WRITE's entry as cached
        c.executor.run_next()              # then the write finishes
        t1.join(5); t2.join(5)
        cur, tot = _acct(c)
        if cur != tot:
            return dict(confirmed=True, detail=f"get (load pending) + update of the same file: current_memory_usage={cur} but the cached entries sum to {tot}")
        return dict(confirmed=False, detail=f"accounting {cur}=={tot}")
    finally:
        shutil.rmtree(d, ignore_errors=True)


def _call(f, *a):
    try:
        return f(*a)
    except BaseException as e:
        return e


def replay_generic(inputs, obl):
    r = replay_unload_during_load(inputs, obl)
    if r['confirmed']:
        return dict(confirmed=False, detail='only the recorded interleaving fails: ' + r['detail'])
    return r
