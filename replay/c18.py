"""Replay for C18: the real FileCache with its executor replaced (attribute assignment from the harness) by a deferred
executor, so that the harness decides when worker tasks run relative to the client calls."""
import os
import shutil
import tempfile
import threading
from concurrent.futures import Future


class DeferredExecutor:
    def __init__(self):
        self.tasks = []

    def submit(self, fn, *a):
        f = Future()
        self.tasks.append((f, fn, a))
        return f

    def run_next(self):
        f, fn, a = self.tasks.pop(0)
        try:
            f.set_result(fn(*a))
        except BaseException as e:
            f.set_exception(e)


def _cache(max_memory=1000):
    from klongpy.db.file_cache import FileCache
    d = tempfile.mkdtemp(prefix='c18_replay_')
    c = FileCache(max_memory=max_memory, root_path=d)
    c.executor = DeferredExecutor()
    return c, d


def _acct(c):
    tot = sum(b for (w, b, fut) in c.file_futures.values() if not w and fut.done() and fut.exception() is None and b)
    return c.current_memory_usage, tot


def replay_unload_during_load(inputs, obl):
    c, d = _cache()
    try:
        with open(os.path.join(d, 'f'), 'wb') as fh:
            fh.write(b'hello')
        out = {}
        t = threading.Thread(target=lambda: out.setdefault('r', _call(c.get_file, 'f')))
        t.start()
        while not c.executor.tasks:
            pass
        c.unload_file('f')                 # another client unloads while the load task is pending
        c.executor.run_next()
        t.join(5)
        r = out.get('r')
        cur, tot = _acct(c)
        if isinstance(r, Exception) or cur != tot or cur < 0:
            return dict(confirmed=True, detail=f"unload_file during a pending load: the getter got {r!r}; current_memory_usage={cur}, counted entries sum to {tot}")
        return dict(confirmed=False, detail=f"getter got {r!r}, accounting {cur}=={tot}")
    finally:
        shutil.rmtree(d, ignore_errors=True)


def replay_double_count(inputs, obl):
    c, d = _cache()
    try:
        with open(os.path.join(d, 'f'), 'wb') as fh:
            fh.write(b'hello')
        out = {}
        t1 = threading.Thread(target=lambda: out.setdefault('g', _call(c.get_file, 'f')))
        t1.start()
        while len(c.executor.tasks) < 1:
            pass
        t2 = threading.Thread(target=lambda: out.setdefault('u', _call(c.update_file, 'f', b'0123456789')))
        t2.start()
        while len(c.executor.tasks) < 2:
            pass
        c.executor.run_next()              # the load finishes first and marks the WRITE's entry as cached
        c.executor.run_next()              # then the write finishes
        t1.join(5); t2.join(5)
        cur, tot = _acct(c)
        if cur != tot:
            return dict(confirmed=True, detail=f"get (load pending) + update of the same file: current_memory_usage={cur} but the cached entries sum to {tot}")
        return dict(confirmed=False, detail=f"accounting {cur}=={tot}")
    finally:
        shutil.rmtree(d, ignore_errors=True)


def _call(f, *a):
    try:
        return f(*a)
    except BaseException as e:
        return e


def replay_generic(inputs, obl):
    r = replay_unload_during_load(inputs, obl)
    if r['confirmed']:
        return dict(confirmed=False, detail='only the recorded interleaving fails: ' + r['detail'])
    return r


def replay_stale_load(inputs, obl):
    """schedule: get (load L queued) | update A (write W1 queued) | L completes | update B | W2 completes | W1 completes.
    When every call has returned, the file on disk, the cached contents and the last successful update must agree and the
    accounting must equal the cached bytes; an update admitted while another write of the same file is in flight breaks that."""
    import time
    c, d = _cache()
    try:
        with open(os.path.join(d, 'f'), 'wb') as fh:
            fh.write(b'init')
        out = {}

        def spawn(key, fn, *a):
            t = threading.Thread(target=lambda: out.setdefault(key, _call(fn, *a)))
            t.start()
            return t

        def wait_tasks(n):
            t0 = time.time()
            while len(c.executor.tasks) < n and time.time() - t0 < 5:
                time.sleep(0.001)
            return len(c.executor.tasks) >= n
        t1 = spawn('get', c.get_file, 'f')
        if not wait_tasks(1):
            return dict(confirmed=False, detail='load was not submitted')
        t2 = spawn('upA', c.update_file, 'f', b'AA')
        if not wait_tasks(2):
            return dict(confirmed=False, detail='first write was not submitted')
        c.executor.run_next()                      # the load completes while the write W1 is still queued
        t3 = spawn('upB', c.update_file, 'f', b'BBBB')
        admitted = wait_tasks(2)                   # W1 still queued; was a second write admitted next to it?
        if admitted:
            f2 = c.executor.tasks.pop(1)           # run W2 first, then W1
            try:
                f2[0].set_result(f2[1](*f2[2]))
            except BaseException as e:
                f2[0].set_exception(e)
        while c.executor.tasks:
            c.executor.run_next()
        for t in (t1, t2, t3):
            t.join(5)
        if any(t.is_alive() for t in (t1, t2, t3)):
            return dict(confirmed=True, detail='a call did not return')
        disk = open(os.path.join(d, 'f'), 'rb').read()
        ent = c.file_futures.get('f')
        cached = ent[2].result() if ent is not None and ent[2].done() and ent[2].exception() is None else None
        cur, tot = _acct(c)
        succ = [k for k in ('upA', 'upB') if out.get(k) is True]
        problems = []
        if cached is not None and cached != disk:
            problems.append(f"disk holds {disk!r} but the cache serves {cached!r}")
        if ent is not None and cached is not None and not ent[0] and ent[1] != len(cached):
            problems.append(f"the entry accounts {ent[1]} bytes for {len(cached)}-byte contents")
        if cur != tot:
            problems.append(f"current_memory_usage={cur}, cached entries sum to {tot}")
        if len(succ) == 2 and admitted:
            problems.append("both updates reported success although the second was submitted while the first write was still in flight")
        if problems:
            return dict(confirmed=True, detail="get(f) [load queued]; update(f,'AA') [write queued]; load completes; update(f,'BBBB'); write 2 runs; write 1 runs: "
                                               + '; '.join(problems[:3]))
        return dict(confirmed=False, detail=f"disk {disk!r}, cache {cached!r}, successes {succ}: consistent")
    finally:
        shutil.rmtree(d, ignore_errors=True)
