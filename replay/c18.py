"""Replay for C18: the real FileCache with its executor replaced (attribute assignment from the harness) by a deferred
executor, so that the harness decides when worker tasks run relative to the client calls."""
import os
import shutil
import tempfile
import threading
from concurrent.futures import Future


class DeferredExecutor:
    def __init__(self):
        self.tasks = []

    def submit(self, fn, *a):
        f = Future()
        self.tasks.append((f, fn, a))
        return f

    def run_next(self):
        f, fn, a = self.tasks.pop(0)
        try:
            f.set_result(fn(*a))
        except BaseException as e:
            f.set_exception(e)


def _cache(max_memory=1000):
    from klongpy.db.file_cache import FileCache
    d = tempfile.mkdtemp(prefix='c18_replay_')
    c = FileCache(max_memory=max_memory, root_path=d)
    c.executor = DeferredExecutor()
    return c, d


def _acct(c):
    tot = sum(b for (w, b, fut) in c.file_futures.values() if not w and fut.done() and fut.exception() is None and b)
    return c.current_memory_usage, tot


def replay_unload_during_load(inputs, obl):
    c, d = _cache()
    try:
        with open(os.path.join(d, 'f'), 'wb') as fh:
            fh.write(b'hello')
        out = {}
        t = threading.Thread(target=lambda: out.setdefault('r', _call(c.get_file, 'f')))
        t.start()
        while not c.executor.tasks:
            pass
        c.unload_file('f')                 # another client unloads while the load task is pending
        c.executor.run_next()
        t.join(5)
        r = out.get('r')
        cur, tot = _acct(c)
        if isinstance(r, Exception) or cur != tot or cur < 0:
            return dict(confirmed=True, detail=f"unload_file during a pending load: the getter got {r!r}; current_memory_usage={cur}, counted entries sum to {tot}")
        return dict(confirmed=False, detail=f"getter got {r!r}, accounting {cur}=={tot}")
    finally:
        shutil.rmtree(d, ignore_errors=True)


def replay_double_count(inputs, obl):
    c, d = _cache()
    try:
        with open(os.path.join(d, 'f'), 'wb') as fh:
            fh.write(b'hello')
        out = {}
        t1 = threading.Thread(target=lambda: out.setdefault('g', _call(c.get_file, 'f')))
        t1.start()
        while len(c.executor.tasks) < 1:
            pass
        t2 = threading.Thread(target=lambda: out.setdefault('u', _call(c.update_file, 'f', b'0123456789')))
        t2.start()
        while len(c.executor.tasks) < 2:
            pass
        c.executor.run_next()              # the load finishes first and marks the WRITE's entry as cached
        c.executor.run_next()              # then the write finishes
        t1.join(5); t2.join(5)
        cur, tot = _acct(c)
        if cur != tot:
            return dict(confirmed=True, detail=f"get (load pending) + update of the same file: current_memory_usage={cur} but the cached entries sum to {tot}")
        return dict(confirmed=False, detail=f"accounting {cur}=={tot}")
    finally:
        shutil.rmtree(d, ignore_errors=True)


def _call(f, *a):
    try:
        return f(*a)
    except BaseException as e:
        return e


def replay_generic(inputs, obl):
    r = replay_unload_during_load(inputs, obl)
    if r['confirmed']:
        return dict(confirmed=False, detail='only the recorded interleaving fails: ' + r['detail'])
    return r


def replay_stale_load(inputs, obl):
    """schedule: get (load L queued) | update A (write W1 queued) | L completes | update B | W2 completes | W1 completes.
    When every call has returned, the file on disk, the cached contents and the last successful update must agree and the
    accounting must equal the cached bytes; an update admitted while another write of the same file is in flight breaks that."""
    import time
    c, d = _cache()
    try:
        with open(os.path.join(d, 'f'), 'wb') as fh:
            fh.write(b'init')
        out = {}

        def spawn(key, fn, *a):
            t = threading.Thread(target=lambda: out.setdefault(key, _call(fn, *a)))
            t.start()
            return t

        def wait_tasks(n):
            t0 = time.time()
            while len(c.executor.tasks) < n and time.time() - t0 < 5:
                time.sleep(0.001)
            return len(c.executor.tasks) >= n
        t1 = spawn('get', c.get_file, 'f')
        if not wait_tasks(1):
            return dict(confirmed=False, detail='load was not submitted')
        t2 = spawn('upA', c.update_file, 'f', b'AA')
        if not wait_tasks(2):
            return dict(confirmed=False, detail='first write was not submitted')
        c.executor.run_next()                      # the load completes while the write W1 is still queued
        t3 = spawn('upB', c.update_file, 'f', b'BBBB')
        admitted = wait_tasks(2)                   # W1 still queued; was a second write admitted next to it?
        if admitted:
            f2 = c.executor.tasks.pop(1)           # run W2 first, then W1
            try:
                f2[0].set_result(f2[1](*f2[2]))
            except BaseException as e:
                f2[0].set_exception(e)
        while c.executor.tasks:
            c.executor.run_next()
        for t in (t1, t2, t3):
            t.join(5)
        if any(t.is_alive() for t in (t1, t2, t3)):
            return dict(confirmed=True, detail='a call did not return')
        disk = open(os.path.join(d, 'f'), 'rb').read()
        ent = c.file_futures.get('f')
        cached = ent[2].result() if ent is not None and ent[2].done() and ent[2].exception() is None else None
        cur, tot = _acct(c)
        succ = [k for k in ('upA', 'upB') if out.get(k) is True]
        problems = []
        if cached is not None and cached != disk:
            problems.append(f"disk holds {disk!r} but the cache serves {cached!r}")
        if ent is not None and cached is not None and not ent[0] and ent[1] != len(cached):
            problems.append(f"the entry accounts {ent[1]} bytes for {len(cached)}-byte contents")
        if cur != tot:
            problems.append(f"current_memory_usage={cur}, cached entries sum to {tot}")
        if len(succ) == 2 and admitted:
            problems.append("both updates reported success although the second was submitted while the first write was still in flight")
        if problems:
            return dict(confirmed=True, detail="get(f) [load queued]; update(f,'AA') [write queued]; load completes; update(f,'BBBB'); write 2 runs; write 1 runs: "
                                               + '; '.join(problems[:3]))
        return dict(confirmed=False, detail=f"disk {disk!r}, cache {cached!r}, successes {succ}: consistent")
    finally:
        shutil.rmtree(d, ignore_errors=True)


def _dfcache():
    from klongpy.db.df_cache import PandasDataFrameCache
    d = tempfile.mkdtemp(prefix='c18_replay_df_')
    c = PandasDataFrameCache(max_memory=10 ** 6, root_path=d)
    return c, d


def replay_append_lock(inputs, obl):
    """the per-file append lock of the table cache on the real code, two directed schedules:
    (a) two appends to one table that start while no lock is registered: each lookup of `append_locks` waits (bounded) for the other
        thread to arrive at its lookup too, each read of the table waits (bounded) for the other thread's read - on code that keeps
        the protocol the second thread cannot arrive (it is blocked on a lock), the wait times out and nothing changes;
    (b) an append whose write is refused because a direct update_file of the same file is in flight: the retry has to return."""
    import time
    import weakref
    import pandas as pd
    problems = []
    # ---- (a) lost append
    c, d = _dfcache()
    try:
        class Meet:
            def __init__(self, n=2, wait=0.4):
                self.n, self.wait, self.cv, self.count = n, wait, threading.Condition(), 0

            def arrive(self):
                with self.cv:
                    self.count += 1
                    self.cv.notify_all()
                    self.cv.wait_for(lambda: self.count >= self.n, timeout=self.wait)
        m_get, m_read = Meet(), Meet()

        class Locks(weakref.WeakValueDictionary):
            def get(self, k, default=None):
                r = super().get(k, default)
                m_get.arrive()
                return r
        c.append_locks = Locks()
        real_get_file = c.get_file

        def get_file(fn):
            try:
                return real_get_file(fn)
            finally:
                m_read.arrive()
        c.get_file = get_file
        real_update_file = c.update_file
        first_done, arrivals = threading.Event(), []

        def update_file(fn, contents, *a):
            arrivals.append(1)
            if len(arrivals) == 3:                 # (1 = the initial table) the second of the two appends: let the first one finish
                first_done.wait(0.6)
            try:
                return real_update_file(fn, contents, *a)
            finally:
                if len(arrivals) >= 2:
                    first_done.set()
        c.update_file = update_file
        base = pd.DataFrame({'v': [0, 1, 2]}, index=[0, 1, 2])
        c.update('t', base)
        m_get.count = m_read.count = 0
        out = {}
        ts = [threading.Thread(target=lambda k=k, rows=rows: out.setdefault(k, _call(c.update, 't', pd.DataFrame({'v': rows}, index=rows))))
              for k, rows in (('A', [10, 11, 12]), ('B', [20, 21, 22]))]
        for t in ts:
            t.start()
        for t in ts:
            t.join(20)
        if any(t.is_alive() for t in ts):
            problems.append("two concurrent appends to one table: a call did not return")
        else:
            ok = [k for k in 'AB' if isinstance(out.get(k), pd.DataFrame)]
            c.get_file = real_get_file
            have = sorted(int(i) for i in c.get_file('t').index)
            want = sorted([0, 1, 2] + ([10, 11, 12] if 'A' in ok else []) + ([20, 21, 22] if 'B' in ok else []))
            if have != want:
                problems.append(f"two appends that both start while no append lock is registered ({' and '.join(ok)} reported success): the table holds "
                                f"rows {have}, expected {want}")
    finally:
        try:
            c.executor.shutdown(wait=False)
        except Exception:
            pass
        shutil.rmtree(d, ignore_errors=True)
    # ---- (b) refused write: the retry must return
    c, d = _dfcache()
    try:
        from klongpy.db.df_cache import serialize_df
        real_exec = c.executor
        c.executor = DeferredExecutor()
        out = {}
        dfC = pd.DataFrame({'v': [1]}, index=[1])
        dfA = pd.DataFrame({'v': [2]}, index=[2])
        tC = threading.Thread(target=lambda: out.setdefault('C', _call(c.update_file, 't', serialize_df(dfC))))
        tC.start()
        t0 = time.time()
        while not c.executor.tasks and time.time() - t0 < 5:
            time.sleep(0.001)
        tA = threading.Thread(target=lambda: out.setdefault('A', _call(c.update, 't', dfA)), daemon=True)
        tA.start()
        time.sleep(0.3)                    # A: no file yet -> merge = its own rows -> update_file refused (write of C in flight), waits
        t0 = time.time()
        while (tA.is_alive() or tC.is_alive()) and time.time() - t0 < 6:
            if c.executor.tasks:
                c.executor.run_next()
            time.sleep(0.01)
        if tA.is_alive():
            problems.append("update_file(t, C) in flight; update(t, A) is refused, waits for that write and retries: the retry never returns "
                            "(it re-acquires the per-file append lock it already holds)")
        elif isinstance(out.get('A'), BaseException):
            problems.append(f"the retried append raised {out['A']!r}")
        else:
            have = sorted(int(i) for i in out['A'].index)
            if have != [1, 2]:
                problems.append(f"the retried append returned rows {have}, expected [1, 2]")
        try:
            real_exec.shutdown(wait=False)
        except Exception:
            pass
    finally:
        shutil.rmtree(d, ignore_errors=True)
    if problems:
        return dict(confirmed=True, detail='; '.join(problems))
    return dict(confirmed=False, detail='both directed schedules of the append lock behave (no lost append, the retry returns)')


def replay_late_load_under_pressure(inputs, obl):
    """schedule: get(f) [load L queued] | update(f, NEW) [write W queued] | W completes and is cached | L completes late - with a cache
    so tight (max_memory=100, 60-byte contents) that accounting the late load has to evict, and f itself is the oldest entry.
    The get must return OLD or NEW, nothing may raise, and the accounting must equal the cached bytes."""
    import time
    c, d = _cache(max_memory=100)
    try:
        OLD, NEW = b'o' * 60, b'n' * 60
        with open(os.path.join(d, 'f'), 'wb') as fh:
            fh.write(OLD)
        out = {}

        def wait_tasks(n):
            t0 = time.time()
            while len(c.executor.tasks) < n and time.time() - t0 < 5:
                time.sleep(0.001)
            return len(c.executor.tasks) >= n
        t1 = threading.Thread(target=lambda: out.setdefault('get', _call(c.get_file, 'f')))
        t1.start()
        if not wait_tasks(1):
            return dict(confirmed=False, detail='load was not submitted')
        t2 = threading.Thread(target=lambda: out.setdefault('up', _call(c.update_file, 'f', NEW)))
        t2.start()
        if not wait_tasks(2):
            # the update waits for the load: run the load, then the write (no overtaking possible on this code)
            while c.executor.tasks or t1.is_alive() or t2.is_alive():
                if c.executor.tasks:
                    c.executor.run_next()
                time.sleep(0.002)
                if not wait_tasks(1) and not (t1.is_alive() or t2.is_alive()):
                    break
        else:
            w = c.executor.tasks.pop(1)            # the write first ...
            try:
                w[0].set_result(w[1](*w[2]))
            except BaseException as e:
                w[0].set_exception(e)
            while c.executor.tasks:                # ... then the late load
                c.executor.run_next()
        for t in (t1, t2):
            t.join(5)
        if t1.is_alive() or t2.is_alive():
            return dict(confirmed=True, detail='get(f) overtaken by update(f): a call did not return')
        g = out.get('get')
        cur, tot = _acct(c)
        problems = []
        if g not in (OLD, NEW):
            problems.append(f"the get returned {g!r:.80}, neither the old nor the new contents")
        if isinstance(out.get('up'), BaseException):
            problems.append(f"the update raised {out['up']!r}")
        if cur != tot or cur < 0 or cur > 100:
            problems.append(f"current_memory_usage={cur}, cached entries sum to {tot} (limit 100)")
        if problems:
            return dict(confirmed=True, detail="max_memory=100, 60-byte contents: get(f) [load queued]; update(f,NEW) [write queued]; the write completes; the load "
                                               "completes late: " + '; '.join(problems))
        return dict(confirmed=False, detail=f"late load under memory pressure: get returned {'OLD' if g == OLD else 'NEW'}, accounting {cur}=={tot}")
    finally:
        shutil.rmtree(d, ignore_errors=True)


def replay_unload_during_write(inputs, obl):
    """schedule: update(f, NEW) [write W queued] | unload(f) | get(f) [no entry: load L queued] | L completes (reads OLD) | W completes.
    When every call has returned, the cached contents, the disk and the last successful update must agree and the accounting must
    equal the cached bytes."""
    import time
    c, d = _cache()
    try:
        OLD, NEW = b'old', b'newer'
        with open(os.path.join(d, 'f'), 'wb') as fh:
            fh.write(OLD)
        out = {}

        def wait_tasks(n):
            t0 = time.time()
            while len(c.executor.tasks) < n and time.time() - t0 < 3:
                time.sleep(0.001)
            return len(c.executor.tasks) >= n
        t1 = threading.Thread(target=lambda: out.setdefault('up', _call(c.update_file, 'f', NEW)))
        t1.start()
        if not wait_tasks(1):
            return dict(confirmed=False, detail='write was not submitted')
        c.unload_file('f')
        t2 = threading.Thread(target=lambda: out.setdefault('get', _call(c.get_file, 'f')))
        t2.start()
        if wait_tasks(2):                           # a load was admitted next to the pending write: run it first
            l = c.executor.tasks.pop(1)
            try:
                l[0].set_result(l[1](*l[2]))
            except BaseException as e:
                l[0].set_exception(e)
        while c.executor.tasks:
            c.executor.run_next()
        t1.join(5); t2.join(5)
        if t1.is_alive() or t2.is_alive():
            return dict(confirmed=True, detail='update(f); unload(f); get(f): a call did not return')
        t3 = threading.Thread(target=lambda: out.setdefault('get2', _call(c.get_file, 'f')))
        t3.start()
        time.sleep(0.1)
        while c.executor.tasks:
            c.executor.run_next()
        t3.join(5)
        disk = open(os.path.join(d, 'f'), 'rb').read()
        ent = c.file_futures.get('f')
        cur, tot = _acct(c)
        problems = []
        if out.get('up') is True and out.get('get2') != NEW:
            problems.append(f"update(f,{NEW!r}) reported success, the disk holds {disk!r}, but a get after everything finished returns {out.get('get2')!r}")
        if ent is not None and not ent[0] and ent[2].done() and ent[2].exception() is None and ent[1] != len(ent[2].result()):
            problems.append(f"the entry accounts {ent[1]} bytes for {len(ent[2].result())}-byte contents")
        if cur != tot:
            problems.append(f"current_memory_usage={cur}, cached entries sum to {tot}")
        if out.get('get') not in (OLD, NEW):
            problems.append(f"the overlapping get returned {out.get('get')!r}")
        if problems:
            return dict(confirmed=True, detail="update(f,NEW) [write queued]; unload(f); get(f) [load queued next to the write]; load runs; write runs: " + '; '.join(problems))
        return dict(confirmed=False, detail=f"unload during a pending write: get afterwards returns {out.get('get2')!r}, disk {disk!r}: consistent")
    finally:
        shutil.rmtree(d, ignore_errors=True)


def replay_late_load_accounting(inputs, obl):
    """schedule: get(f) - its load has read OLD and is about to account it | update(f, NEW) completes and is cached | the load's
    completion handler runs.  Afterwards every cached entry must account exactly the length of the contents it holds."""
    from klongpy.db.file_cache import FileCache
    d = tempfile.mkdtemp(prefix='c18_replay_')
    try:
        c = FileCache(max_memory=1000, root_path=d)
        OLD, NEW = b'old', b'newer-contents'
        with open(os.path.join(d, 'f'), 'wb') as fh:
            fh.write(OLD)
        gate, arrived = threading.Event(), threading.Event()
        real = c.update_file_futures_and_memory

        def gated(file_name, memory_usage, *a, **kw):
            if (a and a[0]) or kw.get('loaded'):
                arrived.set()
                gate.wait(10)
            return real(file_name, memory_usage, *a, **kw)
        c.update_file_futures_and_memory = gated
        out = {}
        t1 = threading.Thread(target=lambda: out.setdefault('get', _call(c.get_file, 'f')))
        t1.start()
        if not arrived.wait(5):
            gate.set()
            t1.join(5)
            return dict(confirmed=False, detail='the load never reached its completion handler with loaded=True')
        ok = _call(c.update_file, 'f', NEW)
        gate.set()
        t1.join(5)
        problems = []
        if t1.is_alive():
            problems.append('the get did not return')
        with c.file_futures_lock:
            for fn, (w, b, fut) in c.file_futures.items():
                if not w and fut.done() and fut.exception() is None and b != len(fut.result()):
                    problems.append(f"entry {fn!r} accounts {b} bytes for {len(fut.result())}-byte contents {fut.result()!r}")
            cur = c.current_memory_usage
            tot = sum(len(fut.result()) for (w, b, fut) in c.file_futures.values() if not w and fut.done() and fut.exception() is None)
        if cur != tot:
            problems.append(f"current_memory_usage={cur}, the cached contents sum to {tot} bytes")
        try:
            c.executor.shutdown(wait=False)
        except Exception:
            pass
        if problems:
            return dict(confirmed=True, detail="get(f): the load has read OLD and is about to account it; update(f,NEW) completes and is cached; the load's "
                                               "completion handler runs: " + '; '.join(problems))
        return dict(confirmed=False, detail=f"late load completion after a cached write: accounting {cur} == {tot}, update -> {ok!r}, get -> {out.get('get')!r}")
    finally:
        shutil.rmtree(d, ignore_errors=True)


def replay_torn_read(inputs, obl):
    """schedule at the granularity of file-system calls: get(f) [its load is about to open the file] | update(f, NEW) is admitted next
    to the pending load; the writer has opened (= truncated) the file and is descheduled before it writes | the load reads | the
    writer goes on.  The get must return OLD or NEW."""
    import builtins
    import time
    import klongpy.db.file_cache as fcm
    from klongpy.db.file_cache import FileCache
    d = tempfile.mkdtemp(prefix='c18_replay_')
    had_open = 'open' in fcm.__dict__
    try:
        c = FileCache(max_memory=1000, root_path=d)
        OLD, NEW = b'old-contents', b'new-contents'
        with open(os.path.join(d, 'f'), 'wb') as fh:
            fh.write(OLD)
        opened_w, go_w, load_may_read, load_at_open = threading.Event(), threading.Event(), threading.Event(), threading.Event()

        def gated_open(path, mode='r', *a, **kw):
            if 'w' in mode and str(path).endswith(os.sep + 'f'):
                fh = builtins.open(path, mode, *a, **kw)       # truncates
                opened_w.set()
                go_w.wait(10)                                  # the writer is descheduled between open() and write()
                return fh
            if 'r' in mode and str(path).endswith(os.sep + 'f'):
                load_at_open.set()
                load_may_read.wait(10)
            return builtins.open(path, mode, *a, **kw)
        fcm.open = gated_open
        out = {}
        t1 = threading.Thread(target=lambda: out.setdefault('get', _call(c.get_file, 'f')))
        t1.start()
        load_at_open.wait(5)
        t2 = threading.Thread(target=lambda: out.setdefault('up', _call(c.update_file, 'f', NEW)))
        t2.start()
        admitted = opened_w.wait(1.5)          # was the write admitted next to the pending load?
        load_may_read.set()
        t1.join(5)
        go_w.set()
        t2.join(5)
        try:
            c.executor.shutdown(wait=False)
        except Exception:
            pass
        g = out.get('get')
        if t1.is_alive() or t2.is_alive():
            return dict(confirmed=True, detail='get(f) overlapped by update(f): a call did not return')
        if g not in (OLD, NEW):
            return dict(confirmed=True, detail=f"get(f) [load pending]; update(f,NEW) admitted next to it, the writer has truncated the file; the load reads: "
                                               f"the get returned {g!r} - neither the old ({OLD!r}) nor the new contents")
        return dict(confirmed=False, detail=f"write {'admitted' if admitted else 'not admitted'} next to the pending load; the get returned {'OLD' if g == OLD else 'NEW'}")
    finally:
        if not had_open:
            fcm.__dict__.pop('open', None)
        shutil.rmtree(d, ignore_errors=True)


def failed_update_rows():
    """(bounded) "an update that reports failure has no effect": one injected OSError in the writer (before anything touches the disk),
    then the same operations again without the fault (-> list of (name, ok, detail))"""
    import builtins
    import klongpy.db.file_cache as fcm
    from klongpy.db.file_cache import FileCache
    out = []
    d = tempfile.mkdtemp(prefix='c18_fail_')
    had_open = 'open' in fcm.__dict__
    try:
        c = FileCache(max_memory=1000, root_path=d)
        with open(os.path.join(d, 'f'), 'wb') as fh:
            fh.write(b'initial')
        fault = [True]

        def faulty_open(path, mode='r', *a, **kw):
            if 'w' in mode and fault[0]:
                fault[0] = False
                raise OSError(5, 'Input/output error (injected once)')
            return builtins.open(path, mode, *a, **kw)
        fcm.open = faulty_open
        first = _call(c.update_file, 'f', b'v1')
        out.append(('failing-update-reports-failure', isinstance(first, BaseException) or first is False,
                    f"update(f, v1) with the write failing: {first!r}"))
        g = _call(c.get_file, 'f')
        out.append(('get-after-failed-update', g == b'initial',
                    f"get(f) after the failed update returned {g!r} (the disk still holds b'initial')"))
        second = _call(c.update_file, 'f', b'v2')
        g2 = _call(c.get_file, 'f')
        disk = builtins.open(os.path.join(d, 'f'), 'rb').read()
        out.append(('update-after-failed-update', second is True and g2 == b'v2' and disk == b'v2',
                    f"a later update(f, v2) without any fault: returned {second!r}, get(f) {g2!r}, disk {disk!r}"))
        try:
            c.executor.shutdown(wait=False)
        except Exception:
            pass
    finally:
        if not had_open:
            fcm.__dict__.pop('open', None)
        shutil.rmtree(d, ignore_errors=True)
    return out
