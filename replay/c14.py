"""Replay for C14: the real NetworkClient driven in one event loop with a stub provider and an in-memory StreamReader."""
import asyncio
import uuid


class _W:
    def __init__(self): self.sent = []
    def write(self, b): self.sent.append(b)
    async def drain(self): pass
    def is_closing(self): return False
    def close(self): pass
    async def wait_closed(self): pass


def _mk(loop, rd, w):
    from klongpy.sys_fn_ipc import NetworkClient

    class P:
        async def connect(s): return rd, w
        def is_open(s): return True
        async def close(s): pass
    nc = NetworkClient(loop, loop, None, P())
    nc.running = True
    return nc


def replay_run_cleanup(inputs, obl):
    """the listener loop ends because `running` was cleared while calls are pending: every pending call must fail with an exception"""
    from klongpy.sys_fn_ipc import encode_message

    async def main():
        loop = asyncio.get_running_loop()
        rd, w = asyncio.StreamReader(), _W()
        nc = _mk(loop, rd, w)
        idA = uuid.uuid4()
        fa, fb = loop.create_future(), loop.create_future()
        nc.pending_responses[idA] = fa
        nc.pending_responses[uuid.uuid4()] = fb
        task = asyncio.ensure_future(nc._run(None, None, None))
        await asyncio.sleep(0.05)
        nc.running = False
        rd.feed_data(encode_message(idA, "respA"))
        await asyncio.sleep(0.05)
        err = None
        try:
            await asyncio.wait_for(task, 1)
        except Exception as e:
            err = f"{type(e).__name__}: {e}"
        return dict(a=fa.done() and fa.result(), run_error=err, b_done=fb.done(), table=len(nc.pending_responses), exit_event=nc._run_exit_event.is_set())
    r = asyncio.run(main())
    bad = []
    if r['run_error']:
        bad.append(f"_run died with {r['run_error']}")
    if not r['b_done']:
        bad.append("the other pending call was never completed (its caller would wait forever)")
    if r['table']:
        bad.append(f"{r['table']} entries left in the pending table")
    if not r['exit_event']:
        bad.append("_run_exit_event never set (so _stop() blocks)")
    if bad:
        return dict(confirmed=True, detail='listener stopped by clearing `running` with a call pending: ' + '; '.join(bad), observed=r)
    return dict(confirmed=False, detail=f"all pending calls failed and the listener exited cleanly: {r}")


def replay_listen(inputs, obl):
    from klongpy.sys_fn_ipc import encode_message

    async def main():
        loop = asyncio.get_running_loop()
        rd, w = asyncio.StreamReader(), _W()
        nc = _mk(loop, rd, w)
        ids = [uuid.uuid4() for _ in range(3)]
        futs = [loop.create_future() for _ in range(3)]
        for i, f in zip(ids, futs):
            nc.pending_responses[i] = f
        problems = []
        for order in ((1, 0, 2),):
            for j in order:
                rd.feed_data(encode_message(ids[j], f"resp{j}"))
                await nc._listen()
                for q in range(3):
                    if futs[q].done() and futs[q].result() != f"resp{q}":
                        problems.append(f"call {q} received {futs[q].result()!r}")
                if ids[j] in nc.pending_responses:
                    problems.append("resolved entry not removed")
        return problems
    problems = asyncio.run(main())
    if problems:
        return dict(confirmed=True, detail='; '.join(problems[:3]))
    return dict(confirmed=False, detail='responses in any arrival order reach their own callers')
