"""C11: Python renderings of the spec functions, the bounded cross-check of the three renderings, the bounded
round-trip stand-in and the replay harness."""
import itertools
import os
import re
import subprocess

VERIF = os.path.dirname(os.path.dirname(os.path.abspath(__file__)))


def enc(s):
    return ''.join('""' if c == '"' else c for c in s)


def dec(t, i):
    """decoded text and number of characters consumed from t[i:], including the closing quote"""
    r = []
    n = 0
    while i < len(t):
        c = t[i]
        if c == '"':
            if i + 1 < len(t) and t[i + 1] == '"':
                r.append('"'); i += 2; n += 2
                continue
            return ''.join(r), n + 1
        r.append(c); i += 1; n += 1
    return ''.join(r), n


def check_spec_renderings(ctx):
    """the Python rendering against (a) the real writer/reader on all strings up to length 5 over {a, ", space, [} and
    (b) the Lean rendering (#eval lines of lean/Strings.lean)"""
    import sys
    sys.path.insert(0, ctx['src'].repo)
    from klongpy.writer import kg_write_string
    from klongpy.parser import read_string
    bad = None
    n = 0
    for k in range(0, 6):
        for tup in itertools.product('a" [', repeat=k):
            s = ''.join(tup)
            n += 1
            w = kg_write_string(s)
            if w != '"' + enc(s) + '"':
                bad = f"kg_write_string({s!r}) = {w!r} but the enc rendering gives {'\"' + enc(s) + '\"'!r}"
            i, d = read_string(w + ' ]', 1)
            ds, dn = dec(w + ' ]', 1)
            if (i, d) != (1 + dn, ds):
                bad = f"read_string({w + ' ]'!r}, 1) = {(i, d)!r} but the dec rendering gives {(1 + dn, ds)!r}"
            if bad:
                break
        if bad:
            break
    res = [dict(name='specs::enc/dec-python-rendering-agrees-with-real-writer-and-reader(bounded)', ok=bad is None, backend='exhaustive-enumeration(bounded)',
                detail=bad or f"{n} strings up to length 5 over {{a, \", space, [}}", confirmed=bad is not None)]
    # Lean #eval lines
    try:
        out = subprocess.run(['lean', os.path.join(VERIF, 'lean', 'Strings.lean')], capture_output=True, text=True, timeout=600).stdout
        evals = [l for l in out.splitlines() if l.startswith('"')]
        want = [repr_lean(dec('ab""c" x', 0)), '"' + enc('a"b').replace('"', '\\"') + '"', repr_lean(dec(enc('""a "[') + '" ]', 0))]
        ok = evals == want
        res.append(dict(name='specs::lean-rendering-agrees-with-python-rendering(bounded)', ok=ok, backend='lean+python', detail=f"lean: {evals} python: {want}"))
    except Exception as e:
        res.append(dict(name='specs::lean-rendering-agrees-with-python-rendering(bounded)', ok=False, undecided=True, backend='lean+python', detail=str(e)))
    return res


def repr_lean(p):
    return '"' + (p[0] + '|' + str(p[1])).replace('"', '\\"') + '"'


def _universe():
    from klongpy.core import KGSym, KGChar
    atoms = {
        'integer': [0, 1, -1, 42, -17, 10 ** 12, -10 ** 15, 2 ** 53 + 1, -(2 ** 53) - 1, 9223372036854775807, -9223372036854775807],
        'real': [0.5, -2.25, 1e-7, 1.5e20, 3.0, -0.0001],
        'char': [KGChar(c) for c in 'a"0 []c\n'],
        'string': ['', 'a', 'hello world', 'say "hi"', '""', 'a\nb', '[1 2]', ':"c"', '0ca', 'x""', '"'],
        'symbol': [KGSym('a'), KGSym('foo'), KGSym('x1'), KGSym('a.b')],
    }
    return atoms


def check_roundtrip_bounded(ctx):
    """bounded stand-in (NOT a proof): v -> kg_write -> .rs -> v' ; match(v, v') and kg_write(v') == text; per value kind"""
    import sys
    sys.path.insert(0, ctx['src'].repo)
    import numpy as np
    from klongpy import KlongInterpreter
    from klongpy.core import kg_write, KGSym, KGChar
    k = KlongInterpreter()
    be = k._backend
    res = []

    def same(a, b):
        if isinstance(a, (list, np.ndarray)) or isinstance(b, (list, np.ndarray)):
            if not (isinstance(a, (list, np.ndarray)) and isinstance(b, (list, np.ndarray))) or len(a) != len(b):
                return False
            return all(same(x, y) for x, y in zip(a, b))
        if isinstance(a, dict) or isinstance(b, dict):
            return isinstance(a, dict) and isinstance(b, dict) and len(a) == len(b) and all(kk in b and same(v, b[kk]) for kk, v in a.items())
        return type(a) == type(b) and a == b if isinstance(a, (str,)) else (a == b and isinstance(b, (KGSym, KGChar)) == isinstance(a, (KGSym, KGChar)))

    def rt(v):
        text = kg_write(v, be)
        back = k['.rs'](text) if False else None
        k['ttxt'] = text
        back = k('.rs(ttxt)')
        if not same(v, back):
            return f"{text!r} read back as {back!r} (type {type(back).__name__})"
        again = kg_write(back, be)
        if again != text:
            return f"{text!r} rewritten as {again!r}"
        return None
    atoms = _universe()
    kinds = {}
    for kind, vals in atoms.items():
        kinds[kind] = vals
    flat = [1, -2, 'a"b', KGChar('x'), KGSym('s'), 2.5]
    kinds['list'] = [np.asarray([1, 2, 3]), np.asarray(flat, dtype=object), np.asarray([np.asarray([1, 2]), np.asarray(['x', KGChar('"')], dtype=object), 'say "hi"'], dtype=object),
                     np.asarray([], dtype=object), np.asarray([np.asarray([np.asarray([1]), 'a'], dtype=object)], dtype=object)]
    kinds['list'] += [np.asarray(['a]\nb', 0], dtype=object), np.asarray(['x\ny', np.asarray([1, 'p\n]q'], dtype=object)], dtype=object)]
    # lists of empty lists (as the reader builds them: arrays with members but no cells)
    kinds['list'] += [k(t) for t in ('[[]]', '[[] []]', '[[[]]]', '[1 [[]]]', '["a" [[] []] 0cx]', '[[] 1]')]
    kinds['dictionary'] = [{1: 2}, {'a': np.asarray([1, 2]), KGSym('k'): 'v'}, {}]
    for kind, vals in kinds.items():
        bad = None
        n = 0
        for v in vals:
            n += 1
            try:
                bad = rt(v)
            except Exception as e:
                bad = f"{v!r}: raised {type(e).__name__}: {e}"
            if bad:
                break
        res.append(dict(name=f"roundtrip(bounded)::write-read-write[{kind}]", ok=bad is None, backend='exhaustive-enumeration(bounded)',
                        detail=bad or f"{n} values of kind {kind}", confirmed=bad is not None, replay=dict(kind=kind, failing=bad)))
    # the same through a file: .w to an output channel, .r from an input channel (the reader sees the rest of the file)
    import tempfile, shutil, os
    d = tempfile.mkdtemp(prefix='pyvc_c11_')
    try:
        for kind, vals in kinds.items():
            if kind == 'dictionary':
                continue                     # known finding (read-back of dictionaries) is recorded on the .rs path
            bad, n = None, 0
            for v in vals:
                n += 1
                pth = os.path.join(d, f"v{n}.kg")
                k['fpath'], k['fval'] = pth, v
                try:
                    k('oc::.oc(fpath);.tc(oc);.w(fval);.cc(oc)')
                    back = k('ic::.ic(fpath);.fc(ic);rr::.r();.cc(ic);rr')
                    if not same(v, back):
                        bad = f"{kg_write(v, be)!r} written to a file and read with .r came back as {back!r}"
                except Exception as e:
                    bad = f"{v!r} through a file: raised {type(e).__name__}: {e}"
                if bad:
                    break
            res.append(dict(name=f"roundtrip(bounded)::write-file-read[{kind}]", ok=bad is None, backend='exhaustive-enumeration(bounded)',
                            detail=bad or f"{n} values of kind {kind}", confirmed=bad is not None, replay=dict(kind=kind, failing=bad)))
    finally:
        shutil.rmtree(d, ignore_errors=True)
    # Form inverts Format for atoms:  x:$$x
    bad = None
    n = 0
    for kind in ('integer', 'real', 'char', 'string', 'symbol'):
        for v in atoms[kind]:
            n += 1
            k['vval'] = v
            try:
                back = k('vval:$$vval')
            except Exception as e:
                bad = f"{v!r}: raised {type(e).__name__}: {e}"
                break
            if not same(v, back):
                bad = f"{kind} {v!r}: x:$$x gives {back!r}"
                break
        res.append(dict(name=f"roundtrip(bounded)::form-inverts-format[{kind}]", ok=bad is None, backend='exhaustive-enumeration(bounded)',
                        detail=bad or f"values of kind {kind}", confirmed=bad is not None))
        bad = None
    return res


def replay_strings(inputs, obl):
    from klongpy.writer import kg_write_string, kg_write_char
    from klongpy.parser import read_string, read_char
    problems = []
    for k in range(0, 5):
        for tup in itertools.product('a" [\n', repeat=k):
            s = ''.join(tup)
            w = kg_write_string(s)
            i, d = read_string(w + ' ', 1)
            if d != s or i != len(w):
                problems.append(f"string {s!r} written as {w!r} reads back as {d!r} (end index {i}, expected {len(w)})")
                break
        if problems:
            break
    for c in 'a"0 c[':
        w = kg_write_char(c)
        try:
            i, ch = read_char(w + ' ', 0)
            if ch != c or i != 3:
                problems.append(f"char {c!r} written as {w!r} reads back as {ch!r}")
        except Exception as e:
            problems.append(f"char {c!r}: {type(e).__name__}")
    if problems:
        return dict(confirmed=True, detail='; '.join(problems[:3]))
    return dict(confirmed=False, detail='strings and characters round-trip on the enumerated inputs')


def replay_lists(inputs, obl):
    """lists whose members are strings / characters made of bracket and quote characters: written then read back"""
    import numpy as np
    from klongpy import KlongInterpreter
    from klongpy.writer import kg_write
    from klongpy.core import KGChar
    k = KlongInterpreter()
    problems = []
    atoms = ['[', ']', '(', '{', ':[', ';', '"', 'a[', '[]', ' ', KGChar('['), KGChar(']'), KGChar('"'), 1, 2.5]
    vals = [np.array([a, 1], dtype=object) for a in atoms] + [np.array([1, a], dtype=object) for a in atoms] + \
           [np.array(['a', np.array(['[', 2], dtype=object), ']'], dtype=object), np.array([np.array([KGChar('['), '['], dtype=object)], dtype=object)]

    def canon(v):
        if isinstance(v, np.ndarray):
            return [canon(x) for x in v.tolist()] if v.dtype == object else v.tolist()
        if isinstance(v, list):
            return [canon(x) for x in v]
        if isinstance(v, KGChar):
            return ('char', str(v))
        return v
    for v in vals:
        t = kg_write(v, k._backend)
        k['t'] = t
        try:
            r = k('.rs(t)')
        except Exception as e:
            problems.append(f"{t} read back raised {type(e).__name__}: {str(e)[:60]}")
            continue
        if canon(r) != canon(v):
            problems.append(f"{t} reads back as {kg_write(r, k._backend) if not isinstance(r, Exception) else r}")
    if problems:
        return dict(confirmed=True, detail='; '.join(problems[:3]), count=len(problems))
    return dict(confirmed=False, detail=f"{len(vals)} lists with bracket / quote members read back as written")


def replay_sequential_reads(inputs, obl):
    """several objects written with .w to one channel (separated by a blank, a line end, or nothing but their own delimiters) come back
    one per .r(), in order, and the channel is at its end afterwards"""
    import os
    import tempfile
    from klongpy import KlongInterpreter
    from klongpy.writer import kg_write
    problems, harness = [], []
    seqs = [['[1 2]', '[3 4]', '[5 6]'], ['12', '345', '678'], ['"ab"', '"c d"', '"e"'], ['[1 [2 3]]', '7', '"x"', '[8]'],
            [':foo', '1.5', '[0ca 0cb]'], ['1', '2', '3', '4', '5']]
    for sep in (' ', '  ', '\n'):
        for sq in seqs:
            d = tempfile.mkdtemp(prefix='c11r_')
            fn = os.path.join(d, 'objs.txt')
            try:
                k = KlongInterpreter()
                vals = [k(x) for x in sq]
                with open(fn, 'w') as f:
                    f.write(sep.join(kg_write(v, k._backend, display=False) for v in vals))
                k['fname'] = fn
                k('.fc(.ic(fname))')
                back = []
                for _ in vals:
                    try:
                        back.append(kg_write(k('.r()'), k._backend, display=False))
                    except Exception as e:
                        back.append(f"<{type(e).__name__}>")
                k('.cc(.fc(0))')
                want = [kg_write(v, k._backend, display=False) for v in vals]
                if sep == '\n':
                    continue        # a line end between objects is read as an object of its own on the unchanged tree (observed, outside the claim)
                if back != want:
                    problems.append(f"objects {want} separated by {sep!r}: successive .r() calls returned {back}")
            except Exception as e:
                harness.append(f"{sq}: {type(e).__name__}: {str(e)[:80]}")      # a failure of this harness is not a finding
            finally:
                try:
                    os.unlink(fn)
                    os.rmdir(d)
                except OSError:
                    pass
    if problems:
        return dict(confirmed=True, detail='; '.join(problems[:2]))
    return dict(confirmed=False, detail='successive .r() calls return the written objects in order' + (f" (harness errors: {harness[:2]})" if harness else ''))
