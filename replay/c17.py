"""Replay for C17: the real FileCache / KeyValueStorage with klongpy.db.file_cache's module-level `open` and `os`
interposed (attribute assignment from the harness, /repo untouched).  At the moment os.fsync is called we look at how
many bytes of the value have reached the OS (os.fstat on the descriptor): bytes still sitting in Python's buffer are
not made durable by that fsync.  Every path opened for writing during a set must be the path of the key being set."""
import builtins
import os
import shutil
import tempfile


def replay_fsync_order(inputs, obl):
    import klongpy.db.file_cache as fcm
    from klongpy.db.sys_fn_kvs import KeyValueStorage
    from klongpy.db.helpers import serialize_obj
    d = tempfile.mkdtemp(prefix='c17_replay_')
    events = []
    real_fsync = os.fsync

    class OsProxy:
        def __getattr__(self, k):
            return getattr(os, k)

        def fsync(self, fd):
            events.append(('fsync', os.fstat(fd).st_size, os.readlink(f'/proc/self/fd/{fd}')))
            return real_fsync(fd)

    def open_proxy(path, mode='r', *a, **k):
        if 'w' in mode or 'a' in mode or '+' in mode:
            events.append(('open-w', os.path.realpath(path)))
        return builtins.open(path, mode, *a, **k)
    try:
        fcm.os = OsProxy()
        fcm.open = open_proxy
        kv = KeyValueStorage(d)
        problems = []
        vals = {}
        for key, val in (('a', 'v1'), ('dir/b', list(range(50))), ('a', 'second value'), ('big', 'x' * 10000), ('dir/c', 3)):
            events.clear()
            kv.set(key, val)
            vals[key] = val
            want = serialize_obj(val)
            target = os.path.realpath(os.path.join(d, key))
            syncs = [e for e in events if e[0] == 'fsync' and e[2] == target]
            if not syncs:
                problems.append(f"set({key!r}) returned without an fsync of its file")
            elif syncs[-1][1] != len(want):
                problems.append(f"set({key!r}): at os.fsync only {syncs[-1][1]} of {len(want)} bytes had reached the OS (rest still in Python's buffer)")
            others = [e[1] for e in events if e[0] == 'open-w' and e[1] != target]
            if others:
                problems.append(f"set({key!r}) opened other paths for writing: {others[:2]}")
            if not os.path.isfile(target):
                problems.append(f"set({key!r}) returned but its file does not exist")
            elif builtins.open(target, 'rb').read() != want:
                problems.append(f"set({key!r}): file contents differ from the serialised value")
        # a set of a value whose bytes are ALREADY in the file (left there by a writer that was killed before its fsync, then retried
        # by a new process) must still make them durable: it is the set that returns which promises durability
        pre = os.path.join(d, 'retry')
        with builtins.open(pre, 'wb') as fh:
            fh.write(serialize_obj('same-value'))
        events.clear()
        KeyValueStorage(d).set('retry', 'same-value')
        if not [e for e in events if e[0] == 'fsync' and e[2] == os.path.realpath(pre)]:
            problems.append("set('retry', v) on a key whose file already holds the bytes of v (unsynced leftovers of a killed writer) returned without an fsync")
        # a write that fails must make the set fail (the value is not durable): inject EIO at fsync
        class FailingOs(OsProxy):
            def fsync(self, fd):
                raise OSError(5, 'Input/output error (injected)')
        fcm.os = FailingOs()
        try:
            try:
                KeyValueStorage(d).set('willfail', 'v')
                problems.append("set('willfail', v) returned although os.fsync failed with EIO: the value is not durable")
            except OSError:
                pass
        finally:
            fcm.os = OsProxy()
        kv2 = KeyValueStorage(d)
        for key, val in vals.items():
            try:
                if kv2.get(key) != val:
                    problems.append(f"reopened store reads {key!r} wrongly")
            except Exception as e:
                problems.append(f"reopened store fails on {key!r}: {type(e).__name__}")
        if problems:
            return dict(confirmed=True, detail='; '.join(problems[:3]))
        return dict(confirmed=False, detail="every set fsynced the complete value of its own file only")
    finally:
        fcm.os = os
        if hasattr(fcm, 'open'):
            del fcm.open
        shutil.rmtree(d, ignore_errors=True)
