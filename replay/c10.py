"""Replay for C10: operation sequences on Klong dictionaries against a Python dict model."""


def replay_dict(inputs, obl):
    from klongpy import KlongInterpreter
    from klongpy.core import KLONG_UNDEFINED
    problems = []
    k = KlongInterpreter()
    k('d:::{[1 2]}')
    steps = [('d,[3 4]', None), ('d?3', 4), ('d?1', 2), ('[5 6],d', None), ('d?5', 6), ('#d', 3), ('d,[1 9]', None), ('d?1', 9), ('#d', 3),
             ('1_d', None), ('d?1', KLONG_UNDEFINED), ('#d', 2), ('7_d', None), ('#d', 2), ('d?"x"', KLONG_UNDEFINED), ('d,"x",,8', None), ('d?"x"', 8),
             ('e::d', None), ('e,[0ca 1]', None), ('d?0ca', 1), ('#d', 4)]
    for src, want in steps:
        try:
            got = k(src)
        except Exception as e:
            problems.append(f"{src} raised {type(e).__name__}: {e}")
            break
        if want is not None and got is not want and got != want:
            problems.append(f"{src} -> {got!r}, expected {want!r}")
    k = KlongInterpreter()
    k('seen::[];f::{seen::seen,,x;0}')
    k("f':{[1 2] [3 4] [5 6]}")
    seen = [list(x) for x in k('seen')]
    if sorted(seen) != [[1, 2], [3, 4], [5, 6]]:
        problems.append(f"f'd visited {seen}")
    k = KlongInterpreter()
    k('g::{:{[1 2]}}')
    k('a::g();a,[1 3];b::g()')
    if k('b?1') != 2:
        problems.append("a dictionary literal re-evaluated inside a function is not fresh")
    r = k('"ab",:{[1 2]}')
    if isinstance(r, str):
        problems.append("string join captured a dictionary")
    # key kinds: 0 / 0.0 as keys, a symbol and the string spelled like it are different keys
    k = KlongInterpreter()
    k('d:::{[0 10] [1 11]}')
    for src, want in (('d?0', 10), ('0_d', None), ('d?0', KLONG_UNDEFINED), ('#d', 1), ('d,[0.0 5]', None), ('d?0.0', 5), ('0.0_d', None), ('#d', 1),
                      ('m:::{["ab" 1] ["a" 2] ["b" 3] ["" 4]}', None), ('"ab"_m', None), ('m?"ab"', KLONG_UNDEFINED), ('m?"a"', 2), ('m?"b"', 3), ('#m', 3),
                      ('""_m', None), ('m?""', KLONG_UNDEFINED), ('#m', 2),
                      ('e2::m', None), ('e2,"z",,9', None), ('m?"z"', 9), ('"a"_e2', None), ('m?"a"', KLONG_UNDEFINED),
                      ('h:::{["host" 1]}', None), ('h?:host', KLONG_UNDEFINED), ('h,:host,,2', None), ('h?:host', 2), ('h?"host"', 1), (':host_h', None),
                      ('h?:host', KLONG_UNDEFINED), ('h?"host"', 1), ('#h', 1)):
        try:
            got = k(src)
        except Exception as e:
            problems.append(f"{src} raised {type(e).__name__}: {e}")
            break
        if want is not None and got is not want and got != want:
            problems.append(f"{src} -> {got!r}, expected {want!r}")
    # large real keys that differ in the fraction are different keys; a join from the LEFT keeps a like-spelled key of the other kind
    k = KlongInterpreter()
    k('d:::{}')
    for src, want in (('d,[123456.25 1]', None), ('d?123456.25', 1), ('d?123456', KLONG_UNDEFINED), ('[123456.4 2],d', None), ('#d', 2), ('d?123456.4', 2),
                      ('123456.25_d', None), ('#d', 1), ('d?123456.4', 2),
                      ('n:::{}', None), ('n,["name" 1]', None), ('[:name 2],n', None), ('#n', 2), ('n?"name"', 1), ('n?:name', 2),
                      ('n,[:id 5]', None), ('["id" 6],n', None), ('#n', 4), ('n?:id', 5), ('n?"id"', 6), ('[:id 7],n', None), ('#n', 4), ('n?:id', 7)):
        try:
            got = k(src)
        except Exception as e:
            problems.append(f"{src} raised {type(e).__name__}: {e}")
            break
        if want is not None and got is not want and got != want:
            problems.append(f"{src} -> {got!r}, expected {want!r}")
    # a dictionary is a shared object: updates through every alias (function parameter, application by @, each, over) are seen by all
    k = KlongInterpreter()
    k('d:::{[1 2]};g::{x,[5 6]};u::{x,y}')
    for src, probe, want in (('g(d)', 'd?5', 6), ('d:::{[1 2]};g@d', 'd?5', 6), ('d:::{[1 2]};e::d;d u/[[7 8] [9 10]]', '#e', 3),
                             ("d:::{[1 2] [3 4]};r::{1_x}'[;d]" if False else "d:::{[1 2] [3 4]};{1_x}(d)", '#d', 1)):
        try:
            k(src)
            got = k(probe)
        except Exception as e:
            problems.append(f"{src}; {probe} raised {type(e).__name__}: {e}")
            continue
        if got != want:
            problems.append(f"{src}; {probe} -> {got!r}, expected {want!r} (update through an alias was lost)")
    try:
        k('d:::{[1 2]}')
        k['h'] = lambda x: x
        w = k['g']
        w(k['d'])
        if k('d?5') != 6:
            problems.append("a Klong function called from Python with the dictionary did not update the caller's dictionary")
    except Exception as e:
        problems.append(f"python call with a dictionary raised {type(e).__name__}: {e}")
    if problems:
        return dict(confirmed=True, detail='; '.join(problems[:3]))
    return dict(confirmed=False, detail='dictionary histories agree with the finite-map model')


def key_kind_rows():
    """bounded stand-in: keys of different KINDS that carry the same text are different keys (a character, a string and a symbol; an
    integer and a string of its digits), whatever the order in which they are added: #d, d?k and removal are checked per pair and order"""
    from klongpy import KlongInterpreter
    from klongpy.core import KLONG_UNDEFINED
    kinds = {'char': '0ca', 'string': '"a"', 'symbol': ':a', 'string1': '"1"', 'integer': '1'}
    pairs = [('char', 'string'), ('char', 'symbol'), ('string', 'symbol'), ('integer', 'string1')]
    rows = []
    for a, b in pairs:
        bad = []
        for x, y in ((a, b), (b, a)):
            k = KlongInterpreter()
            try:
                k(f'd:::{{[{kinds[x]} 10]}}')
                k(f'd,[{kinds[y]} 20]')
                n, vx, vy = k('#d'), k(f'd?{kinds[x]}'), k(f'd?{kinds[y]}')
                if n != 2 or vx != 10 or vy != 20:
                    bad.append(f"d:::{{[{kinds[x]} 10]}};d,[{kinds[y]} 20]: #d={n}, d?{kinds[x]}={vx}, d?{kinds[y]}={vy} (two keys, 10 and 20)")
                    continue
                k(f'{kinds[x]}_d')
                n2, vy2, vx2 = k('#d'), k(f'd?{kinds[y]}'), k(f'd?{kinds[x]}')
                if n2 != 1 or vy2 != 20 or vx2 is not KLONG_UNDEFINED:
                    bad.append(f"after removing {kinds[x]}: #d={n2}, d?{kinds[y]}={vy2}, d?{kinds[x]}={vx2}")
            except Exception as e:
                bad.append(f"{kinds[x]} then {kinds[y]}: raised {type(e).__name__}: {str(e)[:60]}")
        rows.append((f"{a}-vs-{b}", not bad, '; '.join(bad[:2]) or f"{kinds[a]} and {kinds[b]} are two keys in either order"))
    return rows
