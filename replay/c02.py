"""Replay for C02: adverb expression vs the list of separately evaluated applications the definition prescribes."""


def replay_adverbs(inputs, obl):
    import numpy as np
    from klongpy import KlongInterpreter
    problems = []
    k = KlongInterpreter()
    k('g::{(x*10)-y};m::{x*3}')

    def eq(a, b):
        try:
            return np.array_equal(np.asarray(a, dtype=object), np.asarray(b, dtype=object))
        except Exception:
            return False
    lists = ['[5]', '[5 7]', '[5 7 11]', '[5 7 11 13 17]', '[]']
    for l in lists:
        vals = list(k(l)) if l != '[]' else []
        # each
        if not eq(k(f"m'{l}"), [k(f"m({v})") for v in vals]):
            problems.append(f"m'{l}")
        # over: left fold
        if len(vals) >= 1:
            acc = vals[0]
            for v in vals[1:]:
                acc = k(f"g({acc};{v})")
            if not eq(k(f"g/{l}"), acc):
                problems.append(f"g/{l} -> {k(f'g/{l}')!r}, expansion gives {acc!r}")
            acc = 2
            for v in vals:
                acc = k(f"g({acc};{v})")
            if not eq(k(f"2g/{l}"), acc):
                problems.append(f"2g/{l}")
        # each-pair
        if len(vals) >= 2:
            want = [k(f"g({a};{b})") for a, b in zip(vals, vals[1:])]
            if not eq(k(f"g:'{l}"), want):
                problems.append(f"g:'{l} -> {k(f'''g:'{l}''')!r}, expansion gives {want!r}")
        # each-left / each-right
        if vals:
            if not eq(k(f"3g:\\{l}"), [k(f"g(3;{v})") for v in vals]):
                problems.append(f"3g:\\{l}")
            if not eq(k(f"3g:/{l}"), [k(f"g({v};3)") for v in vals]):
                problems.append(f"3g:/{l}")
        # scan-over
        if len(vals) >= 1:
            want = [vals[0]]
            for v in vals[1:]:
                want.append(k(f"g({want[-1]};{v})"))
            if not eq(k(f"g\\{l}"), want):
                problems.append(f"g\\{l}")
    if not eq(k("g'([1 2 3];[10 20])") if False else k("[1 2 3]g'[10 20]"), [k("g(1;10)"), k("g(2;20)")]):
        problems.append("each-2 does not stop at the shorter operand")
    for n in (0, 1, 4):
        acc = 2
        for _ in range(n):
            acc = k(f"m({acc})")
        if k(f"{n}m:*2") != acc:
            problems.append(f"{n}m:*2")
    for ops, l in (('-/', '[10 2 3]'), ('%/', '[100 5 2]'), ('&/', '[3 1 2]'), ('|/', '[3 9 2]'), ('-\\', '[10 2 3]'), ('+/', '[1 2 3]')):
        vals = list(k(l))
        op = ops[0]
        acc = vals[0]
        scan = [acc]
        for v in vals[1:]:
            acc = k(f"{acc}{op}{v}")
            scan.append(acc)
        got = k(f"{ops}{l}")
        if not eq(got, acc if ops[1] == '/' else scan):
            problems.append(f"{ops}{l} -> {got!r}")
    # atom right operand of each-left / each-right: a f:\\b is f(a;b), a f:/b is f(b;a)
    for prog, want in (('1+:\\2', 3), ('1-:/2', 1), ('1-:\\2', -1), ('[1 2],:\\3', [1, 2, 3]), ('1,:/3', [3, 1])):
        try:
            got = k(prog)
            g = got.tolist() if hasattr(got, 'tolist') else got
            if g != want:
                problems.append(f"{prog} -> {g!r}, the reference gives {want!r}")
        except Exception as e:
            problems.append(f"{prog} raised {type(e).__name__}: {e} (the reference gives {want!r})")
    # string operands: the verb sees Klong characters; expansions written with character literals
    k2 = KlongInterpreter()
    k2('t::{(#x)-#y};p::{x,y};c::{x}')
    for prog, expansion in (("t:'\"ab\"", "(t(0ca;0cb)),[]"), ("p:'\"abc\"", "(,p(0ca;0cb)),,p(0cb;0cc)"), ("c'\"ab\"", "(c(0ca)),c(0cb)"),
                            ("\"ab\"p'\"cd\"", "(,p(0ca;0cc)),,p(0cb;0cd)")):
        try:
            got, want = k2(prog), k2(expansion)
            if not eq(got, want) and str(got) != str(want):
                problems.append(f"{prog} -> {got!r}, the expansion {expansion} gives {want!r}")
        except Exception as e:
            problems.append(f"{prog} raised {type(e).__name__}: {e}")
    # operands of rank 2: folds and scans work along the outer axis (members are rows)
    for prog, want in (('+\\[[1 2] [3 4]]', [[1, 2], [4, 6]]), ('*\\[[1 2] [3 4]]', [[1, 2], [3, 8]]), ('+/[[1 2] [3 4]]', [4, 6]), ('|/[[1 5] [3 2]]', [3, 5]),
                       ('&/[[1 5] [3 2]]', [1, 2]), ('a::[[1 5] [3 2]];|/a', [3, 5]), ('a::[[1 2] [3 4]];+\\a', [[1, 2], [4, 6]]), ('a::[[1 2] [3 4]];+/a', [4, 6])):
        try:
            got = k(prog)
            g = got.tolist() if hasattr(got, 'tolist') else got
            if g != want:
                problems.append(f"{prog} -> {g!r}, member-wise expansion gives {want!r}")
        except Exception as e:
            problems.append(f"{prog} raised {type(e).__name__}: {e}")
    if problems:
        return dict(confirmed=True, detail='; '.join(problems[:3]))
    return dict(confirmed=False, detail='adverb expressions equal their expansions on the scripted operands')


def replay_iterate_counts(inputs, obl):
    """Iterate / Scan-Iterating with literal and COMPUTED counts (1+2, a list member, 1-1: NumPy integers) against the verb applied
    that many times; every evaluation has a time limit (an adverb that does not return is the finding)"""
    import replay.c02_oracle as orc
    bad = [(n, d) for n, ok, d in orc.rows() if not ok and (n.startswith('iterate[') or n.startswith('scan-iterating['))]
    if bad:
        return dict(confirmed=True, detail=' || '.join(f"{d}" for n, d in bad[:3]) + (f" (+{len(bad) - 3} more)" if len(bad) > 3 else ''))
    return dict(confirmed=False, detail='Iterate / Scan-Iterating agree with the written-out applications for literal and computed counts')
