"""Replay for C13: frames fed to a real asyncio.StreamReader in chosen fragments; pickle identity of :undefined."""
import asyncio
import itertools
import pickle
import uuid


def confirm_undefined(ctx):
    import sys
    sys.path.insert(0, ctx['src'].repo)
    for m in [k for k in sys.modules if k.startswith('klongpy')]:
        del sys.modules[m]
    from klongpy.core import KLONG_UNDEFINED
    back = pickle.loads(pickle.dumps([KLONG_UNDEFINED, 1]))[0]
    ok = back is KLONG_UNDEFINED
    return [dict(name='transport(native)::undefined-still-tests-as-undefined-after-pickle', ok=ok, backend='native-execution',
                 detail='pickle.loads(pickle.dumps(KLONG_UNDEFINED)) is KLONG_UNDEFINED' if ok else
                 f"after pickling, :undefined is a different object ({back!r}), so the identity test of eval_monad_undefined fails on the receiving side", confirmed=not ok)]


def replay_framing(inputs, obl):
    from klongpy.sys_fn_ipc import encode_message, stream_recv_msg
    problems = []
    ids = [uuid.uuid4() for _ in range(3)]
    msgs = ['a', [1, 2, 'x' * 50], {'k': 3.5}]
    blob = b''.join(encode_message(i, m) for i, m in zip(ids, msgs))

    async def run(cuts):
        rd = asyncio.StreamReader()
        prev = 0
        for c in list(cuts) + [len(blob)]:
            rd.feed_data(blob[prev:c])
            prev = c
        rd.feed_eof()
        out = []
        for _ in range(3):
            out.append(await stream_recv_msg(rd))
        return out
    n = len(blob)
    cutsets = [()] + [(a,) for a in (1, 15, 16, 17, 19, 20, 21, n // 2, n - 1)] + [(a, b) for a, b in itertools.combinations((3, 16, 20, 25, n // 2, n - 2), 2)]
    for cuts in cutsets:
        try:
            got = asyncio.run(run(cuts))
        except Exception as e:
            problems.append(f"cuts {cuts}: raised {type(e).__name__}: {e}")
            break
        if [(g[0], g[1]) for g in got] != list(zip(ids, msgs)):
            problems.append(f"cuts {cuts}: frames delivered {got!r}")
            break
    # large frames (beyond the reader's 64 KiB buffer limit), pipelined with small ones, several fragmentations
    if not problems:
        big_msgs = ['x' * 70000, 'tail', list(range(40000)), 'y' * 200000, {'k': 1}]
        big_ids = [uuid.uuid4() for _ in big_msgs]
        big = b''.join(encode_message(i, m) for i, m in zip(big_ids, big_msgs))

        async def run_big(step):
            rd = asyncio.StreamReader(limit=2 ** 16)
            out = []

            async def feed():
                for a in range(0, len(big), step):
                    rd.feed_data(big[a:a + step])
                    if step < 4096:
                        continue
                    await asyncio.sleep(0)
                rd.feed_eof()
            t = asyncio.ensure_future(feed())
            for _ in big_msgs:
                out.append(await stream_recv_msg(rd))
            await t
            return out
        for step in (len(big), 65536, 65537, 70020, 100000, 1000):
            try:
                got = asyncio.run(run_big(step))
            except Exception as e:
                problems.append(f"large frames fed in pieces of {step} bytes: raised {type(e).__name__}: {str(e)[:100]}")
                break
            if [(g[0], g[1]) for g in got] != list(zip(big_ids, big_msgs)):
                bad = [k for k, (g, w) in enumerate(zip(got, zip(big_ids, big_msgs))) if (g[0], g[1]) != w]
                problems.append(f"large frames fed in pieces of {step} bytes: frame(s) {bad} not delivered intact")
                break
    try:
        e = encode_message(ids[0], 'hello')
        if e[:16] != ids[0].bytes or int.from_bytes(e[16:20], 'big') != len(e) - 20 or pickle.loads(e[20:]) != 'hello':
            problems.append("encode_message layout differs from id ++ be32(len) ++ body")
    except Exception as e:
        problems.append(f"encode_message raised {e}")
    if problems:
        return dict(confirmed=True, detail='; '.join(problems[:2]))
    return dict(confirmed=False, detail='three consecutive frames delivered intact, one by one, for every fragmentation tried')


def replay_remote_values(inputs, obl):
    """a live server and client in one process: the value of a remote evaluation (text form, function-call form, proxy, remote dictionary
    get / set) must be the value the same expression has on the server - structure and integer/real kind included"""
    import socket
    import time
    import numpy as np
    from klongpy.repl import create_repl, cleanup_repl

    def canon(v):
        if isinstance(v, np.ndarray):
            return "[" + " ".join(canon(x) for x in v) + "]"
        if isinstance(v, list):
            return "[" + " ".join(canon(x) for x in v) + "]"
        if isinstance(v, dict):
            return ":{" + " ".join(f"{canon(k)}->{canon(x)}" for k, x in v.items()) + "}"
        if isinstance(v, (np.integer, int)) and not isinstance(v, bool):
            return f"i{int(v)}"
        if isinstance(v, (np.floating, float)):
            return f"f{float(v)}"
        return f"{type(v).__name__}<{v}>"
    s = socket.socket()
    s.bind(("127.0.0.1", 0))
    port = s.getsockname()[1]
    s.close()
    srv, srv_loops = create_repl()
    cli, cli_loops = create_repl()
    problems = []
    try:
        if srv(f'.srv("127.0.0.1:{port}")') != 1:
            return dict(confirmed=False, detail='server did not start')
        time.sleep(0.3)
        cli(f'f::.cli("127.0.0.1:{port}")')
        cli('d::.clid(f)')
        for d in ('one::{,x}', 'fst::{1#x}', 'neg::{-x}', 'pair::{x,y}', 's1::,5', 's2::,,7', 's3::,"abc"', 's4::[1 2 3]', 's5::42', 's6::[]', 's7::2.5', 's8::,2.5'):
            srv(d)
        exprs = ['+/!10', '[1 2 3]', '2.5', ',5', '1#[9 8 7]', ',,7', ',2.5', '[[1 2]]', '#,5', '[]', '"a"', ',"a"', '0#[1]', '1%0', '[1 [2] 3]']
        for e in exprs:
            try:
                r, l = cli('f("' + e.replace('"', '""') + '")'), srv(e)
                if canon(r) != canon(l):
                    problems.append(f'f("{e}") gives {canon(r)}, the server gives {canon(l)}')
            except Exception as ex:
                problems.append(f'f("{e}") raised {type(ex).__name__}: {str(ex)[:60]}')
        for name in ('s1', 's2', 's3', 's4', 's5', 's6', 's7', 's8'):
            for form in (f"f(:{name})", f"d?:{name}"):
                try:
                    r, l = cli(form), srv(name)
                    if canon(r) != canon(l):
                        problems.append(f"{form} gives {canon(r)}, the server gives {canon(l)}")
                except Exception as ex:
                    problems.append(f"{form} raised {type(ex).__name__}: {str(ex)[:60]}")
        for form, local in (('f(:one,,3)', 'one(3)'), ('f(:fst,,[4 5 6])', 'fst([4 5 6])'), ('q::f(:one);q(3)', 'one(3)'), ('n::f(:neg);n(4)', 'neg(4)'),
                            ('p::f(:pair);p(1;2)', 'pair(1;2)'), ('d,:t1,,,8;d?:t1', ',8'),
                            # a proxy applied inside functions whose own x, y, z are bound: only the proxy's arguments go over the wire
                            ('h::f(:neg);{h(x)+y}(1;10)', '{neg(x)+y}(1;10)'), ('p::f(:pair);{p(x;y),z}(1;2;3)', '{pair(x;y),z}(1;2;3)'),
                            ('h::f(:neg);{h(x)*y}/[1 2 3]', '{neg(x)*y}/[1 2 3]'), ("h::f(:neg);h'[1 2 3]", "neg'[1 2 3]")):
            try:
                r, l = cli(form), srv(local)
                if canon(r) != canon(l):
                    problems.append(f"{form} gives {canon(r)}, the server gives {canon(l)}")
            except Exception as ex:
                problems.append(f"{form} raised {type(ex).__name__}: {str(ex)[:60]}")
    finally:
        try:
            cli('.clic(f)')
        except Exception:
            pass
        for loops in (cli_loops, srv_loops):
            try:
                cleanup_repl(*loops) if isinstance(loops, tuple) else cleanup_repl(loops)
            except Exception:
                pass
    if problems:
        return dict(confirmed=True, detail='; '.join(problems[:3]), count=len(problems))
    return dict(confirmed=False, detail='remote values equal the server-side values on all forms tried')


def replay_concurrent_senders(inputs, obl):
    """two senders on one connection (the interpreter's call and the listen loop's reply both end in stream_send_msg on the same
    writer): a 1 MB frame that has to wait for the peer, a small frame sent meanwhile - both must arrive intact, in order"""
    import asyncio
    import socket
    import uuid
    from klongpy.sys_fn_ipc import stream_send_msg, stream_recv_msg
    BIG, SMALL = "x" * 1_000_000, "small message"

    async def scenario():
        a, b = socket.socketpair()
        a.setsockopt(socket.SOL_SOCKET, socket.SO_SNDBUF, 16 * 1024)
        a.setblocking(False); b.setblocking(False)
        _, writer = await asyncio.open_connection(sock=a)
        reader, peer_writer = await asyncio.open_connection(sock=b)
        id_a, id_b = uuid.uuid4(), uuid.uuid4()
        task_a = asyncio.ensure_future(stream_send_msg(writer, id_a, BIG))
        for _ in range(20):
            await asyncio.sleep(0.01)
        if task_a.done():
            return None            # the large send did not have to wait: the schedule cannot be built here
        task_b = asyncio.ensure_future(stream_send_msg(writer, id_b, SMALL))
        for _ in range(20):
            await asyncio.sleep(0.01)
        problem = None
        for want_id, want_body, name in ((id_a, BIG, "the large frame"), (id_b, SMALL, "the small frame")):
            try:
                rid, body = await asyncio.wait_for(stream_recv_msg(reader), timeout=8)
            except asyncio.TimeoutError:
                problem = f"{name}: nothing decodable arrived within 8 s (the stream is out of frame)"
                break
            except Exception as e:
                problem = f"{name} could not be decoded ({type(e).__name__})"
                break
            if rid != want_id or body != want_body:
                problem = f"{name} arrived with another id or body"
                break
        for t in (task_a, task_b):
            if not t.done():
                t.cancel()
        writer.close(); peer_writer.close()
        return problem or ''
    loop = asyncio.new_event_loop()
    try:
        r = loop.run_until_complete(scenario())
    finally:
        try:
            loop.run_until_complete(asyncio.sleep(0.05))
        except Exception:
            pass
    if r:
        return dict(confirmed=True, detail="a 1 MB frame waiting for the peer, a small frame sent on the same connection meanwhile: " + r)
    return dict(confirmed=False, detail='two concurrent senders on one connection: both frames arrived intact and in order' if r == '' else 'schedule could not be built (the large send never waited)')
