"""C02 bounded stand-in: every adverb on a grid of verbs and operands, evaluated as source text, against the adverb's definition
written out as separately evaluated plain applications of the verb (the oracle the property names under observe_at).
Bounded (the grid below), labelled bounded, never counted as proved.  One row per (adverb, verb, operand)."""
import itertools


def _canon(v):
    """structural value of a Klong result: strings and character lists coincide (a string is a list of characters)"""
    import numpy as np
    from klongpy.core import KGChar, KGSym
    if isinstance(v, KGChar):
        return ('c', str(v))
    if isinstance(v, str) and not isinstance(v, KGSym):
        return ('l', tuple(('c', ch) for ch in v))
    if isinstance(v, KGSym):
        return ('s', str(v))
    if isinstance(v, (np.ndarray, list, tuple)):
        return ('l', tuple(_canon(x) for x in v))
    if isinstance(v, (bool, np.bool_)):
        return ('n', float(int(v)))
    if isinstance(v, (int, float, np.integer, np.floating)):
        f = float(v)
        return ('n', 'nan' if f != f else f)
    if isinstance(v, dict):
        return ('d', tuple(sorted((repr(_canon(k)), _canon(x)) for k, x in v.items())))
    if v is None:
        return ('none',)
    return ('o', type(v).__name__, str(v))


def _show(c):
    if c[0] == 'l':
        if c[1] and all(x[0] == 'c' for x in c[1]):
            return '"' + ''.join(x[1] for x in c[1]) + '"'
        return '[' + ' '.join(_show(x) for x in c[1]) + ']'
    if c[0] == 'n':
        return str(int(c[1])) if isinstance(c[1], float) and abs(c[1]) < 1e15 and c[1] == int(c[1]) else str(c[1])
    if c[0] == 'c':
        return '0c' + c[1]
    if c[0] == 's':
        return ':' + c[1]
    return str(c[1:])


VERBS = {            # name -> (source of the verb as written after/before an adverb, application template with {a} {b})
    '+': ('+', '({a})+({b})'), '-': ('-', '({a})-({b})'), '*': ('*', '({a})*({b})'), '%': ('%', '({a})%({b})'),
    '&': ('&', '({a})&({b})'), '|': ('|', '({a})|({b})'), ',': (',', '({a}),({b})'),
    '{x-y}': ('{x-y}', '{{x-y}}({a};{b})'), '{y,x}': ('{y,x}', '{{y,x}}({a};{b})'),
    '{(#x)+#y}': ('{(#x)+#y}', '{{(#x)+#y}}({a};{b})'),
}
MONADS = {'-': ('-', '-({a})'), '#': ('#', '#({a})'), '{x,x}': ('{x,x}', '{{x,x}}({a})'), '{1+#x}': ('{1+#x}', '{{1+#x}}({a})')}

OPERANDS = {         # name -> (source text, list of member source texts or None for an atom)
    'atom': ('5', None), 'empty': ('[]', []), 'one': ('[7]', ['7']), 'ints': ('[3 1 2]', ['3', '1', '2']), 'reals': ('[1.5 2.5]', ['1.5', '2.5']),
    'zero-inside': ('[4 0 2]', ['4', '0', '2']), 'zero-last': ('[4 0]', ['4', '0']), 'nested': ('[1 [2 3] 4]', ['1', '[2 3]', '4']), 'matrix': ('[[1 2] [3 4]]', ['[1 2]', '[3 4]']),
    'string2': ('"ab"', ['0ca', '0cb']), 'string1': ('"a"', ['0ca']), 'string0': ('""', []), 'strings': ('["ab" "c"]', ['"ab"', '"c"']),
}


def _k():
    import warnings
    warnings.simplefilter('ignore')
    from klongpy import KlongInterpreter
    return KlongInterpreter()


class _Hang(BaseException):
    pass


def _ev(k, src, limit_s=2.0):
    """evaluate with a time limit (an adverb that does not return is one of the findings this check is after)"""
    import signal

    def on_alarm(*a):
        raise _Hang()
    old = signal.signal(signal.SIGALRM, on_alarm)
    signal.setitimer(signal.ITIMER_REAL, limit_s)
    try:
        return ('ok', _canon(k(src)))
    except _Hang:
        return ('does-not-return', f'within {limit_s}s')
    except Exception as e:
        return ('raises', type(e).__name__)
    finally:
        signal.setitimer(signal.ITIMER_REAL, 0)
        signal.signal(signal.SIGALRM, old)


def _fold(k, app, items, init=None):
    """left fold written out: f(...f(f(a1;a2);a3)...;aN) as ONE expression of plain applications"""
    acc = init
    for it in items:
        acc = it if acc is None else app.format(a=acc, b=it)
    return acc


def rows(limit=None):
    k = _k()
    out = []

    def row(name, src, want):
        got = _ev(k, src)
        # when the written-out applications raise there is no value to agree with: the adverb must not invent one
        ok = (got[0] != 'ok') if want[0] == 'raises' else got == want
        def show(r):
            return _show(r[1]) if r[0] == 'ok' else ('an exception ' + r[1] if r[0] == 'raises' else 'no result ' + r[1])
        out.append((name, ok, f"{src}  gives {show(got)}; the written-out applications give {show(want)}"))

    def listof(parts):
        """expected list value from separately evaluated member expressions"""
        vals = []
        for p in parts:
            r = _ev(k, p)
            if r[0] != 'ok':
                return r
            vals.append(r[1])
        return ('ok', ('l', tuple(vals)))
    ARITH = {'+', '-', '*', '%', '&', '|', '{x-y}'}
    TEXT = {'string2', 'string1', 'string0', 'strings'}
    for (vn, (vsrc, app)), (on, (osrc, items)) in itertools.product(VERBS.items(), OPERANDS.items()):
        if vn in ARITH and on in TEXT:
            continue                       # arithmetic on characters is outside the verbs' domain
        if items is None:
            # atom operand: f/a = a, f\a = a (reference: over / scan-over of an atom)
            row(f"over[{vn}][{on}]", f"{vsrc}/{osrc}", _ev(k, osrc))
            continue
        n = len(items)
        # Over
        want = _ev(k, osrc) if n == 0 else _ev(k, items[0]) if n == 1 else _ev(k, _fold(k, app, items))
        row(f"over[{vn}][{on}]", f"{vsrc}/{osrc}", want)
        # Over-Neutral
        row(f"over-neutral[{vn}][{on}]", f"9{vsrc}/{osrc}", _ev(k, _fold(k, app, items, init='9')))
        # the same adverbs with the operands reached through variables (the form the expression compiler may take over): same value
        row(f"over[{vn}][{on}][via-variables]", f"ovb::{osrc};{vsrc}/ovb", want)
        row(f"over-neutral[{vn}][{on}][via-variables]", f"ova::9;ovb::{osrc};ova{vsrc}/ovb", _ev(k, _fold(k, app, items, init='9')))
        if n >= 1:
            row(f"scan-over[{vn}][{on}][via-variables]", f"ovb::{osrc};{vsrc}\\ovb", listof([_fold(k, app, items[:i + 1]) for i in range(n)]))
        # Scan-Over: the prefixes of the fold
        if n >= 1:
            row(f"scan-over[{vn}][{on}]", f"{vsrc}\\{osrc}", listof([_fold(k, app, items[:i + 1]) for i in range(n)]))
        # Each-Pair
        if n >= 2:
            row(f"each-pair[{vn}][{on}]", f"{vsrc}:'{osrc}", listof([app.format(a=items[i], b=items[i + 1]) for i in range(n - 1)]))
        # Each-Left / Each-Right with an atom on the other side
        if n >= 1:
            row(f"each-left[{vn}][{on}]", f"8{vsrc}:\\{osrc}", listof([app.format(a='8', b=it) for it in items]))
            row(f"each-right[{vn}][{on}]", f"8{vsrc}:/{osrc}", listof([app.format(a=it, b='8') for it in items]))
        # Each-2 against a vector of another length: excess members of the longer one are ignored
        other = ['10', '20']
        if n >= 1:
            m = min(n, 2)
            row(f"each-2[{vn}][{on}]", f"{osrc}{vsrc}'[10 20]", listof([app.format(a=items[i], b=other[i]) for i in range(m)]))
    for (vn, (vsrc, app)), (on, (osrc, items)) in itertools.product(MONADS.items(), OPERANDS.items()):
        if items is None or not items:
            continue
        if vn == '{x,x}' and on in TEXT:
            continue                       # Each on a string with string-valued results: the reference's "f(a1),...,f(aN)" is read both ways
        if vn == '-' and on in TEXT:
            continue
        row(f"each[{vn}][{on}]", f"{vsrc}'{osrc}", listof([app.format(a=it) for it in items]))
    # Each-Index: f applied to the [index member] pairs
    for vn, app in (('{x@1}', '{{x@1}}({a})'), ('{x@0}', '{{x@0}}({a})'), ('{(x@0)+#x@1}', '{{(x@0)+#x@1}}({a})'), ('{x}', '{{x}}({a})')):
        for on, (osrc, items) in OPERANDS.items():
            if not items:
                continue
            # the pair [index member]: a list literal for atomic members (i,,0ca would turn the character into a string)
            pair = lambda i, it: f"{i},,({it})" if it[0] in '["' else f"[{i} {it}]"
            row(f"each-index[{vn}][{on}]", f"{vn}@'{osrc}", listof([app.format(a=pair(i, it)) for i, it in enumerate(items)]))
    # Iterate / Scan-Iterating: literal and computed counts (a computed count is a NumPy integer)
    for cn, csrc, cnt in (('literal', '3', 3), ('computed', '(1+2)', 3), ('from-list', '([3 9]@0)', 3), ('zero', '(1-1)', 0)):
        for vn, (vsrc, app) in (('{x*2}', ('{x*2}', '{{x*2}}({a})')), ('{1,x}', ('{1,x}', '{{1,x}}({a})'))):
            b = '1' if vn == '{x*2}' else '[]'
            seq = [b]
            for _ in range(cnt):
                seq.append(app.format(a=seq[-1]))
            row(f"iterate[{vn}][count-{cn}]", f"{csrc}{vsrc}:*{b}", _ev(k, seq[-1]))
            row(f"scan-iterating[{vn}][count-{cn}]", f"{csrc}{vsrc}\\*{b}", listof(seq) if cnt else _ev(k, b))
    # two-adverb chains compose left to right: (f/)'a is f/ applied to every member
    for vn in ('+', '{x-y}', ','):
        vsrc, app = VERBS[vn]
        items = ['[1 2 3]', '[4 5]']
        row(f"chain[over,each][{vn}]", f"{vsrc}/'[[1 2 3] [4 5]]", listof([_fold(k, app, ['1', '2', '3']), _fold(k, app, ['4', '5'])]))
        row(f"chain[scan-over,each][{vn}]", f"{vsrc}\\'[[1 2 3] [4 5]]",
            listof([f"{vsrc}\\[1 2 3]", f"{vsrc}\\[4 5]"]))
    return out[:limit] if limit else out


def grouped_rows():
    """one row per adverb: (adverb, ok, detail with the first failing cases)"""
    groups = {}
    for name, ok, detail in rows():
        g = name.split('[')[0]
        groups.setdefault(g, []).append((name, ok, detail))
    out = []
    for g, rs in groups.items():
        bad = [r for r in rs if not r[1]]
        out.append((g, not bad, (f"{len(bad)} of {len(rs)} cases differ: " + ' || '.join(f"{n}: {d}" for n, _, d in bad[:4])) if bad
                    else f"{len(rs)} (verb, operand) cases agree with the written-out applications"))
    return out
