"""Replay harnesses for C12: run the real lexer/parser function on the counter-model."""
import re


def _fn(obl):
    key = obl.split('#')[0]
    rel, qual = key.split('::')
    import importlib
    mod = importlib.import_module(rel[:-3].replace('/', '.'))
    if '.' in qual:
        cls, m = qual.split('.')
        from klongpy import KlongInterpreter
        return getattr(KlongInterpreter(), m), qual
    return getattr(mod, qual), qual


def replay_read_sys_comment(inputs, obl):
    from klongpy.parser import read_sys_comment
    t, i, a = inputs.get('t', ''), inputs.get('i', 0), inputs.get('a', '')
    try:
        r = read_sys_comment(t, i, a)      # a non-terminating loop shows up as the harness time-out
        return dict(confirmed=False, detail=f"read_sys_comment({t!r},{i},{a!r}) returned {r}")
    except Exception as e:
        return dict(confirmed=False, detail=f"raised {type(e).__name__}")


replay_read_sys_comment.timeout_s = 5
replay_read_sys_comment.timeout_confirms = True


def _alts(inputs, o):
    a = inputs.get('a')
    out = []
    for t in ('', 'x', 'ab\nab'):
        out.append(dict(inputs, t=t, i=0))
    return out


replay_read_sys_comment.alternatives = _alts


def replay_parse_generic(inputs, obl):
    f, qual = _fn(obl)
    t, i = inputs.get('t', ''), inputs.get('i', 0)
    args = [t, i]
    name = qual.split('.')[-1]
    if name in ('cexpect',):
        args = [t, i, inputs.get('c', ';')]
    elif name == 'cexpect2':
        args = [t, i, inputs.get('a', ':'), inputs.get('b', '|')]
    elif name == 'read_list':
        args = [t, inputs.get('delim', ']'), i]
    elif name == 'read_sys_comment':
        args = [t, i, inputs.get('a', '')]
    elif name in ('read_cond', 'read_expr_array'):
        from klongpy import KlongInterpreter
        args = [KlongInterpreter(), t, i]
    elif name == 'kg_read_array':
        from klongpy import KlongInterpreter
        args = [t, i, KlongInterpreter()._backend]
    L = len(t)
    import signal

    def h(sig, frm):
        raise _Alarm()
    signal.signal(signal.SIGALRM, h)
    signal.setitimer(signal.ITIMER_REAL, 3)
    try:
        r = f(*args)
    except _Alarm:
        return dict(confirmed=True, detail=f"{name}({t!r},{i}) did not finish within 3s")
    except Exception as e:
        signal.setitimer(signal.ITIMER_REAL, 0)
        found = search_hang()
        if found is not None:
            return found
        return dict(confirmed=False, detail=f"{name}{tuple(args[-2:])!r} raised {type(e).__name__}: {e}; no hanging text among the enumerated ones")
    finally:
        signal.setitimer(signal.ITIMER_REAL, 0)
    idx = r[0] if isinstance(r, tuple) else r
    if isinstance(idx, int) and not (i <= idx <= max(L + 1, i)):
        return dict(confirmed=True, detail=f"{name}({t!r},{i}) returned index {idx} outside [{i}, {L + 1}]")
    found = search_hang()
    if found is not None:
        return found
    return dict(confirmed=False, detail=f"{name}({t!r},{i}) returned {r!r}: within the contract; no hanging text among the enumerated ones")


class _Alarm(Exception):
    pass


def search_hang(per_input_s=1.0):
    """enumerate all strings up to length 3 over the token alphabet plus a few longer programs through the real
    KlongInterpreter.prog; a parse that does not finish within per_input_s (typically microseconds) is a failing input"""
    import itertools, signal
    from klongpy import KlongInterpreter
    k = KlongInterpreter()

    def h(sig, frm):
        raise _Alarm()
    signal.signal(signal.SIGALRM, h)
    alpha = 'a1 ;:"[](){}+-.\n\'/e0c|'
    longer = ['1+2', 'a::1;b::2', 'f::{x+y};f(1;2)', '[1 2 [3 4]]', ':[1;2;3]', ':[0;1:|1;2;3]', '+/[1 2 3]', 'f(;2)', '{x}\'[1 2]',
              '.comment("end")\nfoo\nend\n1', ':"comment" 1', '1.5e-3+0c1', ':{[1 2]}', '[;1;2+3]', 'a:(1;2)', '"a""b"', '.module(:m);a::1;.module(0)']
    cands = longer + [''.join(p) for n in (1, 2, 3) for p in itertools.product(alpha, repeat=n)]
    for text in cands:
        signal.setitimer(signal.ITIMER_REAL, per_input_s)
        try:
            k._module = None
            k.prog(text)
        except _Alarm:
            return dict(confirmed=True, detail=f"KlongInterpreter().prog({text!r}) did not finish within {per_input_s}s", text=text)
        except RecursionError:
            pass
        except Exception:
            pass
        finally:
            signal.setitimer(signal.ITIMER_REAL, 0)
    return None


replay_parse_generic.timeout_s = 120
replay_parse_generic.timeout_confirms = True


def replay_work_bound(inputs, obl):
    """count the calls of the parser-level readers for malformed deeply nested inputs: must stay linear in the length"""
    import sys
    from klongpy import KlongInterpreter
    names = {'_expr', '_factor', '_read_fn_args', '_apply_adverbs', 'prog', 'read_cond', 'read_expr_array'}
    worst = None
    for d in (4, 8, 12, 14):
        for text in ('(' * d + '1', '(' * d + '1]' + ')' * d, '{' * d + 'x', ':[' * d + '1;2', 'f(' * d + '1' + ')' * (d - 1), '[' * d + '1'):
            k = KlongInterpreter()
            cnt = [0]

            def prof(frame, event, arg):
                if event == 'call' and frame.f_code.co_name in names:
                    cnt[0] += 1
                    if cnt[0] > 40 * (len(text) + 2):
                        raise _Alarm()
            sys.setprofile(prof)
            try:
                k.prog(text)
            except _Alarm:
                sys.setprofile(None)
                return dict(confirmed=True, detail=f"parsing {text!r} (length {len(text)}) made more than {40 * (len(text) + 2)} parser-level calls: work is not linear in the length")
            except Exception:
                pass
            finally:
                sys.setprofile(None)
            if worst is None or cnt[0] / (len(text) + 2) > worst[0]:
                worst = (cnt[0] / (len(text) + 2), text, cnt[0])
    # work hidden inside ONE library call (a backtracking regular expression, a quadratic search) makes no parser-level calls: a wall-clock
    # limit for unterminated strings / comments / symbols of a few dozen characters (linear work takes microseconds)
    import signal

    class _Slow(BaseException):
        pass

    def on_alarm(*a):
        raise _Slow()
    for text in ('msg::"' + 'x' * 40, '"' + 'ab' * 30, 'a::"' + 'x' * 32 + '\n' + 'y' * 8, ':"' + 'c' * 48, '[1 "' + 'z' * 36, 'f::{"' + 'q' * 36 + '}'):
        k = KlongInterpreter()
        old = signal.signal(signal.SIGALRM, on_alarm)
        signal.setitimer(signal.ITIMER_REAL, 3.0)
        try:
            k.prog(text)
        except _Slow:
            return dict(confirmed=True, detail=f"parsing {text!r} (length {len(text)}) did not finish within 3 s: the work is not polynomial in the length")
        except Exception:
            pass
        finally:
            signal.setitimer(signal.ITIMER_REAL, 0)
            signal.signal(signal.SIGALRM, old)
    return dict(confirmed=False, detail=f"parser-level calls stay linear: at most {worst[0]:.1f} per character ({worst[2]} calls for {worst[1]!r}); unterminated literals parse at once")


def replay_parse_effects(inputs, obl):
    """parsing must not bind, rebind or depend on variables: snapshot of the context before/after prog() on texts that put
    expressions where the parser acts on an argument at parse time (.comment, .module)"""
    from klongpy import KlongInterpreter
    texts = ['.comment(endnote)\nthese lines\nendnote\n1+1', '.comment(marker::"fin")\nskipped\nfin\n2', '.comment("end")\nxx\nend\n3',
             'a::1;b::a+1', 'f::{x+1};f(2)', '.comment(f(1))\nxx\n1\n']
    for t in texts:
        k = KlongInterpreter()
        k('f::{x}')
        before = {str(kk): repr(vv) for kk, vv in k._context}
        try:
            k.prog(t)
        except Exception:
            pass
        after = {str(kk): repr(vv) for kk, vv in k._context}
        if before != after:
            diff = sorted(set(after.items()) ^ set(before.items()))[:3]
            return dict(confirmed=True, detail=f"parsing {t!r} (no evaluation) changed the variables: {diff}")
    return dict(confirmed=False, detail='parsing left the variable state untouched on the probe texts')


def replay_reparse(inputs, obl):
    """parsing is repeatable on one interpreter: a well-formed text parses to a structurally identical program (and evaluates to the
    same result) before and after many malformed inputs have been rejected by the same interpreter"""
    from klongpy import KlongInterpreter
    texts = ['a::(1+(2*3));a', 'f::{(x+1)*(y-1)};f(2;3)', ':[1;(2+(3));4]', '[1 [2 (3)] 4]']
    bad_inputs = ['((((1+2', '(((1+2)*3)]', '{((x+1)*(y}', '((((((((', ':[((1;2', 'f(((1', '(' * 40 + '1']

    def shape(p):
        if isinstance(p, list):
            return [shape(x) for x in p]
        d = getattr(p, '__dict__', None)
        if d is not None:
            return (type(p).__name__, {k: shape(v) for k, v in d.items() if not k.startswith('_')})
        try:
            import numpy as np
            if isinstance(p, np.ndarray):
                return ('arr', [shape(x) for x in p.tolist()])
        except Exception:
            pass
        return repr(p)
    k = KlongInterpreter()
    first = {}
    for t in texts:
        try:
            first[t] = (shape(k.prog(t)[1]), repr(k(t)))
        except Exception as e:
            first[t] = ('raised', type(e).__name__)
    rejected = 0
    for round_ in range(40):
        for b in bad_inputs:
            try:
                k.prog(b)
            except Exception:
                rejected += 1
        for t in texts:
            try:
                now = (shape(k.prog(t)[1]), repr(k(t)))
            except Exception as e:
                now = ('raised', type(e).__name__)
            if now != first[t]:
                return dict(confirmed=True, detail=f"after {rejected} rejected malformed inputs on the same interpreter, {t!r} parses/evaluates as {str(now)[:120]} - it was {str(first[t])[:120]}")
    return dict(confirmed=False, detail=f"{len(texts)} texts parse and evaluate identically after {rejected} rejected malformed inputs")
