"""Replay for C05: the same programs with and without the expression compiler (compile_expr stubbed from the harness)."""


def replay_fallback(inputs, obl):
    import numpy as np
    import klongpy.interpreter as ki
    from klongpy import KlongInterpreter
    problems = []
    progs = [('a::3;b::[1 2 3]', ['a+b', 'a*b-2', '+/b', 'b%a', 'a<b', '-b', '+\\b']),
             ('a::[1 2 3];b::2', ['a^b', '*/a', 'a=b', '|/a', '&/a'])]
    for setup, exprs in progs:
        for ex in exprs:
            k1 = KlongInterpreter(); k1(setup)
            real = ki.compile_expr
            try:
                r1 = k1(ex)
                # rebinding to another kind between evaluations: the compiled code must not be trusted blindly
                k1('a::"xy"')
                try:
                    r1b = ('ok', k1(ex))
                except Exception as e:
                    r1b = ('err', type(e).__name__)
                ki.compile_expr = lambda *a, **kw: None
                k2 = KlongInterpreter(); k2(setup)
                r2 = k2(ex)
                k2('a::"xy"')
                try:
                    r2b = ('ok', k2(ex))
                except Exception as e:
                    r2b = ('err', type(e).__name__)
            finally:
                ki.compile_expr = real
            if not np.array_equal(np.asarray(r1), np.asarray(r2)):
                problems.append(f"{setup}; {ex}: compiled {r1!r} vs interpreted {r2!r}")
            if r1b[0] != r2b[0]:
                problems.append(f"{setup}; a::\"xy\"; {ex}: compiled path {r1b} vs interpreter {r2b}")
    if problems:
        return dict(confirmed=True, detail='; '.join(problems[:3]))
    return dict(confirmed=False, detail='compiled and interpreted runs agree on the scripted programs')


def replay_values(inputs, obl):
    """compiled vs interpreted value of one production over a universe of bindings (scalars, empty, rank 1, rank 2, nested):
    structure, elements and integer/real kind must agree; :undefined or an error on one side must be :undefined or an error on the other"""
    import numpy as np
    import klongpy.interpreter as ki
    from klongpy import KlongInterpreter
    prod = (inputs or {}).get('production', '')
    kind, _, op = prod.partition(' ')
    binds = {'int': '3', 'zero': '0', 'real': '2.5', 'creal': '7%2', 'empty': '[]', 'ivec': '[1 2 3]', 'rvec': '[1.5 2.5]', 'one': '[4]',
             'mat': '[[1 5] [3 2]]', 'rmat': '[[1.5 2.0] [0.5 4.0]]', 'four': '4', 'half': '0.5', 'csum': '+/[1.5 2.5]'}
    if kind == 'reduce':
        exprs = [(f"a::{binds[b]}", f"{op}/a") for b in ('int', 'empty', 'ivec', 'rvec', 'one', 'mat', 'rmat')]
    elif kind == 'scan':
        exprs = [(f"a::{binds[b]}", f"{op}\\a") for b in ('int', 'empty', 'ivec', 'rvec', 'one', 'mat', 'rmat')]
    elif kind == 'binop':
        exprs = [(f"a::{binds[x]};b::{binds[y]}", f"a{op}b") for x in ('int', 'real', 'four', 'ivec', 'mat', 'creal', 'csum') for y in ('int', 'zero', 'half', 'ivec', 'real')
                 if not (x in ('ivec',) and y == 'ivec' and False)]
    elif kind == 'negate':
        exprs = [(f"a::{binds[b]}", "-a") for b in ('int', 'real', 'ivec', 'mat')]
    else:   # admission
        exprs = [(f"a::{binds[x]};b::{binds[y]}", e) for x in ('creal', 'csum', 'int') for y in ('zero', 'int') for e in ('a%b', 'a^2', 'a+b')]

    def canon(v):
        if isinstance(v, np.ndarray):
            return ('arr', v.dtype.kind if v.dtype.kind in 'if' else 'o', v.shape, [canon(x) for x in v.tolist()] if v.dtype == object else np.round(v.astype(float), 9).tolist())
        if isinstance(v, (bool, np.bool_)):
            return ('int', int(v))
        if isinstance(v, (int, np.integer)):
            return ('int', int(v))
        if isinstance(v, (float, np.floating)):
            return ('real', 'nan' if v != v else round(float(v), 9))
        if isinstance(v, list):
            return ('list', [canon(x) for x in v])
        return ('other', repr(v))

    def run(setup, ex, stub):
        real = ki.compile_expr
        try:
            if stub:
                ki.compile_expr = lambda *a, **kw: None
            k = KlongInterpreter()
            k(setup)
            try:
                v = k(ex)
            except Exception as e:
                return ('undefined-or-error',)
            from klongpy.core import KLONG_UNDEFINED
            if v is KLONG_UNDEFINED:
                return ('undefined-or-error',)
            return canon(v)
        finally:
            ki.compile_expr = real
    problems = []
    for setup, ex in exprs:
        c, i = run(setup, ex, False), run(setup, ex, True)
        if c != i:
            problems.append(f"{setup};{ex}: compiled {c} vs interpreted {i}")
    if problems:
        return dict(confirmed=True, detail='; '.join(problems[:3]), count=len(problems))
    return dict(confirmed=False, detail=f"compiled and interpreted values agree on {len(exprs)} bindings of production {prod!r}")


def replay_rebinding(inputs, obl):
    """rebinding by a program (::) between two evaluations of the same text: compiled and interpreted runs must agree"""
    import klongpy.interpreter as ki
    from klongpy import KlongInterpreter
    from klongpy.core import KLONG_UNDEFINED
    hist = [['a::3', 'a%0', 'a::7%2', 'a%0'], ['a::[1 2 3]', 'a^2', 'a::+/[1.5 2.5]', 'a^2'], ['a::3', 'a*2', 'a::"ab"', 'a*2'],
            ['a::6;b::3', 'a%b', 'b::+/[0 0]', 'a%b'], ['s::2;n::3', 's*n', 's::"ab"', 's*n'], ['a::[1 2]', '+/a', 'a::[]', '+/a'],
            ['a::6;b::3;g::{b::[0 5]@x}', 'a%b', 'g(0)', 'a%b'], ['a::3;g::{a::"ab"}', 'a*2', 'g()', 'a*2'],
            ['a::5', 't::+/a', 'a::[1 2 3]', 't::+/a'], ['f::{,+/x}', 'f(5)', 'f([1 2 3])'], ['f::{,+\\x}', 'f(5)', 'f([1 2 3])'],
            # NESTED operator nodes keep their own memo of the compile decision: it must not outlive the kind of value it was made for
            ['a::2', ',a*3', 'a::"x"', ',a*3'], ['a::2;b::1', ',b%a', 'a::0%1', ',b%a'], ['f::{,x*3}', 'f(2)', 'f("x")'], ['g::{x,x*2}', 'g(3)', 'g("ab")'],
            ['a::2', 'b::a*3', 'a::"ab"', 'b::a*3'], ['h::{,x%y}', 'h(1;2)', 'h(1;0%1)']]

    def run(h, stub):
        real = ki.compile_expr
        try:
            if stub:
                ki.compile_expr = lambda *a, **kw: None
            k = KlongInterpreter()
            out = []
            for t in h:
                try:
                    v = k(t)
                    if v is KLONG_UNDEFINED:
                        out.append('undefined-or-error')
                    elif type(v).__module__.startswith('klongpy') and not isinstance(v, str):
                        out.append('<' + type(v).__name__ + '>')          # a function object: its repr carries an address
                    else:
                        out.append(repr(v.tolist() if hasattr(v, 'tolist') else v) + ':' + type(v).__name__.replace('int64', 'int').replace('float64', 'float'))
                except Exception:
                    out.append('undefined-or-error')
            return out
        finally:
            ki.compile_expr = real
    problems = []
    for h in hist:
        c, i = run(h, False), run(h, True)
        if c != i:
            problems.append(f"{';'.join(h)}: compiled {c[-1]} vs interpreted {i[-1]}")
    if problems:
        return dict(confirmed=True, detail='; '.join(problems[:3]))
    return dict(confirmed=False, detail='rebinding histories give the same results compiled and interpreted')


def sequence_rows():
    """(bounded) several expressions of the same SHAPE over the same variables evaluated one after another in ONE interpreter - the
    compiled run against the interpreted run (compile_expr stubbed out): a+b style memoisation across expressions must not mix up
    which variable is which (-> list of (name, ok, detail))"""
    import klongpy.interpreter as ki
    from klongpy import KlongInterpreter
    from klongpy.core import kg_write
    seqs = {
        'swap-operands': ['a::10;b::3', 'a-b', 'b-a', 'a%b', 'b%a', 'a>b', 'b>a', 'a^b', 'b^a'],
        'swap-in-functions': ['f::{x-y};g::{y-x}', 'f(10;3)', 'g(10;3)', 'f(3;10)', 'g(3;10)'],
        'three-variables': ['a::1;b::2;c::4', '(a-b)-c', '(c-b)-a', '(b-a)-c', 'a-(b-c)', 'c-(b-a)'],
        'same-shape-different-names': ['a::10;b::3;c::7', 'a-b', 'a-c', 'c-a', 'b-c'],
        'lists-and-scalars': ['a::[1 2 3];b::2', 'a-b', 'b-a', 'a%b', 'b%a'],
    }
    out = []

    def run(steps, stub):
        real = ki.compile_expr
        try:
            if stub:
                ki.compile_expr = lambda *a, **kw: None
            k = KlongInterpreter()
            res = []
            for s in steps:
                try:
                    res.append(kg_write(k(s), k._backend))
                except Exception as e:
                    res.append('raises ' + type(e).__name__)
            return res
        finally:
            ki.compile_expr = real
    for name, steps in seqs.items():
        c, i = run(steps, False), run(steps, True)
        bad = [(s, x, y) for s, x, y in zip(steps, c, i) if x != y]
        out.append((name, not bad, (f"after {'; '.join(steps[:steps.index(bad[0][0])])}: {bad[0][0]} compiled gives {bad[0][1]}, interpreted {bad[0][2]}") if bad
                    else f"{len(steps)} steps agree"))
    return out


def replay_guard_kinds(inputs, obl):
    """the call-time admission test of the REAL tree on a battery of value kinds (bounded): admitting anything but an exact int / float
    or an ndarray lets compiled code run on a kind it is not valid for (confirmed, with the value); refusing an admitted kind only
    selects the interpreter, which is harmless"""
    import numpy as np
    from klongpy import KlongInterpreter
    from klongpy.core import KGChar, KGSym, KLONG_UNDEFINED
    k = KlongInterpreter()
    if not hasattr(k, '_compiled_for'):
        return {'confirmed': False, 'detail': 'no _compiled_for on the interpreter', 'battery': None}
    k('f::{x}')
    battery = [('int', 3, True), ('float', 2.5, True), ('int array', np.array([1, 2]), True), ('real matrix', np.array([[1.5, 2.0]]), True), ('empty array', np.array([]), True),
               ('bool', True, False), ('np.float64', np.float64(2.5), False), ('np.int64', np.int64(3), False), ('np.bool_', np.bool_(True), False),
               ('string', 'ab', False), ('character', KGChar('a'), False), ('symbol', KGSym('s'), False), ('python list', [1, 2], False), ('tuple', (1, 2), False),
               ('None', None, False), ('undefined', KLONG_UNDEFINED, False), ('dictionary', {1: 2}, False), ('function', k._context[KGSym('f')], False),
               ('complex', 1j, False)]
    wrong, narrower = [], []
    for name, v, want in battery:
        for args in ([v], [1, v], [v, np.array([1.0])]):
            got = bool(k._compiled_for(args))
            if got and not want:
                wrong.append(f"{name} ({type(v).__name__}) admitted in {len(args)}-argument call")
            elif want and not got:
                narrower.append(name)
    if not k._compiled_for([]):
        narrower.append('no arguments')
    if wrong:
        return {'confirmed': True, 'detail': 'the guard admits: ' + '; '.join(sorted(set(wrong))[:4]), 'battery': len(battery)}
    return {'confirmed': False, 'detail': f"on {len(battery)} value kinds the guard admits only exact int / float / ndarray" +
            (f" (and refuses {sorted(set(narrower))}: interpreter path, harmless)" if narrower else ''), 'battery': len(battery)}
