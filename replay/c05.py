"""Replay for C05: the same programs with and without the expression compiler (compile_expr stubbed from the harness)."""


def replay_fallback(inputs, obl):
    import numpy as np
    import klongpy.interpreter as ki
    from klongpy import KlongInterpreter
    problems = []
    progs = [('a::3;b::[1 2 3]', ['a+b', 'a*b-2', '+/b', 'b%a', 'a<b', '-b', '+\\b']),
             ('a::[1 2 3];b::2', ['a^b', '*/a', 'a=b', '|/a', '&/a'])]
    for setup, exprs in progs:
        for ex in exprs:
            k1 = KlongInterpreter(); k1(setup)
            real = ki.compile_expr
            try:
                r1 = k1(ex)
                # rebinding to another kind between evaluations: the compiled code must not be trusted blindly
                k1('a::"xy"')
                try:
                    r1b = ('ok', k1(ex))
                except Exception as e:
                    r1b = ('err', type(e).__name__)
                ki.compile_expr = lambda *a, **kw: None
                k2 = KlongInterpreter(); k2(setup)
                r2 = k2(ex)
                k2('a::"xy"')
                try:
                    r2b = ('ok', k2(ex))
                except Exception as e:
                    r2b = ('err', type(e).__name__)
            finally:
                ki.compile_expr = real
            if not np.array_equal(np.asarray(r1), np.asarray(r2)):
                problems.append(f"{setup}; {ex}: compiled {r1!r} vs interpreted {r2!r}")
            if r1b[0] != r2b[0]:
                problems.append(f"{setup}; a::\"xy\"; {ex}: compiled path {r1b} vs interpreter {r2b}")
    if problems:
        return dict(confirmed=True, detail='; '.join(problems[:3]))
    return dict(confirmed=False, detail='compiled and interpreted runs agree on the scripted programs')
