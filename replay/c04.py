"""C04 replay: seek a failing input on the real code for a failed frame obligation.

A frame obligation has no solver model, so the search is a fixed battery on the real verb tables:
  (1) every dyad/monad called directly with operands from a pool (vectors, nested lists, strings, matrices, views of a base
      array, object arrays) - afterwards every operand and every base array must be what it was (deep comparison);
  (2) adverb forms and copy-then-update statements through the interpreter with variables bound to the pool;
  (3) the same text evaluated repeatedly in one interpreter vs once in a fresh one.
Documented in-place cases (a dictionary on either side of Join, Drop on a dictionary, Define) are skipped."""
import copy
import numpy as np


def deep_eq(a, b):
    if isinstance(a, np.ndarray) or isinstance(b, np.ndarray):
        if not (isinstance(a, np.ndarray) and isinstance(b, np.ndarray)) or a.shape != b.shape or a.dtype.kind != b.dtype.kind:
            return False
        if a.dtype == object:
            return all(deep_eq(x, y) for x, y in zip(a.ravel().tolist(), b.ravel().tolist())) if a.ndim == 1 else \
                all(deep_eq(x, y) for x, y in zip(list(a), list(b)))
        return bool(np.array_equal(a, b, equal_nan=True)) if a.dtype.kind == 'f' else bool(np.array_equal(a, b))
    if isinstance(a, (list, tuple)) and isinstance(b, (list, tuple)):
        return len(a) == len(b) and type(a) is type(b) and all(deep_eq(x, y) for x, y in zip(a, b))
    if isinstance(a, dict) and isinstance(b, dict):
        return a.keys() == b.keys() and all(deep_eq(a[k], b[k]) for k in a)
    if type(a) is not type(b) and not (isinstance(a, (int, float, np.number)) and isinstance(b, (int, float, np.number))):
        return False
    try:
        r = (a == b)
        return bool(r) if not isinstance(r, np.ndarray) else bool(r.all())
    except Exception:
        return a is b


def pool():
    base = np.array([5, 1, 4, 2, 3, 9, 7])
    fbase = np.array([1.5, -2.0, 3.25, 0.0])
    nested = np.array([np.array([1, 2]), np.array([3, 4, 5]), 6], dtype=object)
    mat = np.array([[4, 5, 6], [1, 2, 3], [4, 5, 6], [7, 8, 9]])
    strs = np.array(["ab", "cd", "ef"], dtype=object)
    from klongpy.core import KGSym, KGChar
    symmat = np.array([[KGSym('a'), KGSym('b')], [KGSym('c'), KGSym('d')]], dtype=object)
    chrmat = np.array([[KGChar('a'), KGChar('b')], [KGChar('c'), KGChar('d')]], dtype=object)
    items = {
        'ivec': base, 'iview': base[2:], 'fvec': fbase, 'nested': nested, 'nview': nested[:2], 'mat': mat, 'mrow': mat[1],
        'str': "hello", 'strs': strs, 'one': np.array([4]), 'empty': np.array([], dtype=int), 'two': np.array([1, 0]),
        'int': 2, 'neg': -2, 'zero': 0, 'float': 1.5, 'idx': np.array([0, 2]), 'amend': np.array([9, 0, 1], dtype=object),
        'amendl': np.array([np.array([7, 7]), 0], dtype=object), 'shape': np.array([2, -1]), 'depth': np.array([1, 0]),
        'pylist': [3, 1, 2], 'pypair': [0, 5], 'pynested': [[1, 2], [3]],
        'symmat': symmat, 'symrow': symmat[1:], 'chrmat': chrmat, 'amendsym': np.array([KGSym('z'), 0, 1], dtype=object),
        'amendstr': np.array(['q', 1, 0], dtype=object), 'amendsym1': np.array([KGSym('z'), 1], dtype=object),
    }
    bases = {'base': base, 'fbase': fbase, 'nested': nested, 'mat': mat, 'strs': strs, 'symmat': symmat, 'chrmat': chrmat}
    return items, bases


def snapshot(d):
    return {k: copy.deepcopy(v) for k, v in d.items()}


def direct_calls():
    """(1): -> (what, detail) of the first operand changed by a verb, or None"""
    import warnings
    warnings.simplefilter('ignore')
    from klongpy import KlongInterpreter
    from klongpy.dyads import create_dyad_functions
    from klongpy.monads import create_monad_functions
    klong = KlongInterpreter()
    dy = create_dyad_functions(klong)
    mo = create_monad_functions(klong)
    skip_dy = {'::', '∇', '∂', ':>'}
    names = list(pool()[0].keys())
    for sym, fn in list(mo.items()):
        for an in names:
            items, bases = pool()
            before_i, before_b = snapshot(items), snapshot(bases)
            try:
                fn(items[an])
            except BaseException:
                pass
            for k in items:
                if not deep_eq(items[k], before_i[k]):
                    return (f"monad {sym} applied to {an}={before_i[an]!r}", f"operand pool member {k} changed from {before_i[k]!r} to {items[k]!r}")
            for k in bases:
                if not deep_eq(bases[k], before_b[k]):
                    return (f"monad {sym} applied to {an}={before_i[an]!r}", f"base array {k} changed from {before_b[k]!r} to {bases[k]!r}")
    for sym, fn in list(dy.items()):
        if sym in skip_dy:
            continue
        for an in names:
            for bn in names:
                items, bases = pool()
                before_i, before_b = snapshot(items), snapshot(bases)
                try:
                    fn(items[an], items[bn])
                except BaseException:
                    pass
                for k in items:
                    if not deep_eq(items[k], before_i[k]):
                        return (f"dyad a{sym}b with a={an}={before_i[an]!r} b={bn}={before_i[bn]!r}",
                                f"operand pool member {k} changed from {before_i[k]!r} to {items[k]!r}")
                for k in bases:
                    if not deep_eq(bases[k], before_b[k]):
                        return (f"dyad a{sym}b with a={an}={before_i[an]!r} b={bn}={before_i[bn]!r}",
                                f"base array {k} changed from {before_b[k]!r} to {bases[k]!r}")
    return None


PROGRAMS = [
    "{x}'a", "+/a", "+\\a", ",/a", "|/a", "&/a", "{x,y}:'a", "a{x,y}'b", "a{x,y}:\\b", "a{x,y}:/b", "2{x,0}:*a", "2{x,0}:\\*a" if False else "{x}:~a",
    "c::a:=0,0", "c::a:=0,0;c::c:=1,1", "c::2_a;c::c:=9,0", "c::(-2)_a;c::c:=9,0", "c::2#a;c::c:=9,0", "c::|a;c::c:=9,0",
    "c::a@[0 1];c::c:=9,0", "c::a,b;c::c:=9,0", "c::a;c::c:-9,0" if False else "c::a:-9,0", "c::1:+a;c::c:=9,0", "c::[2 2]:^a", "c::<a", "c::>a", "c::?a", "c::=a",
    "c::*a;c::c+1", "c::a+0;c::c:=9,0", "c::a;c::c:=9,0", "f::{x:=9,0};f(a)", "f::{x:-9,0};f(a)" if False else "f::{x};f(a):=9,0",
    "c::a:#b" if False else "c::2:#a;c::c:=9,0", "c::&a", "c::#a", "c::^a", "c::,a;c::c:=9,0", "c::a?0", "c::a:_[1 2]" if False else "c::[1 2]:_a",
]

HISTORY = [
    "[1 2 3]:=0,1", "a::[1 2 3];b::a:=9,0;a", "f::{[1 2 3]};g::f();g::g:=0,0;f()", "{x+1}'[1 2 3]", "f::{[1 2 3]};g::2_f();g::g:=0,0;f()",
    "[[1 2][3 4]]:-0,[0 1]", "t::[3 1 2];t@<t", "f::{x,[7 8]};f(1):=0,1;f(1)", "a::[1 2 3];+/a", "a::[4 5 6];a+1;a", "|[1 2 3]", "1:+[1 2 3]",
    "s::\"abc\";s:=0cx,0;s", "f::{[1 2 3]};(|f()):=0,0;f()", "x::[1 2 3];y::x;y::y:=0,0;x", ":{[1 2]}", "d:::{[1 2]};d,[3 4];:{[1 2]}",
]


def through_interpreter():
    import warnings
    warnings.simplefilter('ignore')
    from klongpy import KlongInterpreter
    items, bases = pool()
    vecs = ['ivec', 'iview', 'fvec', 'nested', 'nview', 'mat', 'str', 'strs', 'one']
    for prog in PROGRAMS:
        for an in vecs:
            for bn in ('ivec', 'nested', 'int'):
                items, bases = pool()
                before_i, before_b = snapshot(items), snapshot(bases)
                klong = KlongInterpreter()
                klong['a'] = items[an]
                klong['b'] = items[bn]
                a_obj = klong['a']
                a_before = copy.deepcopy(a_obj)
                try:
                    klong(prog)
                except BaseException:
                    pass
                try:
                    a_after = klong['a']
                except BaseException:
                    a_after = None
                if not deep_eq(a_obj, a_before) or not deep_eq(a_after, a_before):
                    return (f"program `{prog}` with a={an}={before_i[an]!r}, b={bn}", f"variable a changed from {a_before!r} to {a_after!r}")
                for k in bases:
                    if not deep_eq(bases[k], before_b[k]):
                        return (f"program `{prog}` with a={an}={before_i[an]!r}, b={bn}", f"base array {k} changed from {before_b[k]!r} to {bases[k]!r}")
    return None


EXPECT = [
    ("f::{x,y};g::f(1;);g(2);g(3)", "[1 3]"), ("f::{x,y,z};g::f(1;;);h::g(2;);h(3);h(4)", "[1 2 4]"),
    ("f::{x,y};g::f(;1);g(2);g(3)", "[3 1]"), ("a::[1 2 3];b::a:=9,0;a", "[1 2 3]"), ("a::[[1 2][3 4]];b::a:-9,[0 1];a", "[[1 2] [3 4]]"),
    ("a::[3 1 2];b::a@<a;a", "[3 1 2]"), ("a::[[4 5][1 2][4 5]];b::?a;a", "[[4 5] [1 2] [4 5]]"), ("a::[1 2 3];b::a,4;a", "[1 2 3]"),
]


def expected():
    import warnings
    warnings.simplefilter('ignore')
    from klongpy import KlongInterpreter
    from klongpy.writer import kg_write
    for prog, want in EXPECT:
        k = KlongInterpreter()
        try:
            got = kg_write(k(prog), k._backend) if 'backend' in kg_write.__code__.co_varnames[:3] else kg_write(k(prog))
        except BaseException as e:
            got = f"raised {type(e).__name__}"
        if str(got) != want:
            return (f"program `{prog}`", f"result {got}, the reference gives {want}")
    return None


def history():
    import warnings
    warnings.simplefilter('ignore')
    from klongpy import KlongInterpreter
    for prog in HISTORY:
        fresh = KlongInterpreter()
        try:
            want = fresh(prog)
        except BaseException as e:
            want = ('raised', type(e).__name__)
        k = KlongInterpreter()
        for n in range(3):
            try:
                got = k(prog)
            except BaseException as e:
                got = ('raised', type(e).__name__)
            if not deep_eq(got, want):
                return (f"program `{prog}` evaluated {n + 1} time(s) in one interpreter", f"result {got!r}, a fresh interpreter gives {want!r}")
    return None


def seek():
    for f in (direct_calls, through_interpreter, history, expected):
        r = f()
        if r is not None:
            return dict(confirmed=True, input=r[0], detail=r[1], stage=f.__name__)
    return dict(confirmed=False, detail='no operand of the battery was changed by any verb, adverb form or repeated evaluation')


if __name__ == '__main__':
    import sys, os, json
    sys.path.insert(0, os.environ.get('PYVC_REPO', '/repo'))
    print(json.dumps(seek(), indent=1, default=str))


def replay_parse_cache_module(inputs, obl):
    """the same session of texts, once as it is and once with the parse cache emptied before every text (every text parsed afresh):
    the active module after every step, and the values of the variables at the end, must agree"""
    from klongpy import KlongInterpreter
    sessions = [
        ['.module(:m)', 'a::1', '.module(0)', '.module(:m)', 'b::2', '.module(0)', 'a', 'b'],
        ['.module(:p)', '.module(0)', '.module(:p)', 'v::7', '.module(0)', '.module(:p)', 'v'],
        ['x1::5', '.module(:q)', 'x1::6', '.module(0)', 'x1', '.module(:q)', 'x1'],
    ]
    problems = []
    for texts in sessions:
        runs = []
        for fresh_parse in (False, True):
            k = KlongInterpreter()
            trace = []
            for t in texts:
                if fresh_parse:
                    k._parse_cache.clear()
                try:
                    r = k(t)
                    r = repr(r.tolist() if hasattr(r, 'tolist') else r) if not callable(r) else 'fn'
                except Exception as e:
                    r = f"<{type(e).__name__}>"
                trace.append((t, str(k._module), r))
            runs.append(trace)
        if runs[0] != runs[1]:
            i = next(j for j in range(len(texts)) if runs[0][j] != runs[1][j])
            problems.append(f"session {texts}: at step {i} ({texts[i]!r}) module/result is {runs[0][i][1:]} with the parse cache, {runs[1][i][1:]} when the text is parsed afresh")
    if problems:
        return dict(confirmed=True, detail='; '.join(problems[:2]))
    return dict(confirmed=False, detail='sessions agree with and without the parse cache')
