"""Replay for C09: instrumented Python callables and the Python-side wrapper of Klong functions."""


def replay_lambda(inputs, obl):
    from klongpy import KlongInterpreter
    problems = []
    log = []
    fns = {
        'fx': (lambda x: log.append(('fx', x)) or ('r', x)), 'fy': (lambda y: log.append(('fy', y)) or ('r', y)),
        'fz': (lambda z: log.append(('fz', z)) or ('r', z)), 'fxy': (lambda x, y: log.append(('fxy', x, y)) or ('r', x, y)),
        'fyz': (lambda y, z: log.append(('fyz', y, z)) or ('r', y, z)), 'fxz': (lambda x, z: log.append(('fxz', x, z)) or ('r', x, z)),
        'fxyz': (lambda x, y, z: log.append(('fxyz', x, y, z)) or ('r', x, y, z)), 'f0': (lambda: log.append(('f0',)) or ('r',)),
        'kx': (lambda klong, x: log.append(('kx', x)) or ('r', x)),
    }
    arity = dict(fx=1, fy=1, fz=1, fxy=2, fyz=2, fxz=2, fxyz=3, f0=0, kx=1)
    for name, f in fns.items():
        k = KlongInterpreter()
        k['y'] = 'GLOBAL-Y'
        k['z'] = 'GLOBAL-Z'
        k[name] = f
        args = [10, 20, 30][:arity[name]]
        log.clear()
        try:
            r = k(f"{name}({';'.join(map(str, args))})")
        except Exception as e:
            problems.append(f"{name}: raised {type(e).__name__}: {e}")
            continue
        if len(log) != 1:
            problems.append(f"{name} was called {len(log)} times for one application")
        elif list(log[0][1:]) != args:
            problems.append(f"Python callable with parameters {f.__code__.co_varnames[:f.__code__.co_argcount]} applied to {tuple(args)} received {log[0][1:]}")
        elif tuple(r) != ('r',) + tuple(args):
            problems.append(f"{name}: result {r!r} is not the callable's return value")
    if problems:
        return dict(confirmed=True, detail='; '.join(problems[:3]))
    return dict(confirmed=False, detail='every callable was called once with the evaluated arguments in positional order')


def replay_wrapper(inputs, obl):
    from klongpy import KlongInterpreter
    problems = []
    k = KlongInterpreter()
    k('f::{x+y}')
    w = k['f']
    if w(1, 2) != k('f(1;2)'):
        problems.append("wrapper result differs from the Klong call")
    for bad in ((1,), (1, 2, 3), ()):
        try:
            w(*bad)
            problems.append(f"wrapper accepted {len(bad)} arguments for a dyad")
        except RuntimeError:
            pass
        except Exception as e:
            problems.append(f"wrong arity raised {type(e).__name__}")
    # Python lists passed through the wrapper are the Klong lists they denote
    from klongpy.core import kg_write
    k2 = KlongInterpreter()
    k2('jn::{,/x};cnt::{#x};fst::{x@0};two::{(x@0),,x@1}')
    for nm, py, kl in (('jn', ['ab', 'cd'], '["ab" "cd"]'), ('cnt', [[1, 2], [3]], '[[1 2] [3]]'), ('fst', [1, 'a'], '[1 "a"]'), ('two', [1, 'a'], '[1 "a"]'),
                       ('cnt', [1, 2, 3], '[1 2 3]'), ('fst', [[1, 2], [3, 4]], '[[1 2] [3 4]]'), ('jn', [[1], [2, 3]], '[[1] [2 3]]')):
        try:
            got = kg_write(k2[nm](py), k2._backend)
        except Exception as e:
            got = 'raises ' + type(e).__name__
        want = kg_write(k2(f"{nm}({kl})"), k2._backend)
        if got != want:
            problems.append(f"klong['{nm}']({py!r}) gives {got}, the Klong call {nm}({kl}) gives {want}")
    k('f::{x*y}')
    if w(3, 4) != 12:
        problems.append("wrapper did not follow the redefinition of f")
    k('f::5')
    if w(3, 4) != 7:
        problems.append("wrapper did not fall back to the original function when f is no longer a function")
    n = []
    def boom(x):
        n.append(x)
        raise KeyError(x)
    k2 = KlongInterpreter()
    k2['boom'] = boom
    k2('b::{boom(x)}')
    try:
        k2['b'](1)
    except KeyError:
        pass
    if len(n) != 1:
        problems.append(f"a Klong function whose body raised KeyError was evaluated {len(n)} times by one wrapper call")
    k('g::{x,y,z}')
    if list(k['g'](1, 2, 3)) != [1, 2, 3]:
        problems.append("arguments not passed in order")
    # a wrapper made without a name (as the timer does) resolves the name when it is made and follows a redefinition made BEFORE its first call
    try:
        from klongpy.types import KGFnWrapper as _W
        from klongpy.core import KGSym as _S
        k5 = KlongInterpreter()
        k5('cb::{x+1}')
        w5 = _W(k5, k5._context[_S('cb')])
        k5('cb::{x+2}')
        if w5(1) != 3:
            problems.append(f"KGFnWrapper(klong, fn) made while cb was {{x+1}}, cb redefined to {{x+2}} before the first call: call gave {w5(1)!r}, the current definition gives 3")
    except Exception as e:
        problems.append(f"wrapper without a name raised {type(e).__name__}: {e}")
    # history: take the wrapper, delete the name, call (original runs), redefine the name, call again (the new definition runs)
    try:
        k6 = KlongInterpreter()
        k6('hf::{x+1}')
        w6 = k6['hf']
        del k6['hf']
        r_a = w6(1)
        k6('hf::{x+100}')
        r_b = w6(1)
        if (r_a, r_b) != (2, 101):
            problems.append(f"wrapper of hf::{{x+1}}: after del hf the call gave {r_a!r} (2 expected), after hf::{{x+100}} it gave {r_b!r} (101 expected)")
    except Exception as e:
        problems.append(f"delete/redefine history raised {type(e).__name__}: {e}")
    # list arguments on both paths (current definition / original after the name is gone)
    k3 = KlongInterpreter()
    k3('s::{+/x}')
    w3 = k3['s']
    if w3([1, 2, 3]) != 6:
        problems.append(f"wrapper called with the Python list [1,2,3] gave {w3([1, 2, 3])!r}, the Klong call s([1 2 3]) gives 6")
    del k3['s']
    try:
        r3 = w3([1, 2, 3])
    except Exception as e:
        r3 = f"raised {type(e).__name__}"
    if r3 != 6:
        problems.append(f"after deleting the name the wrapper called with [1,2,3] gave {r3!r} instead of 6 (original function)")
    seen = []
    k4 = KlongInterpreter()
    k4['total'] = lambda x: (seen.append(x), sum(x))[1]
    try:
        r4 = k4['total']([1, 2, 3])
    except Exception as e:
        r4 = f"raised {type(e).__name__}"
    if r4 != 6:
        problems.append(f"a stored Python callable read back and called with [1,2,3] gave {r4!r} (received {seen!r})")
    if problems:
        return dict(confirmed=True, detail='; '.join(problems[:3]))
    return dict(confirmed=False, detail='wrapper behaves as the Klong call form')


def replay_items(inputs, obl):
    from klongpy import KlongInterpreter
    problems = []
    k = KlongInterpreter()
    for name, v in (('a', 1), ('b', 'str'), ('c', [1, 2]), ('d', 2.5)):
        k[name] = v
        if k[name] is not v and k[name] != v:
            problems.append(f"klong[{name!r}] did not read back")
    k['f'] = lambda x: x + 1
    if k('f(1)') != 2:
        problems.append("stored callable not callable from Klong")
    k['f'] = lambda x: x + 2
    try:
        if k('f(1)') != 3:
            problems.append("re-stored callable not used")
    except Exception as e:
        problems.append(f"re-stored callable not callable from Klong: {type(e).__name__}")
    k('h::{a+x}')
    k['a'] = 10
    if k('h(1)') != 11:
        problems.append("assignment through klong[...] not seen by a compiled/cached program")
    del k['a']
    try:
        k['a']
        problems.append("deleted name still readable")
    except KeyError:
        pass
    if problems:
        return dict(confirmed=True, detail='; '.join(problems[:3]))
    return dict(confirmed=False, detail='item access behaves as a dictionary')


def replay_resolve(inputs, obl):
    """a bare KGLambda (as produced by .py imports) passed to a Klong function and applied through the parameter"""
    from klongpy import KlongInterpreter
    from klongpy.types import KGLambda
    problems = []
    log = []
    k = KlongInterpreter()
    k['mono'] = KGLambda(lambda x: (log.append(('mono', x)), x + 100)[1])
    k['duo'] = KGLambda(lambda x, y: (log.append(('duo', x, y)), x * 10 + y)[1])
    for prog, want, calls in (("{x(2)}(mono)", 102, [('mono', 2)]), ("{x(y;z)}(duo;1;2)", 12, [('duo', 1, 2)]),
                              ("{y(x)}(3;mono)", 103, [('mono', 3)]), ("mono(5)", 105, [('mono', 5)])):
        del log[:]
        try:
            got = k(prog)
        except Exception as e:
            got = f"raised {type(e).__name__}: {e}"
        if got != want or log != calls:
            problems.append(f"`{prog}` gave {got!r} with calls {log!r}; expected {want} with calls {calls!r}")
    if problems:
        return dict(confirmed=True, detail='; '.join(problems[:3]))
    return dict(confirmed=False, detail='a callable applied through a function parameter is called once with the arguments')


def replay_arity(inputs, obl):
    """every function body over a small grammar: the arity the parser assigns must be the number of distinct x, y, z in the body,
    and a Python call through klong[name] with that many arguments must be accepted"""
    import itertools
    from klongpy import KlongInterpreter
    k = KlongInterpreter()
    problems = []
    atoms = ['x', 'y', 'z', '1', 'a']
    mon = ['-', '#', ',', '|', '*', '&', '!', '~', '_', '%', '?', '<', '>', '=', '^', '$', ':_', ':#']
    bodies = set()
    for a in atoms:
        bodies.add(a)
        for m in mon:
            bodies.add(m + a)
            bodies.add('1+' + m + a)
            bodies.add('(' + m + a + '),1')
    for a, b in itertools.product(atoms, atoms):
        bodies.add(a + '+' + b)
        bodies.add(a + ',' + '-' + b)
        bodies.add(':[' + a + ';' + b + ';1]')
    for a, b, c in itertools.product(['x', 'y', 'z'], repeat=3):
        bodies.add(f"{a}+-{b}*#{c}")
    # a body that is one call of a named function: variables anywhere in the arguments count, literal lists are just data
    k('nm::{#x}')
    for a in atoms:
        bodies.add(f"nm({a})")
        bodies.add(f"nm({a},[1 2])")
        bodies.add(f"nm([1 2 3],{a})")
        bodies.add(f"nm(-{a})")
    bodies.add('nm([1 2 3])')
    bodies.add('nm("a";[1])')
    for body in sorted(bodies):
        src = '{' + body + '}'
        if '{x}' in body:
            want = len({s for s in ('x', 'y', 'z') if s in body.replace('{x}', '')})
        else:
            want = len({s for s in ('x', 'y', 'z') if s in body})
        try:
            k('fq::' + src)
            got = k._context[next(s for s, _ in k._context if str(s) == 'fq')].arity
        except Exception as e:
            if body.startswith('nm('):
                problems.append(f"{src} cannot be defined: {type(e).__name__}: {str(e)[:60]}")
            continue
        if got != want:
            problems.append(f"{src} has arity {got}, its body mentions {want} of x, y, z")
            if len(problems) >= 4:
                break
    try:
        k('neg::{-x}')
        if k['neg'](5) != -5:
            problems.append("klong['neg'](5) for neg::{-x} did not return -5")
    except Exception as e:
        problems.append(f"klong['neg'](5) for neg::{{-x}} raised {type(e).__name__}: {e}")
    if problems:
        return dict(confirmed=True, detail='; '.join(problems[:4]))
    return dict(confirmed=False, detail=f"{len(bodies)} function bodies: parser arity == number of distinct function variables")
