"""Replay for C20: the real handler closures driven with stub requests (no sockets)."""
import asyncio


class _Rel:
    def __init__(self, q): self.query = q


class _Req:
    def __init__(self, method, q=None, form=None):
        self.method, self.rel_url, self._form = method, _Rel(q or {}), form or {}

    async def post(self): return self._form


def replay_web(inputs, obl):
    if '/ws/' in obl:
        return dict(confirmed=False, detail='no native replay for the websocket functions')
    import klongpy.web.sys_fn_web as w
    from klongpy import KlongInterpreter
    from klongpy.core import KGSym
    problems = []
    routes = {}

    class Router:
        def add_get(self, r, h): routes[('GET', r)] = h
        def add_post(self, r, h): routes[('POST', r)] = h

    class App:
        router = Router()
    real_app, real_runner = w.web.Application, w.web.AppRunner

    class FakeLoop:
        def call_soon_threadsafe(self, f, *a): pass

    class FakeFuture:
        def set_result(self, r): pass
        def result(self): return None
    k = KlongInterpreter()
    k['.system'] = {'ioloop': FakeLoop()}
    k('log::[]')
    for nm in 'abpq':
        k(f'h{nm}::{{log::log,,"{nm}";log::log,,x;:[(x?"boom")~"1";.undefinedfn(1);"{nm}-ok"]}}')
    fn = lambda nm: k._context[KGSym('h' + nm)]
    cf = w.concurrent.futures.Future
    try:
        w.web.Application = lambda: App()
        w.web.AppRunner = lambda app: object()
        w.concurrent.futures.Future = FakeFuture
        # '/a' is registered both as a GET and as a POST route, with different handlers
        w.eval_sys_fn_create_web_server(k, "8080", {'/a': fn('a'), '/b': fn('b')}, {'/p': fn('p'), '/a': fn('q')})
        for (m, r), name in ((('GET', '/a'), 'a'), (('GET', '/b'), 'b'), (('POST', '/p'), 'p'), (('POST', '/a'), 'q')):
            h = routes.get((m, r))
            if h is None:
                problems.append(f"{m} {r} not registered")
                continue
            k('log::[]')
            q = {'k': 'v', 'n': '1'}
            # the other channel carries different parameters: a GET handler sees exactly the query, a POST handler exactly the form
            other = {'page': '2'}
            resp = asyncio.run(h(_Req(m, q=q if m == 'GET' else other, form=q if m == 'POST' else other)))
            log = list(k('log'))
            if len(log) != 2 or log[0] != name or log[1] != q:
                problems.append(f"{m} {r} (query {q if m == 'GET' else other}, form {q if m == 'POST' else other}): handler log {log}, expected exactly one call of handler {name!r} with {q}")
            if resp.status != 200 or resp.text != f"{name}-ok":
                problems.append(f"{m} {r}: response {resp.status} {resp.text!r}")
            resp = asyncio.run(h(_Req(m, q={'boom': '1'}, form={'boom': '1'})))
            if resp.status != 400:
                problems.append(f"{m} {r}: a failing handler gave status {resp.status}")
            k(f'h{name}::{{x;"redefined"}}')
            resp = asyncio.run(h(_Req(m, q=q, form=q)))
            if resp.text != 'redefined':
                problems.append(f"{m} {r}: handler redefinition between requests not followed ({resp.text!r})")
    except Exception as e:
        problems.append(f"harness: {type(e).__name__}: {e}")
    finally:
        w.web.Application, w.web.AppRunner = real_app, real_runner
        w.concurrent.futures.Future = cf
    if problems:
        return dict(confirmed=True, detail='; '.join(problems[:3]))
    return dict(confirmed=False, detail='every route reached its own handler once with the request parameters')


def ws_message_kinds():
    """the real path of a websocket message after decoding: klong['.ws.m'](connection, message) - for every JSON kind the handler body
    must run exactly once (-> list of (kind, ok, detail))"""
    import json
    import warnings
    warnings.simplefilter('ignore')
    from klongpy import KlongInterpreter
    out = []
    kinds = [('null', 'null'), ('true', 'true'), ('false', 'false'), ('zero', '0'), ('int', '7'), ('real', '1.5'), ('empty-string', '""'),
             ('string', '"s"'), ('empty-list', '[]'), ('list', '[1,2]'), ('empty-object', '{}'), ('object', '{"a":1}'), ('nested', '[null,{"b":[]}]')]
    for name, text in kinds:
        k = KlongInterpreter()
        k('cnt::0')
        k('.ws.m::{cnt::cnt+1;0}')
        k('hh::{x;y;cnt::cnt+1;0}')
        k['.ws.m'] = k['hh'].fn if hasattr(k['hh'], 'fn') else k['hh']
        msg = json.loads(text)
        try:
            h = k['.ws.m']
            h('conn', msg)
            n = k('cnt')
            ok = n == 1
            detail = f"handler body ran {n} time(s) for the message {text}"
        except Exception as e:
            ok, detail = False, f"message {text}: handler call raised {type(e).__name__}: {str(e)[:80]}"
        out.append((name, ok, detail))
    return out


def replay_webc(inputs, obl):
    """.web(...) then .webc(h) from a Klong program: .webc returns 1 and the port stops answering; a second .webc returns 0"""
    import socket
    import time
    import urllib.request
    from klongpy.repl import create_repl
    k, loops = create_repl()
    s = socket.socket()
    s.bind(("127.0.0.1", 0))
    port = s.getsockname()[1]
    s.close()
    problems = []
    try:
        k('.py("klongpy.web")')
        k('hi::{x;"hello"}')
        k('g:::{};g,"/hi",,hi;p:::{}')
        k(f'h::.web("127.0.0.1:{port}";g;p)')
        ok = False
        for _ in range(30):
            try:
                ok = urllib.request.urlopen(f'http://127.0.0.1:{port}/hi', timeout=2).read() == b'hello'
                break
            except Exception:
                time.sleep(0.1)
        if not ok:
            return dict(confirmed=False, detail='server did not come up')
        r1 = k('.webc(h)')
        time.sleep(0.5)
        try:
            urllib.request.urlopen(f'http://127.0.0.1:{port}/hi', timeout=2).read()
            answers = True
        except Exception:
            answers = False
        if r1 != 1:
            problems.append(f".webc(h) returned {r1!r} for a live server (1 expected)")
        if answers:
            problems.append("the port still answers after .webc(h)")
        r2 = k('.webc(h)')
        if r2 != 0:
            problems.append(f"a second .webc(h) returned {r2!r} (0 expected)")
    except Exception as e:
        problems.append(f"raised {type(e).__name__}: {str(e)[:80]}")
    if problems:
        return dict(confirmed=True, detail='; '.join(problems))
    return dict(confirmed=False, detail='.webc stops a live server once and the port stops answering')


def replay_listen_kinds(inputs, obl):
    """one websocket frame of every JSON kind through the real NetworkClient._listen (real io loop and klong loop, the socket replaced
    by an object whose recv() yields the frame): the on_message callback gets the decoded value exactly once and the .ws.m handler
    body runs exactly once (JSON null and .ws.m: the recorded known finding - only on_message is checked for it)"""
    import asyncio
    import json
    import warnings
    warnings.simplefilter('ignore')
    from klongpy.repl import create_repl, cleanup_repl
    from klongpy.ws.sys_fn_ws import NetworkClient
    kinds = ['null', 'true', 'false', '0', '0.0', '7', '1.5', '""', '"s"', '[]', '[1,2]', '{}', '{"a":1}', '[null,{"b":[]}]']
    k, loops = create_repl()
    io_loop, klong_loop = loops[0], loops[3]
    problems = []
    try:
        import websockets.exceptions          # a live session has it loaded by websockets.connect / serve
        k('cnt::0')
        k('.ws.m::{x;y;cnt::cnt+1;0}')

        class WS:
            def __init__(self, frame): self.frame = frame
            async def recv(self): return self.frame
        for text in kinds:
            got = []

            async def on_message(client, msg):
                got.append(msg)
            c = NetworkClient(io_loop, klong_loop, k, None)
            c.websocket = WS(text)
            k('cnt::0')
            try:
                asyncio.run_coroutine_threadsafe(c._listen(on_message), io_loop).result(10)
            except Exception as e:
                problems.append(f"frame {text}: _listen raised {type(e).__name__}: {e}")
                continue
            want = json.loads(text)
            if len(got) != 1 or got[0] != want or type(got[0]) is not type(want):
                problems.append(f"frame {text}: on_message was called {len(got)} time(s) with {got!r}, expected once with {want!r}")
            n = k('cnt')
            if text != 'null' and n != 1:
                problems.append(f"frame {text}: the .ws.m handler body ran {n} time(s), expected once")
        # a handler that fails on one message: the failure is that message's; the next frame is still handled
        k('.ws.m::{x;:[y~"boom";.undefinedfn(1);0];cnt::cnt+1;0}')
        k('cnt::0')
        c = NetworkClient(io_loop, klong_loop, k, None)
        escaped = []
        for text in ('"boom"', '"fine"'):
            c.websocket = WS(text)
            try:
                asyncio.run_coroutine_threadsafe(c._listen(None), io_loop).result(10)
            except Exception as e:
                escaped.append(f"{type(e).__name__}")
        if escaped:
            problems.append(f"frames \"boom\" (handler fails) then \"fine\": {escaped[0]} escaped _listen - in _run that ends the connection loop and "
                            f"every later message is lost")
        elif k('cnt') != 1:
            problems.append(f"frames \"boom\" then \"fine\": the handler body completed {k('cnt')} time(s), expected once (for \"fine\")")
    finally:
        cleanup_repl(loops)
    if problems:
        return dict(confirmed=True, detail='; '.join(problems[:4]))
    return dict(confirmed=False, detail=f"{len(kinds)} JSON kinds of frame: each reached on_message and .ws.m exactly once; a failing handler is contained")


def ws_send_kinds():
    """a value sent through a websocket connection arrives as its JSON encoding: the real encode_message on the kinds of value a Klong
    program produces - literals AND computed values (NumPy scalars), arrays, nested lists, strings, dictionaries (-> list of (kind, ok, detail))"""
    import json
    import warnings
    warnings.simplefilter('ignore')
    from klongpy import KlongInterpreter
    from klongpy.ws.sys_fn_ws import encode_message
    k = KlongInterpreter()
    cases = [('literal-int', '7', 7), ('computed-int', '1+2', 3), ('sum-of-list', '+/[1 2 3]', 6), ('list-member', '[4 5 6]@1', 5),
             ('literal-real', '2.5', 2.5), ('computed-real', '1.5+1', 2.5), ('comparison', '3>2', 1), ('int-list', '[1 2 3]', [1, 2, 3]),
             ('computed-list', '1+[1 2]', [2, 3]), ('nested-list', '[1 [2 3] "a"]', [1, [2, 3], 'a']), ('string', '"hi"', 'hi'),
             ('dictionary', ':{["a" 1]}', {'a': 1}), ('dictionary-with-computed-value', 'd:::{};d,"n",,1+2;d', {'n': 3}),
             ('list-of-computed', '(1+1),(2+2)', [2, 4]), ('dictionary-with-keys-of-two-kinds', ':{[1 "one"] ["name" "x"]}', {'1': 'one', 'name': 'x'})]
    out = []
    for name, src, want in cases:
        try:
            v = k(src)
            got = json.loads(encode_message(v))
            ok = got == want and type(got) is type(want)
            out.append((name, ok, f"{src} is sent as {json.dumps(got)}" + ('' if ok else f", expected {json.dumps(want)}")))
        except Exception as e:
            out.append((name, False, f"{src}: encode_message raised {type(e).__name__}: {str(e)[:80]} - nothing is sent"))
    return out
