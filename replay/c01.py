"""Replay for C01: verb applications on literal operands against the reference sentences."""


def replay_verbs(inputs, obl):
    sel = {'eval_dyad_take': '#', 'eval_dyad_drop': '_', 'eval_monad_first': '*', 'eval_monad_reverse': '|', 'eval_dyad_rotate': ':+',
           'eval_dyad_split': ':#', 'finditer': '?'}
    fn = obl.split('::')[1].split('#')[0].split('[')[0] if '::' in obl else ''
    tok = sel.get(fn)
    import numpy as np
    from klongpy import KlongInterpreter
    k = KlongInterpreter()
    problems = []

    def eq(a, b):
        try:
            a = a.tolist() if hasattr(a, 'tolist') else a
            return a == b
        except Exception:
            return False
    cases = [
        ('3#[1 2]', [1, 2, 1]), ('(-3)#[1 2]', [2, 1, 2]), ('5#[1 2 3]', [1, 2, 3, 1, 2]), ('(-5)#[1 2 3]', [2, 3, 1, 2, 3]), ('0#[1 2]', []), ('2#[]', []),
        ('7#[1 2 3]', [1, 2, 3, 1, 2, 3, 1]), ('(-7)#[1 2 3]', [3, 1, 2, 3, 1, 2, 3]), ('2#[1 2 3]', [1, 2]), ('(-2)#[1 2 3]', [2, 3]),
        ('2_[1 2 3]', [3]), ('(-2)_[1 2 3]', [1]), ('9_[1 2 3]', []), ('(-9)_[1 2 3]', []), ('0_[1 2]', [1, 2]),
        ('*[7 8 9]', 7), ('*[]', []), ('*5', 5), ('|[1 2 3]', [3, 2, 1]), ('|[]', []), ('|5', 5), ('|"abc"', 'cba'),
        ('1:+[1 2 3 4]', [4, 1, 2, 3]), ('(-1):+[1 2 3 4]', [2, 3, 4, 1]), ('1:+[[1 2] [3 4] [5 6]]', [[5, 6], [1, 2], [3, 4]]), ('5:+[1 2 3]', [2, 3, 1]),
        ('2:#[1 2 3 4]', [[1, 2], [3, 4]]), ('2:#[1 2 3 4 5]', [[1, 2], [3, 4], [5]]), ('4:#[1 2 3 4 5]', [[1, 2, 3, 4], [5]]), ('3:#[1 2 3 4]', [[1, 2, 3], [4]]),
        ('9:#[1 2]', [[1, 2]]), ('"xyyyyz"?"yy"', [1, 2, 3]), ('""?""', [0]), ('"hello"?"l"', [2, 3]), ('"aaa"?"aa"', [0, 1]), ('"abc"?"d"', []),
    ]
    def uses(src):
        if tok is None:
            return True
        if tok in ('#', '_'):
            return (')' + tok in src or src[0].isdigit() and src[1] == tok) and ':' + tok not in src
        if tok in ('*', '|'):
            return src.startswith(tok)
        return tok in src
    for src, want in cases:
        if not uses(src):
            continue
        try:
            got = k(src)
        except Exception as e:
            problems.append(f"{src} raised {type(e).__name__}: {e} (reference: {want})")
            continue
        g = got.tolist() if hasattr(got, 'tolist') else got
        if isinstance(g, list):
            g = [x.tolist() if hasattr(x, 'tolist') else x for x in g]
        if g != want:
            problems.append(f"{src} -> {g!r}, the reference prescribes {want!r}")
    if problems:
        return dict(confirmed=True, detail='; '.join(problems[:4]))
    return dict(confirmed=False, detail='scripted verb applications agree with the reference')
