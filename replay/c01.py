"""Replay for C01: verb applications on literal operands against the reference sentences."""


def replay_verbs(inputs, obl):
    sel = {'eval_dyad_take': '#', 'eval_dyad_drop': '_', 'eval_monad_first': '*', 'eval_monad_reverse': '|', 'eval_dyad_rotate': ':+',
           'eval_dyad_split': ':#', 'finditer': '?', '_e_dyad_integer_divide': ':%', 'eval_dyad_cut': ':_', 'eval_dyad_at_index': '@'}
    fn = obl.split('::')[1].split('#')[0].split('[')[0] if '::' in obl else ''
    tok = sel.get(fn)
    import numpy as np
    from klongpy import KlongInterpreter
    k = KlongInterpreter()
    problems = []

    def eq(a, b):
        try:
            a = a.tolist() if hasattr(a, 'tolist') else a
            return a == b
        except Exception:
            return False
    cases = [
        ('3#[1 2]', [1, 2, 1]), ('(-3)#[1 2]', [2, 1, 2]), ('5#[1 2 3]', [1, 2, 3, 1, 2]), ('(-5)#[1 2 3]', [2, 3, 1, 2, 3]), ('0#[1 2]', []), ('2#[]', []),
        ('7#[1 2 3]', [1, 2, 3, 1, 2, 3, 1]), ('(-7)#[1 2 3]', [3, 1, 2, 3, 1, 2, 3]), ('2#[1 2 3]', [1, 2]), ('(-2)#[1 2 3]', [2, 3]),
        ('2_[1 2 3]', [3]), ('(-2)_[1 2 3]', [1]), ('9_[1 2 3]', []), ('(-9)_[1 2 3]', []), ('0_[1 2]', [1, 2]),
        ('*[7 8 9]', 7), ('*[]', []), ('*5', 5), ('|[1 2 3]', [3, 2, 1]), ('|[]', []), ('|5', 5), ('|"abc"', 'cba'),
        ('1:+[1 2 3 4]', [4, 1, 2, 3]), ('(-1):+[1 2 3 4]', [2, 3, 4, 1]), ('1:+[[1 2] [3 4] [5 6]]', [[5, 6], [1, 2], [3, 4]]), ('5:+[1 2 3]', [2, 3, 1]),
        ('2:#[1 2 3 4]', [[1, 2], [3, 4]]), ('2:#[1 2 3 4 5]', [[1, 2], [3, 4], [5]]), ('4:#[1 2 3 4 5]', [[1, 2, 3, 4], [5]]), ('3:#[1 2 3 4]', [[1, 2, 3], [4]]),
        ('9:#[1 2]', [[1, 2]]), ('"xyyyyz"?"yy"', [1, 2, 3]), ('""?""', [0]), ('"hello"?"l"', [2, 3]), ('"aaa"?"aa"', [0, 1]), ('"abc"?"d"', []),
    ]
    def uses(src):
        if tok is None:
            return True
        if tok in ('#', '_'):
            return (')' + tok in src or src[0].isdigit() and src[1] == tok) and ':' + tok not in src
        if tok in ('*', '|'):
            return src.startswith(tok)
        return tok in src
    for src, want in cases:
        if not uses(src):
            continue
        try:
            got = k(src)
        except Exception as e:
            problems.append(f"{src} raised {type(e).__name__}: {e} (reference: {want})")
            continue
        g = got.tolist() if hasattr(got, 'tolist') else got
        if isinstance(g, list):
            g = [x.tolist() if hasattr(x, 'tolist') else x for x in g]
        if g != want:
            problems.append(f"{src} -> {g!r}, the reference prescribes {want!r}")
    # grids against independent oracles written from the reference sentences (plus the solver's own count/size when it gave one)
    def lit(v, inside=False):
        if isinstance(v, list):
            return '[' + ' '.join(lit(x, True) for x in v) + ']'
        return f"({v})" if isinstance(v, int) and v < 0 and not inside else str(v)

    def norm(g):
        g = g.tolist() if hasattr(g, 'tolist') else g
        if isinstance(g, list):
            g = [norm(x) for x in g]
        return g
    extra = [v for v in inputs.values() if isinstance(v, int) and -50 <= v <= 50] if isinstance(inputs, dict) else []
    counts = sorted(set(list(range(-9, 10)) + extra))
    grid = []
    for n in range(0, 6):
        b = list(range(1, n + 1))
        for a in counts:
            if tok in (None, '#') and b:
                grid.append((f"{lit(a)}#{lit(b)}", [b[i % n] for i in range(a)] if a >= 0 else [b[(i + a) % n] for i in range(-a)]))
            if tok in (None, '_'):
                grid.append((f"{lit(a)}_{lit(b)}", b[a:] if a >= 0 else (b[:n + a] if -a < n else [])))
            if tok in (None, ':+') and n > 0:
                r = [None] * n
                for i in range(n):
                    r[(i + a) % n] = b[i]
                grid.append((f"{lit(a)}:+{lit(b)}", r))
            if tok in (None, ':#') and a > 0 and n > 0:
                grid.append((f"{lit(a)}:#{lit(b)}", [b[j:j + a] for j in range(0, n, a)]))
    if tok in (None, ':#'):
        for rows in (2, 3, 4, 6):
            m = [[10 * r + c for c in range(2)] for r in range(rows)]
            for sz in range(1, rows + 1):
                grid.append((f"{sz}:#{lit(m)}", [m[j:j + sz] for j in range(0, rows, sz)]))
        for sizes in ([2, 3], [1, 2, 3], [3, 1], [2, 2], [1, 1, 4]):
            for n in range(1, 12):
                b = list(range(n))
                want, q, p = [], 0, 0
                while q < n:
                    want.append(b[q:q + sizes[p]])
                    q += sizes[p]
                    p = (p + 1) % len(sizes)
                grid.append((f"{lit(sizes)}:#{lit(b)}", want))
    if tok in (None, ':_'):
        for n in range(1, 7):
            b = list(range(1, n + 1))
            for pts in [[p] for p in range(0, n + 1)] + [[p, q] for p in range(0, n + 1) for q in range(p, n + 1)]:
                want, prev = [], 0
                for p in pts:
                    want.append(b[prev:p])
                    prev = p
                want.append(b[prev:])
                grid.append((f"{lit(pts) if len(pts) > 1 else lit(pts[0])}:_{lit(b)}", want))
    if tok in (None, '@'):
        for n in range(1, 6):
            b = [10 * v for v in range(1, n + 1)]
            for i in range(n):
                grid.append((f"{lit(b)}@{i}", b[i]))
            for idx in ([0], [n - 1, 0], [0, 0, n - 1], list(range(n))[::-1]):
                grid.append((f"{lit(b)}@{lit(idx)}", [b[i] for i in idx]))
    if tok is None or 'integer_divide' in obl:
        for x in counts:
            for y in counts:
                if y != 0:
                    q = abs(x) // abs(y)
                    grid.append((f"{lit(x)}:%{lit(y)}", q if (x >= 0) == (y > 0) else -q))
        # the verb is atomic: through lists and nesting, with atom-to-list extension - the integer part of each quotient (toward zero)
        tq = lambda x, y: (abs(x) // abs(y)) * (1 if (x >= 0) == (y > 0) else -1)
        for xs in ([7, -7], [-9, 9, 4], [7, -7, 0, 1]):
            for y in (2, -2, 3):
                grid.append((f"{lit(xs)}:%{lit(y)}", [tq(x, y) for x in xs]))
                grid.append((f"{lit(y * 5)}:%{lit(xs if 0 not in xs else [7, -7])}", [tq(y * 5, x) for x in (xs if 0 not in xs else [7, -7])]))
        grid.append(("[7 [-7 9]]:%2", [3, [-3, 4]]))
        grid.append(("[[7 -7] [-9 9]]:%[[2 2] [2 -2]]", [[3, -3], [-4, -4]]))
    if tok is None or 'remainder' in obl:
        # Remainder keeps the sign of the dividend, exactly - also beyond 2**53, where a detour through reals loses digits
        big = [9007199254740993, 1000000000000000007, -1000000000000000011, 4611686018427387905, 2 ** 53 + 1, -(2 ** 53) - 1]
        for x in counts + big:
            for y in [v for v in counts if v != 0] + [3, 9, 13, 5, -7]:
                r = abs(x) % abs(y)
                grid.append((f"{lit(x)}!{lit(y)}", r if x >= 0 else -r))
    if tok is None or 'reshape' in obl:
        # the shape operand is data of the caller: a second use of the same shape object sees the shape that was written
        k('shp::[2 -1]')
        seq = [('shp:^!10', [[0, 1, 2, 3, 4], [5, 6, 7, 8, 9]]), ('shp:^!8', [[0, 1, 2, 3], [4, 5, 6, 7]]), ('shp', [2, -1]),
               ('rf::{[-1 2]:^x};rf(!10)', [[0, 1], [2, 3], [4, 5], [6, 7], [8, 9]]), ('rf(!6)', [[0, 1], [2, 3], [4, 5]])]
        grid.extend(seq)
    if tok is None or any(w in obl for w in ('range', 'group', 'first')):
        # Range: the distinct members in order of FIRST APPEARANCE; Group: the positions of each distinct member, groups in order of
        # first appearance (reference example: ="hello foo" --> [[0] [1] [2 3] [4 7 8] [5] [6]]); First of a string is a CHARACTER
        import itertools as _it
        seqs = [[3, 1, 3, 2], [2, 2, 1], [5], [1, 2, 3], [9, 8, 9, 8, 7], [0, -1, 0]]
        strs = ['hello', 'hello foo', 'abacabc', 'zyx', 'a', 'mississippi']
        for b in seqs:
            uniq = list(dict.fromkeys(b))
            grid.append((f"?{lit(b)}", uniq))
            grid.append((f"={lit(b)}", [[i for i, v in enumerate(b) if v == u] for u in uniq]))
            grid.append((f"*{lit(b)}", b[0]))
        for t in strs:
            uniq = list(dict.fromkeys(t))
            grid.append((f'?"{t}"', ''.join(uniq)))
            grid.append((f'="{t}"', [[i for i, v in enumerate(t) if v == u] for u in uniq]))
            grid.append((f'#*"{t}"', ord(t[0])))            # the size of a CHARACTER is its code; of a one-character string it is 1
    for src, want in grid:
        try:
            got = norm(k(src))
        except Exception as e:
            problems.append(f"{src} raised {type(e).__name__}: {e} (reference: {want})")
            continue
        if got != want:
            problems.append(f"{src} -> {got!r}, the reference prescribes {want!r}")
        if len(problems) > 3:
            break
    if problems:
        return dict(confirmed=True, detail='; '.join(problems[:4]))
    return dict(confirmed=False, detail=f"scripted verb applications and {len(grid)} grid cases agree with the reference")


def match_bounded():
    """Match (~) against the structural definition on every pair of values from a closed universe: atoms (ints, reals, a character, a
    symbol, strings) and lists of length <= 3 of atoms and of lists of length <= 2 (nesting depth 2).  -> (n_pairs, first problems)"""
    import itertools
    import warnings
    warnings.simplefilter('ignore')
    from klongpy import KlongInterpreter
    k = KlongInterpreter()
    atoms = ['1', '2', '0', '1.5', '0ca', ':s', '"a"', '"ab"', '""']
    small = ['[]'] + ['[' + ' '.join(c) + ']' for n in (1, 2) for c in itertools.product(['1', '2', '"a"'], repeat=n)]
    lists = list(small)
    for n in (1, 2, 3):
        for c in itertools.product(['1', '2', '[1]', '[1 2]', '[]', '"a"'], repeat=n):
            lists.append('[' + ' '.join(c) + ']')
    universe = list(dict.fromkeys(atoms + lists))

    def parse(t):
        v = k(t)
        return v

    def struct(v):
        import numpy as np
        if isinstance(v, np.ndarray):
            return ('list', tuple(struct(x) for x in v.tolist())) if v.dtype == object else ('list', tuple(struct(x) for x in v.tolist()))
        if isinstance(v, list):
            return ('list', tuple(struct(x) for x in v))
        if isinstance(v, str):
            return (type(v).__name__, str(v))
        if isinstance(v, (int, float)) or hasattr(v, 'item'):
            return ('num', float(v))
        return ('other', repr(v))

    def spec(a, b):
        if a[0] == 'list' or b[0] == 'list':
            return a[0] == b[0] == 'list' and len(a[1]) == len(b[1]) and all(spec(x, y) for x, y in zip(a[1], b[1]))
        if a[0] == 'num' and b[0] == 'num':
            return abs(a[1] - b[1]) <= 1e-9
        if a[0] == 'num' or b[0] == 'num':
            return False
        return a[1] == b[1] if (a[0] == b[0] or {a[0], b[0]} <= {'str', 'KGChar'}) else False
    vals = {t: struct(parse(t)) for t in universe}
    problems, n = [], 0
    for x, y in itertools.product(universe, repeat=2):
        n += 1
        try:
            got = int(k(f"{x}~{y}"))
        except Exception as e:
            got = f"raised {type(e).__name__}"
        want = 1 if spec(vals[x], vals[y]) else 0
        if got != want:
            # strings vs characters / symbols: the reference compares them with Equal; only count clear structural disagreements
            if vals[x][0] == 'list' or vals[y][0] == 'list' or (vals[x][0] == 'num' and vals[y][0] == 'num'):
                problems.append(f"{x}~{y} -> {got}, the structural definition gives {want}")
                if len(problems) >= 3:
                    break
    return n, problems
