"""Replay for C16: operation sequences on the real KeyValueStorage / FileCache in a scratch directory,
checked against a Python dict model and the accounting invariant after every operation."""
import os
import shutil
import tempfile


def _acct_ok(cache):
    tot = 0
    for k, (w, b, fut) in cache.file_futures.items():
        if not w and fut.done() and fut.exception() is None:
            tot += b
    return cache.current_memory_usage == tot and 0 <= cache.current_memory_usage <= cache.max_memory


def replay_kvs_generic(inputs, obl):
    from klongpy.db.sys_fn_kvs import KeyValueStorage
    from klongpy.core import KLONG_UNDEFINED
    problems = []
    scripts = [
        [('set', 'a/b', 1), ('get', 'a'), ('set', 'a', 2), ('get', 'a/b')],
        [('get', 'missing'), ('set', 'k', 'v'), ('get', 'k'), ('get', 'missing')],
        [('set', 'k', 'v1'), ('set', 'k', 'v2'), ('get', 'k'), ('reopen',), ('get', 'k'), ('unload', 'k'), ('get', 'k')],
        [('set', 'x', 'a' * 40), ('set', 'y', 'b' * 40), ('get', 'x'), ('set', 'z', 'c' * 40), ('get', 'y'), ('get', 'x'), ('get', 'z')],
        [('set', 'big', 'q' * 500)],
        [('set', 'k', 'small'), ('set', 'k', 'q' * 500), ('get', 'k'), ('set', 'k', 'tiny'), ('get', 'k'), ('set', 'o', 1), ('get', 'o')],
        # keys are file names: a key that looks like another key's temporary / backup file is a key of its own
        [('set', 'prices.tmp', 'draft'), ('set', 'prices', 'final'), ('get', 'prices.tmp'), ('get', 'prices'), ('unload', 'prices.tmp'), ('get', 'prices.tmp'),
         ('reopen',), ('get', 'prices.tmp'), ('set', 'eu/p.tmp', 1), ('set', 'eu/p', 2), ('get', 'eu/p.tmp'), ('set', 'x.bak', 3), ('set', 'x', 4), ('get', 'x.bak'),
         ('set', 'y~', 5), ('set', 'y', 6), ('get', 'y~'), ('set', '.z.swp', 7), ('set', 'z', 8), ('get', '.z.swp')],
        # never-set keys that cannot name a file: below an existing flat key, or longer than a file name may be
        [('set', 'prices', 1), ('get', 'prices/2024'), ('get', 'prices/2024/q1'), ('get', 'n' * 300), ('reopen',), ('get', 'prices/2024'), ('get', 'prices')],
    ]
    # overwrite sweeps: the new value's size passes through 'exactly fits' / 'one byte over' for every small limit
    for L in range(1, 75, 1):
        scripts.append([('set', 'k', 'x' * 10), ('set', 'j', 'y' * 10), ('set', 'k', 'z' * L), ('set', 'm', 'w' * 30), ('get', 'k'), ('get', 'm'), ('get', 'j')])
    for max_mem in (70, 100, 120, 150, 10 ** 6):
        for script in scripts:
            d = tempfile.mkdtemp(prefix='c16_replay_')
            model = {}
            try:
                kv = KeyValueStorage(d, max_memory=max_mem)
                for op in script:
                    what = None
                    try:
                        if op[0] == 'set':
                            kv.set(op[1], op[2])
                            model[op[1]] = op[2]
                        elif op[0] == 'get':
                            got = kv.get(op[1])
                            want = model.get(op[1], KLONG_UNDEFINED)
                            if got is not want and got != want:
                                what = f"get({op[1]!r}) returned {got!r}, expected {want!r}"
                        elif op[0] == 'reopen':
                            kv = KeyValueStorage(d, max_memory=max_mem)
                        elif op[0] == 'unload':
                            kv.cache.unload_file(op[1])
                    except MemoryError:
                        pass          # value larger than the limit: documented refusal
                    except Exception as e:
                        if op[0] == 'get' and op[1] not in model:
                            what = f"get({op[1]!r}) of a never-set key raised {type(e).__name__} instead of reading :undefined"
                        elif op[0] == 'set' and any(k.startswith(op[1] + '/') or op[1].startswith(k + '/') for k in model):
                            pass      # a key cannot be both a value and a prefix of another key in a one-file-per-key store
                        else:
                            what = f"{op} raised {type(e).__name__}: {e}"
                    if not _acct_ok(kv.cache):
                        what = (what + '; ' if what else '') + f"after {op}: current_memory_usage={kv.cache.current_memory_usage} " \
                            f"but the counted entries sum to something else or the limit {max_mem} is exceeded"
                    if what:
                        problems.append(f"[max_memory={max_mem}] {script[:script.index(op) + 1]}: {what}")
                        break
            finally:
                shutil.rmtree(d, ignore_errors=True)
    if problems:
        return dict(confirmed=True, detail=' | '.join(problems[:3]))
    return dict(confirmed=False, detail="all scripted histories agree with the dict model and the accounting invariant")


replay_kvs_generic.timeout_s = 120


def replay_table_merge(inputs, obl):
    """the documented merge through the real table cache: stored rows win on equal index, new index values are added, the result is
    sorted and has no duplicate index - for stored/new tables with equal, reversed, interleaved and duplicated index values"""
    import tempfile, shutil, os
    import pandas as pd
    from klongpy.db.df_cache import PandasDataFrameCache
    problems = []
    shapes = []
    for n in (1, 2, 5, 17, 40, 130):
        shapes.append((list(range(n)), list(range(n - 1, -1, -1))))                  # same index values, reversed order
        shapes.append((list(range(0, 2 * n, 2)), list(range(2 * n - 1, -1, -1))))    # interleaved, reversed
        shapes.append((list(range(n)), [n // 2] * 3 + list(range(n, n + 3)) + [n // 2]))   # duplicates inside the new table
    for old_idx, new_idx in shapes:
        d = tempfile.mkdtemp(prefix='pyvc_tbl_')
        try:
            c = PandasDataFrameCache(root_path=d)
            f = 't.pkl'
            old = pd.DataFrame({'v': [f"old{i}" for i in old_idx]}, index=old_idx)
            new = pd.DataFrame({'v': [f"new{j}@{p}" for p, j in enumerate(new_idx)]}, index=new_idx)
            c.update(f, old)
            r = c.update(f, new)
            again = c.get_dataframe(f) if hasattr(c, 'get_dataframe') else r
            for frame, what in ((r, 'returned table'), (again, 'table read back')):
                idx = list(frame.index)
                if idx != sorted(idx) or len(set(idx)) != len(idx):
                    problems.append(f"{what} is not sorted / has duplicate index: {idx[:12]}")
                    break
                if set(idx) != set(old_idx) | set(new_idx):
                    problems.append(f"{what} has index values {sorted(set(idx) ^ (set(old_idx) | set(new_idx)))[:6]} too many/few")
                    break
                lost = [i for i in old_idx if frame.loc[i, 'v'] != f"old{i}"]
                if lost:
                    problems.append(f"{what}: stored rows {lost[:6]} were replaced by rows of the new table (stored index {old_idx[:6]}.., new index {new_idx[:6]}..)")
                    break
                firsts = {}
                for p, j in enumerate(new_idx):
                    firsts.setdefault(j, f"new{j}@{p}")
                wrong = [j for j in firsts if j not in old_idx and frame.loc[j, 'v'] != firsts[j]]
                if wrong:
                    problems.append(f"{what}: for new index {wrong[:4]} a later duplicate row was kept instead of the first")
                    break
        except Exception as e:
            problems.append(f"merge raised {type(e).__name__}: {e}")
        finally:
            shutil.rmtree(d, ignore_errors=True)
        if problems:
            break
    if problems:
        return dict(confirmed=True, detail='; '.join(problems[:2]))
    return dict(confirmed=False, detail='merge of stored and new tables follows the documented rule on all shapes tried')


def replay_table_ownership(inputs, obl):
    """set, get, change the fetched table locally (add a column; index it; upsert a row), get again: the store must still answer with
    the value of the latest set - through the real TableStorage, with one store object and with a freshly opened one"""
    import tempfile, shutil
    import pandas as pd
    from klongpy.db.sys_fn_kvs import TableStorage
    from klongpy.db.sys_fn_db import Table

    def view(t):
        df = t.get_dataframe()
        return (list(df.columns), list(df.index), [tuple(r) for r in df.itertuples(index=False, name=None)])
    d = tempfile.mkdtemp(prefix='pyvc_own_')
    problems = []
    try:
        ts = TableStorage(d)
        df0 = pd.DataFrame({"s": ["a", "b", "c"], "v": [1.0, 2.0, 3.0]})
        ts.set("k", Table(df0))
        want = view(ts.get("k"))
        edits = [("adds a column", lambda t: t.set("flag", [9, 9, 9])),
                 ("indexes it", lambda t: t.set_index(["s"])),
                 ("indexes it and re-inserts a key", lambda t: (t.set_index(["s"]), t.insert(["a", 77.0]), t.get_dataframe())),
                 ("overwrites a column of its frame", lambda t: t.get_dataframe().__setitem__("v", [0.0, 0.0, 0.0])),
                 ("writes one cell of its frame in place", lambda t: t.get_dataframe().iloc.__setitem__((0, 1), 0.5))]
        for what, edit in edits:
            u = ts.get("k")
            try:
                edit(u)
            except Exception as e:          # the edit itself failing is not this property's business
                continue
            got = view(ts.get("k"))
            if got != want:
                problems.append(f"ts,\"k\",t; u::ts?\"k\"; a reader {what} on u (no set in between); ts?\"k\" now gives {got}, the latest set was {want}")
                break
        if not problems and view(TableStorage(d).get("k")) != want:
            problems.append("a freshly opened store disagrees with the latest set")
    finally:
        shutil.rmtree(d, ignore_errors=True)
    if problems:
        return dict(confirmed=True, detail=problems[0])
    return dict(confirmed=False, detail='a reader changing the table it fetched never reached the store')


def replay_evict_during_pending_write(inputs, obl):
    """history on one cache (limit = two entries): f1=OLD and f0 cached | update(f1, NEW) whose write task is held before it touches the
    disk | update(f2, <limit-sized>) has to evict while that write is pending | get(f1) overlaps the pending write | the write is let go.
    Afterwards get(f1) must return NEW, the accounting must equal the entries held and stay within the limit."""
    import os, shutil, tempfile, threading
    from klongpy.db.file_cache import FileCache
    d = tempfile.mkdtemp(prefix='pyvc_evict_')
    try:
        OLD, FILL, NEW, BIG = b'old-value', b'filler-00', b'new-value', b'x' * 18
        c = FileCache(max_memory=18, root_path=d)
        gate, entered, held = threading.Event(), threading.Event(), []
        real_write = c._write_file

        def gated(file_name, contents, use_fsync):
            if held and file_name == held[0]:
                entered.set()
                gate.wait(20)
            return real_write(file_name, contents, use_fsync)
        c._write_file = gated
        c.update_file('f1', OLD)
        c.update_file('f0', FILL)
        c.get_file('f1'); c.get_file('f0')
        held.append('f1')
        errs, seen = [], []

        def run(fn):
            def w():
                try:
                    fn()
                except BaseException as e:
                    errs.append(repr(e))
            t = threading.Thread(target=w, daemon=True)
            t.start()
            return t
        ta = run(lambda: c.update_file('f1', NEW))
        if not entered.wait(20):
            return dict(confirmed=False, detail='the write task never started')
        c.update_file('f2', BIG)
        tg = run(lambda: seen.append(c.get_file('f1')))
        tg.join(1.0)
        gate.set()
        ta.join(20); tg.join(20)
        problems = []
        if ta.is_alive() or tg.is_alive():
            problems.append('a call never returned')
        elif errs:
            problems.append(f"a call raised {errs}")
        else:
            got = c.get_file('f1')
            if got != NEW:
                problems.append(f"get(f1) returned {got!r} after update(f1, {NEW!r}) had completed")
            with c.file_futures_lock:
                tot = sum(i[1] for i in c.file_futures.values() if not i[0])
                cur = c.current_memory_usage
                wrong = [(fn, i[1], len(i[2].result())) for fn, i in c.file_futures.items()
                         if not i[0] and i[2].done() and i[2].exception() is None and i[1] != len(i[2].result())]
            if cur != tot or cur < 0 or cur > 18:
                problems.append(f"current_memory_usage={cur}, entries sum to {tot}, limit 18")
            if wrong:
                problems.append(f"entry {wrong[0][0]} is accounted with {wrong[0][1]} bytes but holds {wrong[0][2]}")
        try:
            c.executor.shutdown(wait=False)
        except Exception:
            pass
        if problems:
            return dict(confirmed=True, detail="f1,f0 cached (limit 18 = two entries); update(f1,NEW) with its write held; update(f2, 18 bytes) evicts; "
                                               "get(f1) overlaps; the write completes: " + '; '.join(problems))
        return dict(confirmed=False, detail='eviction during a pending write: the latest set is served, accounting consistent')
    finally:
        shutil.rmtree(d, ignore_errors=True)


def replay_table_missing_keys(inputs, obl):
    """a table key that was never set reads as :undefined - a plain unknown key, a key that is a directory of the store (the prefix of a
    nested key), the empty key - in the same store and after reopening it"""
    import tempfile, shutil
    import pandas as pd
    from klongpy.core import KLONG_UNDEFINED
    from klongpy.db.sys_fn_kvs import TableStorage
    from klongpy.db.sys_fn_db import Table
    d = tempfile.mkdtemp(prefix='pyvc_tmiss_')
    problems = []
    try:
        ts = TableStorage(d)
        ts.set("eu/prices", Table(pd.DataFrame({"v": [1.0, 2.0]})))
        for store, where in ((ts, 'same store'), (TableStorage(d), 'reopened store')):
            for key in ("never-set", "eu", "eu/none"):
                try:
                    r = store.get(key)
                    if r is not KLONG_UNDEFINED:
                        problems.append(f"{where}: get {key!r} (never set) returned {type(r).__name__}")
                except Exception as e:
                    problems.append(f"{where}: after set 'eu/prices', get {key!r} (never set) raised {type(e).__name__}")
    finally:
        shutil.rmtree(d, ignore_errors=True)
    if problems:
        return dict(confirmed=True, detail='; '.join(problems[:3]))
    return dict(confirmed=False, detail='never-set table keys (plain, directory of the store, below a directory) read as :undefined')
