"""Replay for C16: operation sequences on the real KeyValueStorage / FileCache in a scratch directory,
checked against a Python dict model and the accounting invariant after every operation."""
import os
import shutil
import tempfile


def _acct_ok(cache):
    tot = 0
    for k, (w, b, fut) in cache.file_futures.items():
        if not w and fut.done() and fut.exception() is None:
            tot += b
    return cache.current_memory_usage == tot and 0 <= cache.current_memory_usage <= cache.max_memory


def replay_kvs_generic(inputs, obl):
    from klongpy.db.sys_fn_kvs import KeyValueStorage
    from klongpy.core import KLONG_UNDEFINED
    problems = []
    scripts = [
        [('set', 'a/b', 1), ('get', 'a'), ('set', 'a', 2), ('get', 'a/b')],
        [('get', 'missing'), ('set', 'k', 'v'), ('get', 'k'), ('get', 'missing')],
        [('set', 'k', 'v1'), ('set', 'k', 'v2'), ('get', 'k'), ('reopen',), ('get', 'k'), ('unload', 'k'), ('get', 'k')],
        [('set', 'x', 'a' * 40), ('set', 'y', 'b' * 40), ('get', 'x'), ('set', 'z', 'c' * 40), ('get', 'y'), ('get', 'x'), ('get', 'z')],
        [('set', 'big', 'q' * 500)],
    ]
    for max_mem in (70, 150, 10 ** 6):
        for script in scripts:
            d = tempfile.mkdtemp(prefix='c16_replay_')
            model = {}
            try:
                kv = KeyValueStorage(d, max_memory=max_mem)
                for op in script:
                    what = None
                    try:
                        if op[0] == 'set':
                            kv.set(op[1], op[2])
                            model[op[1]] = op[2]
                        elif op[0] == 'get':
                            got = kv.get(op[1])
                            want = model.get(op[1], KLONG_UNDEFINED)
                            if got is not want and got != want:
                                what = f"get({op[1]!r}) returned {got!r}, expected {want!r}"
                        elif op[0] == 'reopen':
                            kv = KeyValueStorage(d, max_memory=max_mem)
                        elif op[0] == 'unload':
                            kv.cache.unload_file(op[1])
                    except MemoryError:
                        pass          # value larger than the limit: documented refusal
                    except Exception as e:
                        if op[0] == 'get' and op[1] not in model:
                            what = f"get({op[1]!r}) of a never-set key raised {type(e).__name__} instead of reading :undefined"
                        elif op[0] == 'set' and any(k.startswith(op[1] + '/') or op[1].startswith(k + '/') for k in model):
                            pass      # a key cannot be both a value and a prefix of another key in a one-file-per-key store
                        else:
                            what = f"{op} raised {type(e).__name__}: {e}"
                    if not _acct_ok(kv.cache):
                        what = (what + '; ' if what else '') + f"after {op}: current_memory_usage={kv.cache.current_memory_usage} " \
                            f"but the counted entries sum to something else or the limit {max_mem} is exceeded"
                    if what:
                        problems.append(f"[max_memory={max_mem}] {script[:script.index(op) + 1]}: {what}")
                        break
            finally:
                shutil.rmtree(d, ignore_errors=True)
    if problems:
        return dict(confirmed=True, detail=' | '.join(problems[:3]))
    return dict(confirmed=False, detail="all scripted histories agree with the dict model and the accounting invariant")


replay_kvs_generic.timeout_s = 120
