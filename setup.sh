#!/bin/bash
# Build the overlay venv (python 3.12 of /venv + z3-solver/cvc5/jsonschema from the offline wheelhouse).
set -e
cd "$(dirname "$0")"
if [ ! -x .venv/bin/python ] || ! .venv/bin/python -c "import z3, numpy" 2>/dev/null; then
  rm -rf .venv
  /venv/bin/python -m venv .venv
  PIP_NO_INDEX=1 .venv/bin/pip install -q --no-index --find-links /opt/veriftools/wheels z3-solver cvc5 jsonschema >/dev/null
  echo "import site; site.addsitedir('/venv/lib/python3.12/site-packages')" > .venv/lib/python3.12/site-packages/zz_repo_deps.pth
fi
.venv/bin/python -c "import z3; print('pyvc venv ready, z3', z3.get_version_string())"
