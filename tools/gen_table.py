#!/usr/bin/env python3
"""prints the 'as built' table of DESIGN.md section 8.2 from the evidence files of the last run"""
import json, os
V = os.path.dirname(os.path.dirname(os.path.abspath(__file__)))
print("| id | functions under contract | obligations | back ends | quick wall | bounded stand-ins (never counted as proved) |")
print("|---|---|---|---|---|---|")
for i in range(1, 21):
    pid = f"C{i:02d}"
    p = os.path.join(V, 'evidence', pid + '.json')
    if not os.path.exists(p):
        print(f"| {pid} | - | - | - | - | not applicable (section 5) |")
        continue
    d = json.load(open(p)); c = d['coverage']
    be = ', '.join(f"{k} {v}" for k, v in sorted(c['by_backend'].items(), key=lambda kv: -kv[1]))
    bs = c.get('bounded_standins') or []
    def short(b):
        n = (b.get('check') or b.get('name') or '?') if isinstance(b, dict) else str(b)
        if n.startswith('klongpy/'):
            n = n.split('::')[1] if '::' in n else n
        else:
            n = n.split('::')[0]
        return n.replace('(bounded)', '')
    names = sorted({short(b) for b in bs})
    mk = c.get('discharged_modulo_known_findings', 0)
    print(f"| {pid} | {len(c['functions_under_contract'])} | {c['obligations']}" + (f" ({mk} modulo known findings)" if mk else '') + f" | {be} | {d['wall_s']:.0f} s | {', '.join(names)[:160] or '-'} |")
