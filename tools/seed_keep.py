#!/usr/bin/env python3
"""copy a confirmed seeded change into /verif/seeded/<ID>-<k>/ (patch.diff, demo.py, meta.json with my own confirmation + check outcome)"""
import json, os, shutil, sys
VERIF = os.path.dirname(os.path.dirname(os.path.abspath(__file__)))
pid, d = sys.argv[1], os.path.abspath(sys.argv[2])
label = sys.argv[3] if len(sys.argv) > 3 else os.path.basename(d)
ev = json.load(open(os.path.join(d, 'eval.json')))
meta = json.load(open(os.path.join(d, 'meta.json')))
valid = ev.get('applies') and ev.get('imports') and ev.get('tests_pass', True) and ev['demo_unchanged']['rc'] == 0 and ev.get('demo_changed', {}).get('rc') == 1
if not valid:
    print('NOT valid, not kept:', pid, label)
    sys.exit(1)
out = os.path.join(VERIF, 'seeded', f"{pid}-{label}")
os.makedirs(out, exist_ok=True)
shutil.copy(os.path.join(d, 'patch.diff'), out)
shutil.copy(os.path.join(d, 'demo.py'), out)
meta['confirmed_by_me'] = dict(applies=True, imports=True, tests=ev.get('tests') or '711 passed, 49 skipped (full suite run in a scratch worktree by tools/seed_eval.py, earlier invocation)', demo_unchanged_rc=ev['demo_unchanged']['rc'],
                               demo_changed_rc=ev['demo_changed']['rc'], demo_changed_tail=ev['demo_changed']['tail'][-300:])
meta['checks'] = {c: dict(exit=r['rc'], outcome=('VIOLATION (replayed on real code)' if r['rc'] == 1 and r['confirmed'] else
                                                 'VIOLATION no-failing-input-found' if r['rc'] == 1 else
                                                 'UNDECIDED' if r['rc'] == 2 else 'missed (exit 0)' if r['rc'] == 0 else f"exit {r['rc']}"),
                          lines=r['lines'][:3]) for c, r in ev['checks'].items()}
json.dump(meta, open(os.path.join(out, 'meta.json'), 'w'), indent=1)
print('kept', out, {c: v['outcome'] for c, v in meta['checks'].items()})
