#!/usr/bin/env python3
"""Development aid: run one sub-verification module on a tree and list its obligations.

usage: .venv/bin/python tools/subverify_one.py <contracts module, e.g. c03_merge> <repo path | -> [key ...]
       (keys default to the module's K / KW / T-prefixed keys where defined: c03_merge, c05_params, c11_read, c04_parsecache)"""
import importlib
import os
import sys
import time

sys.path.insert(0, os.path.dirname(os.path.dirname(os.path.abspath(__file__))))
from pyvc.extract import Source          # noqa: E402
from pyvc.subverify import subverify     # noqa: E402

DEFAULT = {
    'c03_merge': lambda m: [m.T + 'has_none', m.T + 'merge_projections'],
    'c05_params': lambda m: [m.KW, m.K],
    'c11_read': lambda m: [m.K],
    'c04_parsecache': lambda m: ['klongpy/interpreter.py::KlongInterpreter.__call__'],
}


def main():
    name = sys.argv[1]
    repo = sys.argv[2] if len(sys.argv) > 2 and sys.argv[2] != '-' else '/repo'
    m = importlib.import_module('contracts.' + name)
    keys = sys.argv[3:] or DEFAULT[name](m)
    t = time.time()
    rows, _ = subverify(Source(repo), 'DEV', m, keys, why=name, timeout_s=30)
    for r in rows:
        print(('ok ' if r['ok'] else ('UND' if r.get('undecided') else 'BAD')), r['name'], r.get('backend'), '' if r['ok'] else str(r['detail'])[:300])
    print(f"{len(rows)} rows, {time.time() - t:.1f}s")


if __name__ == '__main__':
    main()
